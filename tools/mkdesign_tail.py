#!/usr/bin/env python3
"""Rewrites the tail of DESIGN.md (everything after the GENERATED-TAIL marker): §12 from RESULTS.md, §13 catch matrix
from seeded/*/meta.json, §14 findings census from known_findings.json."""
import json, os, subprocess, sys
V = os.path.dirname(os.path.dirname(os.path.abspath(__file__)))
MARK = "<!-- GENERATED-TAIL: everything below is assembled by tools/mkdesign_tail.py -->"
d = open(os.path.join(V, "DESIGN.md")).read()
if MARK in d:
    d = d[:d.index(MARK)]
d = d.rstrip() + "\n\n" + MARK + "\n\n"
d += "---------------------------------------------------------------------------------------------------\n\n"
d += open(os.path.join(V, "RESULTS.md")).read().rstrip() + "\n\n"
d += "---------------------------------------------------------------------------------------------------\n\n"
d += "## 13. Seeded changes and which check catches them\n\n"
d += ("Each change below was written by a fresh sub-agent that saw only the property text and its own scratch worktree of\n"
      "/repo (nothing from /verif). It was kept only after `tools/seedtest.py import` confirmed, in a scratch worktree, that its\n"
      "demonstration passes on the unmodified tree, fails with the change, and that `import lian.main` still works; the pinned\n"
      "suite does not import lian, so it passes with every change. `tools/seedtest.py run <name>` applies the patch to /repo, runs\n"
      "the property's quick check, records the verdict in `seeded/<name>/meta.json` and undoes the patch. `-mK` = first seeding\n"
      "round, `-nK` = second round (asked for different, harder-to-notice mechanisms). Where a change was missed at import\n"
      "time the generator / oracle of that check was strengthened *generically* (not for the one change) and the change re-run;\n"
      "`first_run` records the verdict at import time.\n\n")
m = subprocess.run([sys.executable, os.path.join(V, "tools", "seedtest.py"), "matrix-md"], capture_output=True, text=True).stdout
d += m + "\n"
kf = json.load(open(os.path.join(V, "known_findings.json")))["findings"]
d += "---------------------------------------------------------------------------------------------------\n\n"
d += "## 14. Findings census (from known_findings.json)\n\n| property | fixed (one `fix:` commit each on /repo main) | open (narrow matcher in the check) |\n|---|---|---|\n"
for pid in ["C%02d" % i for i in range(1, 21)]:
    fx = [f["id"].split("/", 1)[1] for f in kf if f["property"] == pid and f.get("status") == "fixed"]
    op = [f["id"].split("/", 1)[1] for f in kf if f["property"] == pid and f.get("status", "open") == "open"]
    d += f"| {pid} | {len(fx)}: {', '.join(fx) or '—'} | {len(op)}: {', '.join(op) or '—'} |\n"
open(os.path.join(V, "DESIGN.md"), "w").write(d)
print("DESIGN.md tail rewritten:", len(d), "bytes")
