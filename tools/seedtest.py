#!/usr/bin/env python3
"""Confirm a seeded mutation and record whether the checks catch it.

  tools/seedtest.py import <PID> <src_dir> <name>   # src_dir has patch.diff, demo.py, meta.json -> seeded/<name>/
  tools/seedtest.py run <name> [tier]               # apply to /repo, run ./check <PID> <tier>, undo; updates meta.json
  tools/seedtest.py matrix                          # table of all seeded mutations and which check caught them

Confirmation (import): in a scratch worktree under /tmp the demo must exit 0 on the unmodified tree and
non-zero with the patch, and `import lian.main` must still work with the patch.
"""
import json, os, shutil, subprocess, sys, time
VERIF = os.path.dirname(os.path.dirname(os.path.abspath(__file__)))
REPO = "/repo"
PY = "/venv/bin/python"

def sh(cmd, **kw):
    return subprocess.run(cmd, shell=True, capture_output=True, text=True, **kw)

def run_demo(wt, demo):
    env = dict(os.environ, PYTHONPATH=os.path.join(wt, "src"))
    p = subprocess.run([PY, demo, wt], cwd=wt, env=env, capture_output=True, text=True, timeout=900)
    return p.returncode, (p.stdout + p.stderr)[-600:]

def do_import(pid, src, name):
    dst = os.path.join(VERIF, "seeded", name)
    wt = f"/tmp/sv-{name}"
    sh(f"git -C {REPO} worktree remove --force {wt}")
    r = sh(f"git -C {REPO} worktree add --detach {wt} HEAD")
    assert r.returncode == 0, r.stderr
    try:
        demo = os.path.join(src, "demo.py")
        rc0, out0 = run_demo(wt, demo)
        r = sh(f"git -C {wt} apply {os.path.join(src, 'patch.diff')}")
        assert r.returncode == 0, "patch does not apply: " + r.stderr
        rc1, out1 = run_demo(wt, demo)
        imp = sh(f"cd {wt} && PYTHONPATH=src {PY} -c 'import builtins; builtins.profile=lambda f:f; import lian.main'")
        ok = rc0 == 0 and rc1 != 0 and imp.returncode == 0
        print(f"demo clean rc={rc0}, mutated rc={rc1}, import rc={imp.returncode} -> {'CONFIRMED' if ok else 'REJECTED'}")
        if not ok:
            print(out0, out1, imp.stderr[-300:])
            return 1
        os.makedirs(dst, exist_ok=True)
        for f in ("patch.diff", "demo.py"):
            shutil.copy(os.path.join(src, f), os.path.join(dst, f))
        meta = json.load(open(os.path.join(src, "meta.json")))
        meta["property"] = pid
        meta["confirmed"] = {"base_commit": sh(f"git -C {REPO} rev-parse --short HEAD").stdout.strip(),
                             "demo_exit_clean": rc0, "demo_exit_mutated": rc1, "import_ok": True,
                             "mutated_demo_output_tail": out1[-300:]}
        json.dump(meta, open(os.path.join(dst, "meta.json"), "w"), indent=1)
        return 0
    finally:
        sh(f"git -C {REPO} worktree remove --force {wt}")

def do_run(name, tier="quick"):
    dst = os.path.join(VERIF, "seeded", name)
    meta = json.load(open(os.path.join(dst, "meta.json")))
    pids = meta["property"] if isinstance(meta["property"], list) else [meta["property"]]
    st = sh(f"git -C {REPO} status --porcelain --untracked-files=no").stdout.strip()
    assert not st, "/repo has uncommitted changes: " + st
    r = sh(f"git -C {REPO} apply {os.path.join(dst, 'patch.diff')}")
    assert r.returncode == 0, "patch does not apply: " + r.stderr
    res = {}
    try:
        for pid in pids + [p for p in meta.get("also_run", [])]:
            t = time.time()
            p = sh(f"cd {VERIF} && ./check {pid} {tier}")
            lines = [l for l in p.stdout.split("\n") if l.startswith("VIOLATION")]
            res[pid] = {"tier": tier, "exit": p.returncode, "violation_lines": lines[:3], "wall_s": round(time.time() - t, 1)}
            print(pid, res[pid])
    finally:
        sh(f"git -C {REPO} checkout -- .")
    meta.setdefault("check_results", {}).update(res)
    meta["caught"] = any(v["exit"] == 1 and v["violation_lines"] for v in meta["check_results"].values())
    json.dump(meta, open(os.path.join(dst, "meta.json"), "w"), indent=1)
    return 0

def do_matrix():
    d = os.path.join(VERIF, "seeded")
    for name in sorted(os.listdir(d)):
        m = json.load(open(os.path.join(d, name, "meta.json")))
        cr = m.get("check_results", {})
        print(f"{name:12} {str(m['property']):8} caught={m.get('caught')}  " +
              ", ".join(f"{k}:{'V' if v['exit']==1 else v['exit']}" + ("(nfi)" if any('no-failing-input-found' in l for l in v['violation_lines']) else "") for k, v in cr.items()) +
              "  | " + m.get("summary", "")[:90])

def do_matrix_md():
    d = os.path.join(VERIF, "seeded")
    print("| seeded change | property | what it changes | needs to manifest | caught by | verdict | at import |")
    print("|---|---|---|---|---|---|---|")
    for name in sorted(os.listdir(d)):
        m = json.load(open(os.path.join(d, name, "meta.json")))
        cr = m.get("check_results", {})
        by = []
        for k, v in cr.items():
            if v["exit"] == 1 and v["violation_lines"]:
                nfi = any("no-failing-input-found" in l for l in v["violation_lines"])
                by.append(f"`./check {k} {v['tier']}`" + (" (no-failing-input-found)" if nfi else " (concrete replay)"))
        esc = lambda t: str(t).replace("|", "\\|").replace("\n", " ")
        print(f"| {name} | {m['property']} | {esc(m.get('summary',''))[:160]} | {esc(m.get('needs_to_manifest',''))[:160]} | {', '.join(by) or '—'} | {'caught' if m.get('caught') else 'MISSED'} | {m.get('first_run','')} |")

if __name__ == "__main__":
    if sys.argv[1] == "matrix-md": sys.exit(do_matrix_md())
    a = sys.argv[1:]
    if a[0] == "import": sys.exit(do_import(a[1], a[2], a[3]))
    if a[0] == "run": sys.exit(do_run(a[1], a[2] if len(a) > 2 else "quick"))
    if a[0] == "matrix": sys.exit(do_matrix())
