// package tests.resource.method_summary.verified_cases.java;

// public class global_java {
//     public int a ;
//     public int b ;
//     public int c(){
//         int d = 0;
//     }
    
// }
private static void main(){
    
};
 static void main1(){
    
};