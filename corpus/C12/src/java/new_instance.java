package tests.resource.state_flow.java;

import java.util.ArrayList;
import java.util.HashMap;

// class Person {
//     private String name;
//     private int age;

//     public Person(String name, int age) {
//         this.name = name;
//         this.age = age;
//     }
// }

public class new_instance {
    public static void main(String[] args) {
        String str = new abc("hello");
        ArrayList<Integer> list = new ArrayList<>();
        HashMap<String, Integer> map = new HashMap<>();
        str = "hello";
        String str2 = str + " world";

        Person person = new Person("John", 25);
    }
}