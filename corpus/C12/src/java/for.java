public static void main() {
    for (int i = 0; i < 10; i++) {
        a = i + 1;
        if(a > 10){
            a = 10;
            break;
        } 
        System.out.println(a);

    }   
}