// var obj = { x: 1 };
// var aliasToObj = obj;
// aliasToObj.x ++;
// alert( obj.x );

function (e,t) {return as(e,t,2<arguments.length&&void 0!==arguments[2]?arguments[2]:null)}


