g = 1

// function f1() {
//     g += 1
//     return g
// }

// function f2() {
//     a = g
//     return g
// }

// function main() {
//     f0 = {}
//     f0.f = f1
//     if (Math.random()) {
//         f0.f = f2
//     } else {
//         a = f0.f()
//         b= f0
//     }
// }

// main()
document.addEventListener('click', function() {
    console.log('文档被点击了！');
});

// 使用匿名函数作为回调函数
setTimeout(function() {
    console.log('2秒后执行此匿名函数');
}, 2000);