function a() {
    console.log(a);
}
function internal() {
    i = 0;
    a();
    if (i == 0) {
        a = 4;
    }
    // a();
}
internal();

