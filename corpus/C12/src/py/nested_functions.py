a = 3


def outer_function():
    def inner_function(x, y): # def (inner_function state:[2])
        return a(x, y)
    def operation(a, b): # def (operation state:[4])
        return a * b
    a = operation # def (a state:[4])
    result = inner_function(10, 5) # inbits:[2,4,6]
    return result

result = outer_function()
print("Result:", result)  # 输出: Result: 50

'''
first round:    stack: outer_function
outer_function:
2. method_decl  <def (inner_function state:[2])>    inbits:0
4. method_decl  <def (operation state:[4])>         inbits:2
6. assign       <def (a state:[4])>                 inbits:2,4
7. call         <def result>                        inbits:2,4,6
    get callee_name => inner_function
    get states      => 2 from 2
    call(2)

second round:   stack: outer_function, inner_function
inner_function:
3. call         <def %v>  
    get callee_name => a                          
'''
