g = 3
'''
1、gir阶段把所有临时变量改名字

g = 10
int f()
	g = 11
	int g;
	g = 12
print g

2、
'''
def f1():
    f2()

def f2():
    global g
    g = 4
    f3()

def f3():
    g = 8
    f4()

def f4():
    print(g)

# def f3():
#     g = 8
#     def f4():
#         print(g)
#     f4()

f1()