# condition = True
# if condition:
#     a = {
#         'x': 1,
#         'y': 2,
#         'z': 3
#     }
# else:
#     a = [1,2,3]

# b = 1
# c = a[b]

# b = 'x'
# c = a[b]


a = {
    'x': 1,
    'y': 2,
    'z': 3
}

b = {}
for key in a:
    b[key] = a[key]
