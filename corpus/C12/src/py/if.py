# if
# def condition():
#     a = "hello"
#     b = a + " world"
#     if len(a) > 0:
#         x = b
#     elif 3 != 4:
#         x = 5
#     else:
#         x = 7
#     return x


# a = 3
# if (a == 3): 
#     a = 4
# else: 
#     c = a
# 创建示例
import pandas as pd
data = ["ab", "21"]
series = pd.Series(data, name='age')
print(series)