a = 10
def fun():
    print("hello")
c = fun

def fun2():
    c()

fun2()
