def a():
    print("2")

d = 9
a2 = 3

def func1():
    pass
arr = [a]

# call
arr[0]()

a = func1
def test(a, b = 1):
    # variable_decl a

    # call
    a()
    b = 4
    c = 3
    a = 6
    if (d > 5):
        a = b + c
        c = a + b
    else:
        b = a + c
        a = b - d
    e = a

# call
test(arr[0])

def test2():
    global a2
    a2 = 4

# call
test2()

def internal():
    i = 0

    # call
    a()
    while i < 3:
        if i % 3 == 0:
            print("8")
        elif i % 3 == 1000:
            #a = 1
            pass

        # call
        a()
        i += 1

# call
internal()
# 0 -> 1
#   -> 5 -> 6 -> 7 -> 10
