class A:
    def __init__(self, a: list):
        self.ddddd = "ssssssssssssss"
        a[0] = self.ddddd
        # self.ddddd = a

def fun():
    m = ['first']
    obj = A(m)
    obj.f = m
    return obj

o = fun()
a = o.f
b = o.ddddd