def f1():
    p = f2()
    sink(p)
    return p

def f2():
    s = source()
    g = s
    sink(g)
    return s

def f3(x):
    f4(x)

def f4(x):
    sink(x)

def main():
    a = f1()
    f3(a)

main()
