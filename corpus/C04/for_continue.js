function for_continue(c, n) {
  var s = 0;
  for (var i = 0; i < n; i++) {
    if (c) continue;
    s = s + i;
  }
  return s;
}
function switch_shapes(x, n) {
  var z = 0;
  for (var i = 0; i < n; i++) {
    switch (x) {
      case 1:
        z = 1;
        break;
      case 2:
        continue;
      case 3:
        z = 3;
    }
    z = 5;
  }
  return z;
}
function empty_bodies(c) {
  var x = 0;
  if (c) {}
  x = 1;
  while (c) {}
  x = 2;
  for (var i = 0; i < 3; i++) {}
  x = 3;
  switch (c) {}
  class K {}
  return x;
}
