class WhilePrebody {
  int f(int n, int c) {
    int s = 0;
    int i = 0;
    while (i < n) {
      if (c > 0) continue;
      s = s + i;
      i = i + 1;
    }
    do {
      s = s + 1;
      if (s > 5) continue;
      s = s + 2;
    } while (s < n);
    for (int j = 0; j < n; j++) { }
    return s;
  }
}
