def while_true_else(c):
    while True:
        c = c + 1
    else:
        c = 0
    return c


def while_true_else_break(c):
    while True:
        if c:
            break
    else:
        c = 0
    return c


def while_else_break(xs, c, d):
    for a in xs:
        while c:
            c = c - 1
        else:
            break
        d = d + 1
    return d


def try_midbody(a):
    try:
        x = f(a)
        y = g(x)
    except E:
        y = 0
    return y


def match_exit(x):
    match x:
        case 1:
            z = 1
        case _:
            z = 2
    return z


def loop_first():
    while c:
        g()
