"""C16 — table queries always reflect the table's current contents.

Three runs of every generated history (constructor + list of operations):

* REAL    the `DataModel` of $LIAN_REPO/src/lian/util/data_model.py as it is now (in-process);
* MODEL   the Lean definitions `LianVerif.Table.run current` through `lvdrv` (model "table");
* ORACLE  a pure-Python list-of-dicts table (`OTable` below) that knows nothing about caches: every
          query is a scan of the current rows.  The oracle decides whether a difference is a violation.

pandas' dtype refusals (`TypeError: Invalid value … for dtype …`) are part of the environment: the
harness predicts them from the dtypes of the real frame (`refuses`) and passes them to model and oracle
as parameters of the operation (`stop`, `refused`), so model and oracle say what the table must look
like given that pandas refused at that point.  The prediction is checked: if pandas does not behave as
predicted the outputs differ and the history is reported.

A second, smaller part covers `GIRBlockViewer` (util/gir_block.py): block queries against a scan.
"""
import hashlib, itertools, json, math, os, shutil, sys, time, warnings
import common
from common import drv_batch, drv_ok

MODEL_OK = True       # False when the Lean build is broken: REAL is then only compared with the ORACLE
VARIANT = os.environ.get("LV_C16_VARIANT", "current")      # development aid only
if VARIANT.startswith("["):
    VARIANT = json.loads(VARIANT)
ERRMAP = {"KeyError": "key", "IndexError": "index", "ValueError": "value", "TypeError": "type",
          "SystemExit": "quit"}


class CanonError(Exception):
    pass


def canon(x):
    """A cell as the model sees it: None | int | str.  Never rounds."""
    if x is None:
        return None
    if isinstance(x, str):
        return x
    import numpy as np
    import pandas as pd
    if isinstance(x, (bool, np.bool_)):
        raise CanonError(f"boolean cell {x!r}")
    if isinstance(x, (int, np.integer)):
        return int(x)
    if isinstance(x, (float, np.floating)):
        if math.isnan(x):
            return None
        if int(x) == x:
            return int(x)
        raise CanonError(f"non-integral float {x!r}")
    if x is pd.NA or x is pd.NaT:
        return None
    raise CanonError(f"unexpected cell {type(x).__name__} {x!r}")


# =====================================================================================================
# REAL
# =====================================================================================================

def dump(dm):
    """The current contents, read from the DataFrame directly (no DataModel cache involved)."""
    df = dm._data
    cols = [c if isinstance(c, str) else repr(c) for c in df.columns]
    labels = [int(x) for x in df.index.tolist()]
    if not cols:
        rows = [[] for _ in labels]
    else:
        rows = [[canon(v) for v in r] for r in df.to_numpy(dtype=object).tolist()]
    if len(rows) != len(labels) or any(len(r) != len(cols) for r in rows):
        raise RuntimeError("harness: pandas frame is not rectangular")
    return {"cols": cols, "labels": labels, "rows": rows}


def schema_list(schema):
    return [k for k, _ in sorted(schema.items(), key=lambda kv: kv[1])]


def row_json(r):
    if r is None:
        return None
    return [[canon(c) for c in r.raw_data()], schema_list(r._schema), int(r.get_index())]


def refuses(dtype, v):
    """pandas 3: does a column of this dtype refuse the scalar v?"""
    import pandas as pd
    if v is None:
        return False
    if isinstance(dtype, pd.StringDtype):
        return not isinstance(v, str)
    kind = getattr(dtype, "kind", None)
    if kind in ("i", "u", "f"):
        return isinstance(v, str)
    if kind == "O":
        return False
    raise RuntimeError(f"harness: unexpected dtype {dtype!r}")


class Skip(Exception):
    """operation not issued (the harness cannot predict pandas here)"""


class RealWorld:
    def __init__(self, ctor, scratch):
        import pandas as pd
        from lian.util.data_model import DataModel
        self.DataModel, self.pd, self.scratch = DataModel, pd, scratch
        self.nfile = 0
        k = ctor[0]
        if k == "rows":
            self.cur = DataModel([list(r) for r in ctor[2]], columns=list(ctor[1]), reset_index=ctor[3])
        elif k == "dicts":
            self.cur = DataModel([dict((a, b) for a, b in d) for d in ctor[1]])
        elif k == "frame":
            self.cur = DataModel(self.mkdf(ctor[1]), reset_index=ctor[2])
        elif k == "load":
            path = self.path()
            self.mkdf(ctor[1]).to_feather(path)
            self.cur = DataModel().load(path)
        else:
            raise RuntimeError("ctor " + k)
        self.other = None

    def path(self):
        self.nfile += 1
        return os.path.join(self.scratch, f"t{os.getpid()}_{self.nfile}.feather")

    def mkdf(self, f):
        return self.pd.DataFrame([list(r) for r in f["rows"]], columns=list(f["cols"]), index=list(f["labels"]))

    def child_out(self, c):
        if isinstance(c, list) and len(c) == 0:
            return ["empty"], None
        if c is None:
            return ["none"], None
        if schema_list(c._schema) != [str(x) for x in c._data.columns]:
            return ["frame", "schema-differs-from-columns", schema_list(c._schema)], c
        return ["frame", dump(c)], c

    def resolve(self, op):
        """fill in the environment parameters of an operation from the dtypes of the real frame"""
        k = op[0]
        df = self.cur._data
        if k == "modifyRow":
            i, row = op[1], op[2]
            if len(row) != len(df.columns):
                # pandas broadcasts a one-element list over a single-dtype row and orders its checks
                # differently for negative positions: outside the model (Err.unmodelled), not issued
                raise Skip()
            if len(df.columns) == 1 and isinstance(df.dtypes.iloc[0], self.pd.StringDtype):
                # pandas: `iloc[i] = [v]` on a frame whose only column is `str` raises "Length of indexer and
                # values mismatch" whatever v is; pandas' business, not issued
                raise Skip()
            stop = None
            for j, v in enumerate(row):
                if refuses(df.dtypes.iloc[j], v):
                    stop = j
                    break
            if not (-len(df) <= i < len(df)):
                if stop is not None:
                    raise Skip()       # pandas reports the dtype refusal before the bad position for some layouts
                stop = None
            return ["modifyRow", i, row, stop]
        if k == "modifyElement":
            label, col, v = op[1], op[2], op[3]
            ix = df.index
            if (isinstance(ix, self.pd.RangeIndex) and len(ix) == 2 and label not in ix
                    and label == ix[0] + ix.step / 2):
                # pandas 3.0.x bug: RangeIndex.insert ignores `loc` in its "right in the middle" shortcut, so
                # setting-with-enlargement of the midpoint label of a 2-element stepped RangeIndex corrupts the
                # frame (index length 4, column length 3).  Not lian's doing; not issued.
                raise Skip()
            refused = col in df.columns and refuses(df.dtypes[col], v)
            return ["modifyElement", label, col, v, bool(refused)]
        if k == "fillna":
            if op[1] is None or any(refuses(dt, op[1]) for dt in df.dtypes):
                raise Skip()
        # duplicate column labels are outside the model (Err.unmodelled): never issued
        if k == "renameColumn" and op[1] != op[2] and op[1] in df.columns and op[2] in df.columns:
            raise Skip()
        if k == "setColumns" and len(set(op[1])) != len(op[1]):
            raise Skip()
        # duplicate row labels (a repeated label kept by reset_index=False) are outside the model as well
        if k == "slowQueryLabels" and not op[2] and len(set(op[1])) != len(op[1]):
            raise Skip()
        return op

    def do(self, op):
        dm, k = self.cur, op[0]
        if k == "len":
            return ["int", len(dm)], None
        if k == "isEmpty":
            return ["bool", bool(dm.is_empty())], None
        if k == "getRows":
            return ["matrix", [[canon(c) for c in r] for r in dm.get_rows()]], None
        if k == "iter":
            return ["rows", [row_json(r) for r in dm]], None
        if k == "accessPos":
            r = dm.access(op[1])
            return (["none"] if r is None else ["row", row_json(r)]), None
        if k == "accessList":
            return ["rows", [row_json(r) for r in dm.access(list(op[1]))]], None
        if k == "accessLoc":
            return ["cell", canon(dm.access(op[1], op[2]))], None
        if k == "column":
            return ["cells", [canon(x) for x in getattr(dm, op[1]).tolist()]], None
        if k == "queryIdx":
            return ["pos", [int(x) for x in dm.query_index_column_value_indices(op[1], op[2])]], None
        if k == "queryTable":
            return self.child_out(dm.query_index_column_value(op[1], op[2]))
        if k == "queryFirst":
            r = dm.query_index_column_value_first(op[1], op[2])
            return (["none"] if r is None else ["row", row_json(r)]), None
        if k == "searchBlock":
            r = dm.search_block_start_end_indics(op[1])
            return (["none"] if r is None else ["pos", [int(x) for x in r]]), None
        if k == "readBlock":
            return self.child_out(dm.read_block(op[1], op[2]))
        if k == "readBlockWith":
            return self.child_out(dm.read_block_with_block_stmts(op[1], op[2]))
        if k == "boundary":
            return ["int", int(dm.boundary_of_multi_blocks(list(op[1])))], None
        if k == "slowQueryEq":
            mask = getattr(dm, op[1]) == op[2]
            if op[3] is not None:
                return ["cells", [canon(x) for x in dm.slow_query(mask, op[3], op[4]).tolist()]], None
            return self.child_out(dm.slow_query(mask, reset_index=op[4]))
        if k == "slowQueryIsin":
            return self.child_out(dm.slow_query(getattr(dm, op[1]).isin(list(op[2])), reset_index=op[3]))
        if k == "slowQueryLabels":
            return self.child_out(dm.slow_query(list(op[1]), reset_index=op[2]))
        if k == "toDicts":
            return ["dicts", [[[a, canon(b)] for a, b in d.items()] for d in dm.convert_to_dict_list()]], None
        if k == "slice":
            return self.child_out(dm.slice(op[1], op[2]))
        if k == "clone":
            return self.child_out(dm.clone())
        if k == "modifyRow":
            dm.modify_row(op[1], list(op[2]))
        elif k == "modifyColumn":
            dm.modify_column(op[1], op[2])
        elif k == "modifyColumnList":
            dm.modify_column(op[1], list(op[2]))
        elif k == "modifyElement":
            dm.modify_element(op[1], op[2], op[3])
        elif k == "renameColumn":
            dm.rename_column({op[1]: op[2]})
        elif k == "append":
            dm.append_data_model(self.DataModel(self.mkdf(op[1])))
        elif k == "removeRows":
            dm.remove_rows(op[1], op[2])
        elif k == "resetIndex":
            dm.reset_index(move_index_to_column=op[1])
        elif k == "fillna":
            dm.fillna(op[1])
        elif k == "setColumns":
            dm.set_columns(list(op[1]))
        elif k == "saveLoad":
            path = self.path()
            ok = dm.save(path) is dm
            op[1] = ok                           # observed environment parameter (pyarrow accepted the frame)
            if not ok:
                return ["none"], None
            child = self.DataModel().load(path)
            try:
                os.unlink(path)
            except OSError:
                pass
            return self.child_out(child)
        else:
            raise RuntimeError("op " + k)
        return ["unit"], None

    def exec(self, wop):
        """returns (resolved wop, out) — never raises for exceptions of the code under test"""
        k = wop[0]
        if k == "swap":
            if self.other is None:
                return wop, ["none"]
            self.cur, self.other = self.other, self.cur
            return wop, ["unit"]
        if k == "appendOther":
            if self.other is None:
                return wop, ["none"]
            try:
                self.cur.append_data_model(self.other)
                return wop, ["unit"]
            except BaseException as e:
                return wop, err_out(e)
        enter = k == "enter"
        op = self.resolve(list(wop[1]) if enter else list(wop))
        try:
            out, child = self.do(op)
        except CanonError:
            raise
        except BaseException as e:
            out, child = err_out(e), None
        if enter and child is not None:
            self.cur, self.other = child, self.cur
        return (["enter", op] if enter else op), out


def err_out(e):
    if isinstance(e, (KeyboardInterrupt, MemoryError, CanonError)):
        raise e
    n = type(e).__name__
    return ["err", ERRMAP.get(n, "other:" + n + ":" + str(e)[:80])]


def real_run(ctor, ops, scratch):
    """-> (resolved ops, init frame, [[out, frame after]])"""
    w = RealWorld(ctor, scratch)
    init = dump(w.cur)
    res, outs = [], []
    for wop in ops:
        try:
            r, out = w.exec(wop)
        except Skip:
            continue
        res.append(r)
        outs.append([out, dump(w.cur)])
    return res, init, outs


# =====================================================================================================
# ORACLE: a list of dicts and nothing else
# =====================================================================================================

class OErr(Exception):
    def __init__(self, kind):
        self.kind = kind


def missing(v):                      # what the equality index treats as "no value"
    return v is None or v == ""


class OTable:
    def __init__(self, cols, labels, rows):
        self.cols, self.labels, self.rows = list(cols), list(labels), [dict(r) for r in rows]

    @staticmethod
    def of_matrix(cols, labels, matrix):
        return OTable(cols, labels, [dict(zip(cols, r)) for r in matrix])

    def copy(self):
        return OTable(self.cols, self.labels, self.rows)

    def frame(self):
        return {"cols": list(self.cols), "labels": list(self.labels),
                "rows": [[r.get(c) for c in self.cols] for r in self.rows]}

    def renumber(self):
        self.labels = list(range(len(self.rows)))
        return self

    def row(self, i):
        return [[self.rows[i].get(c) for c in self.cols], list(self.cols), self.labels[i]]

    def need(self, col, kind="key"):
        if col not in self.cols:
            raise OErr(kind)

    def positions(self, col, v):
        if missing(v):
            return []
        self.need(col, "quit")
        return [i for i, r in enumerate(self.rows) if r.get(col) is not None and r.get(col) == v]

    def block(self, bid):
        return None if missing(bid) else self.positions("stmt_id", bid)

    def take(self, idxs):
        return OTable(self.cols, [self.labels[i] for i in idxs], [self.rows[i] for i in idxs])

    def pyslice(self, a, b):
        return self.take(list(range(len(self.rows)))[a:b])


def oracle_step(t, op):
    """-> (out, child or None); mutates t"""
    k = op[0]
    n = len(t.rows)
    if k == "len":
        return ["int", n], None
    if k == "isEmpty":
        return ["bool", n == 0], None
    if k == "getRows":
        return ["matrix", [[r.get(c) for c in t.cols] for r in t.rows]], None
    if k == "iter":
        return ["rows", [t.row(i) for i in range(n)]], None
    if k == "accessPos":
        return (["row", t.row(op[1])] if 0 <= op[1] < n else ["none"]), None
    if k == "accessList":
        return ["rows", [t.row(i) if 0 <= i < n else None for i in op[1]]], None
    if k == "accessLoc":
        if op[1] not in t.labels or op[2] not in t.cols:
            raise OErr("key")
        return ["cell", t.rows[t.labels.index(op[1])].get(op[2])], None
    if k == "column":
        t.need(op[1])
        return ["cells", [r.get(op[1]) for r in t.rows]], None
    if k == "queryIdx":
        return ["pos", t.positions(op[1], op[2])], None
    if k == "queryTable":
        ps = t.positions(op[1], op[2])
        if not ps:
            return ["empty"], None
        c = t.take(ps)
        return ["frame", c.frame()], c
    if k == "queryFirst":
        ps = t.positions(op[1], op[2])
        if not ps:
            return ["none"], None
        return ["row", [[t.rows[ps[0]].get(c) for c in t.cols], list(t.cols), ps[0]]], None
    if k == "searchBlock":
        b = t.block(op[1])
        return (["none"] if b is None else ["pos", b]), None
    if k in ("readBlock", "readBlockWith"):
        b = t.block(op[1])
        if b is None:
            return ["empty"], None
        if k == "readBlock":
            if len(b) != 2:
                raise OErr("quit")
            c = t.pyslice(b[0] + 1, b[1])
        else:
            if len(b) < 2:
                return ["empty"], None
            c = t.pyslice(b[0], b[1] + 1)
        if op[2]:
            c.renumber()
        return ["frame", c.frame()], c
    if k == "boundary":
        m = -1
        for bid in op[1]:
            b = t.block(bid)
            if b:
                m = max(m, max(b))
        return ["int", m], None
    if k in ("slowQueryEq", "slowQueryIsin"):
        t.need(op[1])
        if k == "slowQueryEq":
            keep = [i for i, r in enumerate(t.rows) if r.get(op[1]) is not None and op[2] is not None
                    and r.get(op[1]) == op[2]]
            outcol, reset = op[3], op[4]
        else:
            keep = [i for i, r in enumerate(t.rows) if r.get(op[1]) is not None and r.get(op[1]) in op[2]]
            outcol, reset = None, op[3]
        c = t.take(keep)
        if outcol is not None:
            c.need(outcol)
            return ["cells", [r.get(outcol) for r in c.rows]], None
        if reset:
            c.renumber()
        return ["frame", c.frame()], c
    if k == "slowQueryLabels":
        if not op[2] and len(set(op[1])) != len(op[1]):
            raise OErr("unmodelled")
        if any(l not in t.labels for l in op[1]):
            raise OErr("key")
        c = t.take([t.labels.index(l) for l in op[1]])
        c.labels = list(op[1])
        if op[2]:
            c.renumber()
        return ["frame", c.frame()], c
    if k == "toDicts":
        if not t.cols:                            # pandas: no columns, no records
            return ["dicts", []], None
        return ["dicts", [[[c, r.get(c)] for c in t.cols if r.get(c) is not None] for r in t.rows]], None
    if k == "slice":
        c = t.pyslice(op[1], op[2])
        return ["frame", c.frame()], c
    if k == "clone":
        c = t.copy()
        return ["frame", c.frame()], c
    # ---- mutations
    if k == "modifyRow":
        i, row, stop = op[1], op[2], op[3]
        if len(row) != len(t.cols):
            raise OErr("unmodelled")
        if not (-n <= i < n):
            raise OErr("index")
        for j, c in enumerate(t.cols):
            if stop is not None and j >= stop:
                break
            t.rows[i][c] = row[j]
        if stop is not None:
            raise OErr("type")
        return ["unit"], None
    if k in ("modifyColumn", "modifyColumnList"):
        vals = [op[2]] * n if k == "modifyColumn" else list(op[2])
        if n == 0 and vals:                       # pandas lets a frame without rows grow to the list's length
            t.rows = [{} for _ in vals]
            t.renumber()
            n = len(vals)
        if len(vals) != n:
            raise OErr("value")
        if op[1] not in t.cols:
            t.cols.append(op[1])
        for r, v in zip(t.rows, vals):
            r[op[1]] = v
        return ["unit"], None
    if k == "modifyElement":
        label, col, v, refused = op[1], op[2], op[3], op[4]
        if col not in t.cols:
            t.cols.append(col)
            refused = False
        if label not in t.labels:
            t.labels.append(label)
            t.rows.append({})
        if refused:
            raise OErr("type")
        t.rows[t.labels.index(label)][col] = v
        return ["unit"], None
    if k == "renameColumn":
        old, new = op[1], op[2]
        if old != new and old in t.cols and new in t.cols:
            raise OErr("unmodelled")
        if old in t.cols:
            t.cols[t.cols.index(old)] = new
            for r in t.rows:
                if old in r:
                    r[new] = r.pop(old)
        return ["unit"], None
    if k == "append":
        g = op[1]
        for c in g["cols"]:
            if c not in t.cols:
                t.cols.append(c)
        t.rows += [dict(zip(g["cols"], r)) for r in g["rows"]]
        t.renumber()
        return ["unit"], None
    if k == "removeRows":
        t.need(op[1])
        v = op[2]
        keep = [i for i, r in enumerate(t.rows) if r.get(op[1]) is None or v is None or r.get(op[1]) != v]
        t.labels, t.rows = [t.labels[i] for i in keep], [t.rows[i] for i in keep]
        return ["unit"], None
    if k == "resetIndex":
        if op[1]:
            name = "index" if "index" not in t.cols else ("level_0" if "level_0" not in t.cols else None)
            if name is None:
                raise OErr("value")
            t.cols.insert(0, name)
            for r, l in zip(t.rows, t.labels):
                r[name] = l
        t.renumber()
        return ["unit"], None
    if k == "fillna":
        for r in t.rows:
            for c in t.cols:
                if r.get(c) is None:
                    r[c] = op[1]
        return ["unit"], None
    if k == "setColumns":
        names = list(op[1])
        if len(set(names)) != len(names):
            raise OErr("unmodelled")
        if len(names) != len(t.cols):
            raise OErr("value")
        t.rows = [dict((nn, r.get(c)) for nn, c in zip(names, t.cols)) for r in t.rows]
        t.cols = names
        return ["unit"], None
    if k == "saveLoad":
        t.renumber()
        if not op[1]:
            return ["none"], None
        c = t.copy()
        return ["frame", c.frame()], c
    raise RuntimeError("oracle op " + k)


def oracle_run(ctor, res_ops):
    k = ctor[0]
    if k == "rows":
        t = OTable.of_matrix(ctor[1], range(len(ctor[2])), ctor[2])
    elif k == "dicts":
        cols = []
        for d in ctor[1]:
            for a, _ in d:
                if a not in cols:
                    cols.append(a)
        t = OTable(cols, range(len(ctor[1])), [dict((a, b) for a, b in d) for d in ctor[1]])
    else:
        f = ctor[1]
        t = OTable.of_matrix(f["cols"], f["labels"], f["rows"])
        if k == "frame" and ctor[2]:
            t.renumber()
    cur, other = t, None
    init = cur.frame()
    outs = []
    for wop in res_ops:
        k = wop[0]
        if k == "swap":
            if other is None:
                out = ["none"]
            else:
                cur, other, out = other, cur, ["unit"]
        elif k == "appendOther":
            if other is None:
                out = ["none"]
            else:
                out, _ = oracle_step(cur, ["append", other.frame()])
        else:
            enter = k == "enter"
            op = wop[1] if enter else wop
            try:
                out, child = oracle_step(cur, op)
            except OErr as e:
                out, child = ["err", e.kind], None
            if enter and child is not None:
                cur, other = child, cur
        outs.append([out, cur.frame()])
    return init, outs


# =====================================================================================================
# generators
# =====================================================================================================

INTS, STRS = [0, 1, 2], ["x", "y", ""]
VALS = [1, 2, "x", "", None, 0]


def F(cols, rows, labels=None):
    return {"cols": list(cols), "labels": list(range(len(rows))) if labels is None else list(labels),
            "rows": [list(r) for r in rows]}


BASE_TABLES = [
    ["rows", ["a", "b"], [[1, "x"], [2, ""], [1, None]], False],
    ["rows", ["stmt_id", "a"], [[1, 0], [2, 1], [3, None], [2, 2]], False],
    ["dicts", [[["a", 1]], [["b", "x"], ["a", 2]], [["stmt_id", 2]]]],
    ["frame", F(["a", "b"], [[1, "x"], ["x", 1], [None, ""]], [5, 3, 9]), False],
    ["rows", ["a", "b"], [], False],
]
EXTRA_TABLES = [
    ["rows", [], [], False],
    ["load", F(["stmt_id", "b"], [[2, "x"], [1, None], [2, "y"], [None, ""]])],
    ["frame", F(["a", "stmt_id"], [[2, 1], [1, 1]], [4, 2]), True],
]

QUERIES = [
    ["len"], ["isEmpty"], ["getRows"], ["iter"], ["toDicts"],
    ["accessPos", 0], ["accessPos", 2], ["accessPos", -1], ["accessList", [0, 3]],
    ["accessLoc", 0, "a"], ["accessLoc", 1, "b"],
    ["column", "a"], ["column", "zz"],
    ["queryIdx", "a", 1], ["queryIdx", "a", 2], ["queryIdx", "a", "x"], ["queryIdx", "a", 0],
    ["queryIdx", "b", "x"], ["queryIdx", "b", ""], ["queryIdx", "a", None],
    ["queryIdx", "stmt_id", 2], ["queryIdx", "k", 1], ["queryIdx", "zz", 1],
    ["queryTable", "a", 1], ["queryFirst", "a", 1], ["queryFirst", "stmt_id", 2], ["queryFirst", "b", "x"],
    ["searchBlock", 2], ["readBlock", 2, False], ["readBlock", 2, True], ["readBlock", 1, False],
    ["readBlockWith", 2, False], ["boundary", [2, None, 3]],
    ["slowQueryEq", "a", 1, None, True], ["slowQueryEq", "b", "", "a", True], ["slowQueryEq", "a", 2, None, False],
    ["slowQueryIsin", "a", [1, 2], True], ["slowQueryIsin", "b", ["x", ""], False],
    ["slowQueryLabels", [1, 0], False], ["slowQueryLabels", [0, 7], True],
    ["slice", 1, 3], ["slice", -1, 5], ["clone"],
]
MUTATORS = [
    ["modifyRow", 0, [2, "y"], None], ["modifyRow", -1, ["x", 1], None], ["modifyRow", 1, [None, None], None],
    ["modifyRow", 5, [1, "x"], None], ["modifyRow", 0, [1], None], ["modifyRow", 1, [1, "y", 2], None],
    ["modifyColumn", "a", None], ["modifyColumn", "a", 1], ["modifyColumn", "c", "x"],
    ["modifyColumnList", "a", [2, 2, 1]], ["modifyColumnList", "b", ["x", None, 1, ""]],
    ["modifyElement", 0, "a", 2, False], ["modifyElement", 1, "b", "x", False], ["modifyElement", 1, "a", None, False],
    ["modifyElement", 7, "a", 1, False], ["modifyElement", 0, "c", 1, False], ["modifyElement", 0, "a", "x", False],
    ["modifyElement", 7, "b", 1, False], ["modifyElement", 2, "stmt_id", 2, False],
    ["renameColumn", "a", "k"], ["renameColumn", "k", "a"], ["renameColumn", "zz", "k"],
    ["append", F(["a", "b"], [[1, "x"]])], ["append", F(["b", "c"], [["", 1], [None, None]])],
    ["append", F([], [])],
    ["removeRows", "a", 1], ["removeRows", "b", ""], ["removeRows", "stmt_id", 2], ["removeRows", "zz", 1],
    ["removeRows", "a", None],
    ["resetIndex", False], ["resetIndex", True],
    ["fillna", 0], ["fillna", "x"], ["setColumns", ["p", "q"]], ["setColumns", ["b", "a"]],
    ["saveLoad", True],
]
WORLD = [
    ["swap"], ["appendOther"],
    ["enter", ["slice", 1, 3]], ["enter", ["clone"]], ["enter", ["queryTable", "a", 1]],
    ["enter", ["readBlock", 2, False]], ["enter", ["slowQueryEq", "a", 1, None, True]], ["enter", ["saveLoad", True]],
]
WIDE_Q = [q for q in QUERIES if q[0] in ("iter", "accessPos", "queryIdx", "queryFirst", "queryTable", "readBlock",
                                         "boundary", "column", "len", "getRows")]
CORE_Q = [["iter"], ["accessPos", 0], ["getRows"], ["queryIdx", "a", 1], ["queryIdx", "a", 2], ["queryIdx", "b", "x"],
          ["queryIdx", "stmt_id", 2], ["queryIdx", "k", 1], ["queryFirst", "a", 1], ["queryTable", "a", 1],
          ["readBlock", 2, False], ["boundary", [2, None, 3]]]


def ALPHA():
    return QUERIES + MUTATORS + WORLD


def main_tasks(tier, n_rand):
    """the main family as small task descriptors; each worker expands its own (nothing big is pickled)"""
    tasks = [("corpus",), ("short",)]
    tasks += [("len2", ti, part) for ti in range(4 if tier == "quick" else len(BASE_TABLES)) for part in range(3)]
    tasks += [("qmq", ti, "core", part) for ti in range(4) for part in range(3)]
    if tier == "thorough":
        tasks += [("qmq", ti, "wide", part) for ti in range(4) for part in range(3)]
        tasks += [("len3", 0, ai) for ai in range(len(ALPHA()))]
    per = 1000
    tasks += [("rand", c, min(per, n_rand - c * per)) for c in range((n_rand + per - 1) // per)]
    return tasks


def expand(task, seed):
    """task descriptor -> list of (ctor, ops)"""
    alpha = ALPHA()
    k = task[0]
    if k == "corpus":
        return [(j["ctor"], j["ops"]) for _, j in load_corpus()]
    if k == "short":
        return [(t, o) for t in BASE_TABLES + EXTRA_TABLES for o in [[]] + [[a] for a in alpha]]
    if k == "len2":
        t = BASE_TABLES[task[1]]
        return [(t, [a, b]) for i, a in enumerate(alpha) if i % 3 == task[2] for b in alpha]
    if k == "qmq":
        # query – mutate – query: the shape every cache-invalidation fault needs
        t = BASE_TABLES[task[1]]
        if task[2] == "core":
            return [(t, [q1, m, q2]) for i, q1 in enumerate(CORE_Q) if i % 3 == task[3] for m in MUTATORS for q2 in CORE_Q]
        return [(t, [q1, m, q2]) for i, q1 in enumerate(WIDE_Q) if i % 3 == task[3] for m in MUTATORS for q2 in WIDE_Q
                if not (q1 in CORE_Q and q2 in CORE_Q)]
    if k == "len3":
        t, a = BASE_TABLES[task[1]], alpha[task[2]]
        return [(t, [a, b, c]) for b in alpha for c in alpha
                if not (a in WIDE_Q and b in MUTATORS and c in WIDE_Q)]
    if k == "rand":
        import random
        rng = random.Random(f"C16:{seed}:{task[1]}")
        return [random_history(rng) for _ in range(task[2])]
    raise RuntimeError("task " + str(task))


def exhaustive(tier):
    for task in main_tasks(tier, 0):
        if task[0] != "corpus":
            for h in expand(task, 0):
                yield h


def rand_cell(rng, kind):
    if kind == "i":
        return rng.choice([0, 1, 2, 1, 2, None])
    if kind == "s":
        return rng.choice(["x", "y", "", "x", None])
    if kind == "id":
        return rng.choice([1, 2, 3, 2, 3, None])
    return rng.choice(VALS)


def rand_table(rng):
    ncols = rng.randint(1, 3)
    names = rng.sample(["a", "b", "stmt_id", "c"], ncols)
    kinds = {n: ("id" if n == "stmt_id" else rng.choice("ism" if n != "b" else "ssm")) for n in names}
    nrows = rng.choice([0, 1, 2, 3, 3, 4, 4, 5])
    rows = [[rand_cell(rng, kinds[n]) for n in names] for _ in range(nrows)]
    r = rng.random()
    if r < 0.45:
        return ["rows", names, rows, rng.random() < 0.2]
    if r < 0.65:
        ds = [[[n, v] for n, v in zip(names, row) if rng.random() < 0.8] for row in rows]
        return ["dicts", ds]
    if r < 0.9:
        labels = rng.sample(range(0, 9), nrows)
        return ["frame", F(names, rows, labels), rng.random() < 0.2]
    # load needs columns feather can store: one kind per column
    rows = [[rand_cell(rng, "i" if kinds[n] == "m" else kinds[n]) for n in names] for _ in range(nrows)]
    return ["load", F(names, rows)]


def rand_op(rng):
    col = lambda: rng.choice(["a", "b", "stmt_id", "c", "k", "a", "stmt_id"])
    val = lambda: rng.choice(VALS + [3])
    r = rng.random()
    if r < 0.45:      # queries
        k = rng.choice(["len", "isEmpty", "getRows", "iter", "toDicts", "accessPos", "accessPos", "accessList",
                        "accessLoc", "column", "queryIdx", "queryIdx", "queryIdx", "queryIdx", "queryTable",
                        "queryFirst", "queryFirst", "searchBlock", "readBlock", "readBlock", "readBlockWith",
                        "boundary", "slowQueryEq", "slowQueryIsin", "slowQueryLabels", "slice", "clone"])
        if k in ("len", "isEmpty", "getRows", "iter", "toDicts", "clone"):
            op = [k]
        elif k == "accessPos":
            op = [k, rng.randint(-1, 5)]
        elif k == "accessList":
            op = [k, [rng.randint(-1, 5) for _ in range(rng.randint(0, 3))]]
        elif k == "accessLoc":
            op = [k, rng.randint(0, 8), col()]
        elif k == "column":
            op = [k, col()]
        elif k in ("queryIdx", "queryTable", "queryFirst"):
            op = [k, col(), val()]
        elif k == "searchBlock":
            op = [k, rng.choice([1, 2, 3, None])]
        elif k in ("readBlock", "readBlockWith"):
            op = [k, rng.choice([1, 2, 3, 2, None]), rng.random() < 0.3]
        elif k == "boundary":
            op = [k, [rng.choice([1, 2, 3, None]) for _ in range(rng.randint(0, 3))]]
        elif k == "slowQueryEq":
            op = [k, col(), rng.choice([1, 2, "x", "", 0]), rng.choice([None, None, col()]), rng.random() < 0.7]
        elif k == "slowQueryIsin":
            op = [k, col(), rng.choice([[1, 2], [0], ["x", ""], ["y"], []]), rng.random() < 0.7]
        elif k == "slowQueryLabels":
            op = [k, [rng.randint(0, 5) for _ in range(rng.randint(0, 3))], rng.random() < 0.7]
        else:
            op = [k, rng.randint(-2, 5), rng.randint(-2, 6)]
        if k in ("queryTable", "readBlock", "readBlockWith", "slowQueryEq", "slowQueryIsin", "slowQueryLabels",
                 "slice", "clone") and rng.random() < 0.35 and not (k == "slowQueryEq" and op[3] is not None):
            return ["enter", op]
        return op
    if r < 0.93:      # mutations
        k = rng.choice(["modifyRow", "modifyRow", "modifyColumn", "modifyColumnList", "modifyElement",
                        "modifyElement", "modifyElement", "renameColumn", "append", "removeRows", "removeRows",
                        "resetIndex", "fillna", "setColumns", "saveLoad"])
        if k == "modifyRow":
            return [k, rng.randint(-2, 4), [val() for _ in range(rng.choice([1, 2, 2, 3, 3]))], None]
        if k == "modifyColumn":
            return [k, col(), val()]
        if k == "modifyColumnList":
            return [k, col(), [val() for _ in range(rng.randint(0, 5))]]
        if k == "modifyElement":
            return [k, rng.randint(0, 6), col(), val(), False]
        if k == "renameColumn":
            return [k, col(), rng.choice(["k", "c", "a", "stmt_id"])]
        if k == "append":
            names = rng.sample(["a", "b", "stmt_id", "c"], rng.randint(0, 3))
            return [k, F(names, [[val() for _ in names] for _ in range(rng.randint(0, 2) if names else 0)])]
        if k == "removeRows":
            return [k, col(), val()]
        if k == "resetIndex":
            return [k, rng.random() < 0.3]
        if k == "fillna":
            return [k, rng.choice([0, 1, "x", "y"])]
        if k == "setColumns":
            return [k, rng.sample(["a", "b", "stmt_id", "c", "k"], rng.randint(1, 3))]
        op = [k, True]
        return ["enter", op] if rng.random() < 0.4 else op
    return rng.choice([["swap"], ["swap"], ["appendOther"]])


def random_history(rng):
    return rand_table(rng), [rand_op(rng) for _ in range(rng.randint(4, 12))]


# =====================================================================================================
# evaluation
# =====================================================================================================

def model_runs(items, variant=None):
    reqs = [{"m": "table", "variant": variant or VARIANT, "ctor": c, "ops": o} for c, o in items]
    return [[r["init"], r["outs"]] for r in drv_ok(drv_batch(reqs))]


def first_diff(a, b):
    for i, (x, y) in enumerate(zip(a, b)):
        if x != y:
            return i
    return None if len(a) == len(b) else min(len(a), len(b))


def check_one(ctor, ops, scratch):
    """-> (resolved, real, oracle, violates)   real/oracle = [init, outs]"""
    res, rinit, routs = real_run(ctor, ops, scratch)
    oinit, oouts = oracle_run(ctor, res)
    return res, [rinit, routs], [oinit, oouts], (rinit != oinit or routs != oouts)


MUT_KINDS = {"modifyRow", "modifyColumn", "modifyColumnList", "modifyElement", "renameColumn", "append",
             "removeRows", "resetIndex", "fillna", "setColumns", "saveLoad", "appendOther"}


def process_chunk(args):
    """worker: run REAL, ORACLE and MODEL on a chunk of histories; return statistics and differences"""
    task, seed, scratch = args
    histories = expand(task, seed)
    warnings.simplefilter("ignore")
    devnull = open(os.devnull, "w")
    so, se = sys.stdout, sys.stderr
    stats = {"kinds": {task[0]: len(histories)}, "ops": {}, "errs": {}, "skipped_ops": 0, "refusals": 0, "entered": 0, "nontrivial_keys": set(),
             "q_m_q": 0}
    failing, breaks, resolved_all, real_all = [], [], [], []
    sys.stdout, sys.stderr = devnull, devnull
    try:
        for ctor, ops in histories:
            res, real, orc, viol = check_one(ctor, ops, scratch)
            resolved_all.append((ctor, res))
            real_all.append(real)
            stats["skipped_ops"] += len(ops) - len(res)
            seen_q = seen_qm = mutated = nontriv = False
            for wop, (out, _) in zip(res, real[1]):
                op = wop[1] if wop[0] == "enter" else wop
                k = op[0]
                stats["ops"][k] = stats["ops"].get(k, 0) + 1
                if out[0] == "err":
                    stats["errs"][out[1][:12]] = stats["errs"].get(out[1][:12], 0) + 1
                if (k == "modifyRow" and op[3] is not None) or (k == "modifyElement" and op[4]):
                    stats["refusals"] += 1
                if wop[0] == "enter" and out[0] == "frame":
                    stats["entered"] += 1
                if k in MUT_KINDS:
                    if out[0] != "err" or k in ("modifyRow", "modifyElement"):
                        mutated = True
                        if seen_q:
                            seen_qm = True
                elif k != "swap":
                    seen_q = True
                    if mutated and out[0] not in ("err", "none", "empty") and out[1] not in ([], 0, False):
                        nontriv = True
                    if seen_qm and k in ("queryIdx", "queryTable", "queryFirst", "readBlock", "readBlockWith",
                                         "searchBlock", "boundary", "iter", "accessPos", "accessList", "getRows"):
                        stats["q_m_q"] += 1
                        seen_qm = False
            if nontriv:
                stats["nontrivial_keys"].add(hashlib.blake2b(json.dumps([ctor, res]).encode(), digest_size=8).digest())
            if viol and len(failing) < 20:
                failing.append((ctor, ops, res, real, orc))
            elif viol:
                failing.append(None)
    finally:
        sys.stdout, sys.stderr = so, se
        devnull.close()
    models = model_runs(resolved_all) if MODEL_OK else real_all
    for (ctor, res), real, m in zip(resolved_all, real_all, models):
        if real != m:
            breaks.append((ctor, res, real, m) if len(breaks) < 20 else None)
    stats["n"] = len(histories)
    return stats, failing, breaks


def merge(acc, st):
    for k, v in st.items():
        if isinstance(v, dict):
            d = acc.setdefault(k, {})
            for a, b in v.items():
                d[a] = d.get(a, 0) + b
        elif isinstance(v, set):
            acc.setdefault(k, set()).update(v)
        else:
            acc[k] = acc.get(k, 0) + v


def quiet(f, *a):
    so, se = sys.stdout, sys.stderr
    dn = open(os.devnull, "w")
    sys.stdout = sys.stderr = dn
    try:
        return f(*a)
    finally:
        sys.stdout, sys.stderr = so, se
        dn.close()


def shrink(ctor, ops, scratch):
    fails = lambda c, o: quiet(check_one, c, o, scratch)[3]
    ops = common.shrink_list(ops, lambda cand: fails(ctor, cand))
    # then the table: drop rows
    key = {"rows": 2, "dicts": 1}.get(ctor[0])
    if key is not None:
        rows = common.shrink_list(ctor[key], lambda cand: fails(ctor[:key] + [cand] + ctor[key + 1:], ops))
        ctor = ctor[:key] + [rows] + ctor[key + 1:]
    return ctor, ops


# =====================================================================================================
# DataModel(other_model): two wrappers over one DataFrame object (open finding C16/alias-shared-dataframe)
# =====================================================================================================

INPLACE = {"modifyRow", "modifyColumn", "modifyColumnList", "modifyElement", "renameColumn", "resetIndex", "fillna",
           "setColumns"}
REBIND = {"append", "removeRows"}


class Truncate(Exception):
    pass


def mixed(dm):
    """`DataFrame.values` has to build a new array (so `_rows` is a snapshot) iff the dtypes differ"""
    return len(set(str(d) for d in dm._data.dtypes)) >= 2


def alias_real(ctor, pre, ops, scratch):
    """-> (resolved pre, resolved ops, outs) ; ops = [[who, op], …].  The history is cut where a frame stops being
    mixed-dtype (then `.values` may be a live view and the stale rows cache is not a snapshot any more)."""
    w = RealWorld(ctor, scratch)
    rpre = []
    for op in pre:
        try:
            r, _ = w.exec(op)
            rpre.append(r)
        except Skip:
            pass
    a = w.cur
    if not mixed(a):
        return rpre, [], []
    b = w.DataModel(a)
    res, outs = [], []
    for who, op in ops:
        w.cur = b if who else a
        try:
            r, out = w.exec(op)
        except Skip:
            continue
        a, b = (a, w.cur) if who else (w.cur, b)
        res.append([who, r])
        outs.append([out, dump(w.cur)])
        if not (mixed(a) and mixed(b)):
            break
    return rpre, res, outs


def alias_oracle(ctor, rpre, res):
    """both wrappers answer from the frame object their `_data` refers to; -> (outs, info per op)"""
    _, _ = oracle_run(ctor, [])             # validates the constructor
    # rebuild the table after `pre`
    cur = _oracle_table(ctor)
    for op in rpre:
        try:
            oracle_step(cur, op)
        except OErr:
            pass
    tabs = {False: cur, True: cur}
    outs, info = [], []
    for who, op in res:
        t = tabs[who]
        shared = tabs[False] is tabs[True]
        before = json.dumps(t.frame())
        if op[0] in REBIND:
            t2 = t.copy()
            try:
                out, _ = oracle_step(t2, op)
                tabs[who] = t2
            except OErr as e:
                out = ["err", e.kind]
        else:
            try:
                out, _ = oracle_step(t, op)
            except OErr as e:
                out = ["err", e.kind]
        t = tabs[who]
        info.append({"who": who, "shared": shared, "kind": op[0],
                     "inplace_change": op[0] in INPLACE and json.dumps(t.frame()) != before})
        outs.append([out, t.frame()])
    return outs, info


def _oracle_table(ctor):
    k = ctor[0]
    if k == "rows":
        return OTable.of_matrix(ctor[1], range(len(ctor[2])), ctor[2])
    if k == "dicts":
        cols = []
        for d in ctor[1]:
            for a, _ in d:
                if a not in cols:
                    cols.append(a)
        return OTable(cols, range(len(ctor[1])), [dict((a, b) for a, b in d) for d in ctor[1]])
    f = ctor[1]
    t = OTable.of_matrix(f["cols"], f["labels"], f["rows"])
    if k == "frame" and ctor[2]:
        t.renumber()
    return t


def alias_known(real, orc, model, info):
    """The open finding, model-predicted and narrow: (1) the real answers are exactly those of the Lean two-wrapper
    model of the code as it is; (2) the first answer that differs from the scan comes from a wrapper X, and before it
    the *other* wrapper changed, in place, the frame object X was sharing with it."""
    if real != model:
        return False
    i = first_diff(real, orc)
    if i is None or i >= len(info):
        return False
    x = info[i]["who"]
    return any(info[j]["who"] != x and info[j]["shared"] and info[j]["inplace_change"] for j in range(i))


ALIAS_TABLES = [
    ["rows", ["a", "b"], [[1, "x"], [2, "y"], [1, "z"]], False],
    ["rows", ["stmt_id", "b"], [[1, "d"], [2, ""], [3, None], [2, "e"]], False],
]
ALIAS_PRE = [[], [["iter"]], [["queryIdx", "a", 1]], [["iter"], ["queryIdx", "stmt_id", 2], ["queryIdx", "a", 1]]]
ALIAS_OPS = [["iter"], ["accessPos", 0], ["len"], ["queryIdx", "a", 1], ["queryIdx", "a", 5], ["queryIdx", "stmt_id", 2],
             ["queryFirst", "a", 1], ["readBlock", 2, False],
             ["modifyElement", 0, "a", 5, False], ["modifyElement", 7, "b", "w", False], ["modifyRow", 1, [5, "w"], None],
             ["removeRows", "a", 1], ["removeRows", "stmt_id", 2], ["append", F(["a", "b"], [[1, "w"]])],
             ["renameColumn", "a", "k"], ["resetIndex", False], ["modifyColumn", "b", "v"]]


def alias_histories(tier, rng):
    for _, j in load_corpus(alias=True):
        yield j["ctor"], j["pre"], j["ops"]
    both = [[w, o] for w in (False, True) for o in ALIAS_OPS]
    for ti, t in enumerate(ALIAS_TABLES):
        for pre in (ALIAS_PRE if tier == "thorough" or ti == 0 else ALIAS_PRE[3:]):
            for x in both:
                yield t, pre, [x]
                for y in both:
                    yield t, pre, [x, y]
                    if x[1][0] in INPLACE | REBIND and y[1][0] not in INPLACE | REBIND:
                        for q in ([False, ["queryIdx", "a", 1]], [True, ["queryIdx", "a", 1]], [False, ["iter"]], [True, ["iter"]]):
                            yield t, pre, [q, x, y]
    for _ in range(600 if tier == "quick" else 20000):
        t = rand_table(rng)
        if t[0] == "load":
            continue
        pre = [o for o in (rand_op(rng) for _ in range(rng.randint(0, 3))) if o[0] not in ("enter", "swap", "appendOther")]
        ops = []
        for _ in range(rng.randint(2, 9)):
            o = rand_op(rng)
            if o[0] == "enter":
                o = o[1]
            if o[0] in ("swap", "appendOther", "saveLoad"):
                continue
            ops.append([rng.random() < 0.5, o])
        yield t, pre, ops


def alias_models(items, variant=None):
    reqs = [{"m": "tablealias", "variant": variant or VARIANT, "ctor": c, "pre": p, "ops": o} for c, p, o in items]
    return drv_ok(drv_batch(reqs))


def alias_chunk(args):
    hs, scratch = args
    warnings.simplefilter("ignore")
    devnull = open(os.devnull, "w")
    so, se = sys.stdout, sys.stderr
    sys.stdout = sys.stderr = devnull
    rows = []
    try:
        for ctor, pre, ops in hs:
            rpre, res, outs = alias_real(ctor, pre, ops, scratch)
            oouts, info = alias_oracle(ctor, rpre, res)
            rows.append((ctor, pre, ops, rpre, res, outs, oouts, info))
    finally:
        sys.stdout, sys.stderr = so, se
        devnull.close()
    models = alias_models([(r[0], r[3], r[4]) for r in rows])
    st = {"n": len(rows), "ops": sum(len(r[4]) for r in rows), "agree": 0, "known": 0, "query_only_agree": 0}
    bad, breaks, known_example = [], [], None
    for (ctor, pre, ops, rpre, res, outs, oouts, info), m in zip(rows, models):
        if outs == oouts:
            st["agree"] += 1
            if res and all(o[0] not in INPLACE | REBIND for _, o in res):
                st["query_only_agree"] += 1
            if outs != m and len(breaks) < 5:
                breaks.append((ctor, rpre, res, outs, m))
        elif alias_known(outs, oouts, m, info):
            st["known"] += 1
            if known_example is None or len(res) < len(known_example[2]):
                known_example = (ctor, rpre, res)
        elif len(bad) < 5:
            bad.append((ctor, pre, ops, rpre, res, outs, oouts, m))
    return st, bad, breaks, known_example


MONITOR_PROGRAM = """import os
class A:
    k = 1
    def f(self, x):
        y = x + self.k
        if y > 2:
            return os.getenv("K")
        return y
def g(a):
    b = A()
    for i in range(a):
        a = b.f(i)
    return a
g(3)
"""


def production_alias_monitor(scratch, q):
    """child process: one end-to-end lian run with DataModel instrumented from the outside — does production code
    ever build a DataModel from a DataModel, and does it then change the shared frame in place?"""
    try:
        import builtins
        builtins.profile = lambda f: f
        from lian.util import data_model
        DM = data_model.DataModel
        stats = {"constructed": 0, "from_datamodel": 0, "inplace_mutation_of_shared_frame": 0, "mutator_calls": 0}
        shared = set()
        keep = []
        init0 = DM.__init__

        def init(self, data=None, *a, **k):
            stats["constructed"] += 1
            if isinstance(data, DM):
                stats["from_datamodel"] += 1
                shared.add(id(data._data))
                keep.append(data._data)
            return init0(self, data, *a, **k)
        DM.__init__ = init
        for name in ("modify_row", "modify_column", "modify_element", "rename_column", "fillna", "set_columns"):
            def wrap(orig):
                def f(self, *a, **k):
                    stats["mutator_calls"] += 1
                    if id(self._data) in shared:
                        stats["inplace_mutation_of_shared_frame"] += 1
                    return orig(self, *a, **k)
                return f
            setattr(DM, name, wrap(getattr(DM, name)))
        d = os.path.join(scratch, "monitor")
        os.makedirs(d, exist_ok=True)
        src = os.path.join(d, "prog.py")
        open(src, "w").write(MONITOR_PROGRAM)
        sys.argv = ["lian", "run", "-l", "python", "-w", os.path.join(d, "ws"), "-f", "-q", src]
        devnull = open(os.devnull, "w")
        sys.stdout = sys.stderr = devnull
        try:
            from lian.main import Lian
            Lian().run()
            stats["run"] = "completed"
        except SystemExit as e:
            stats["run"] = f"exit {e.code}"
        except BaseException as e:
            stats["run"] = f"{type(e).__name__}: {str(e)[:100]}"
        q.put(stats)
    except BaseException as e:
        q.put({"run": f"monitor failed: {type(e).__name__}: {str(e)[:200]}"})


# =====================================================================================================
# GIRBlockViewer: block queries against a scan
# =====================================================================================================

def viewer_case(stmts, scratch):
    """stmts: list of (operation, stmt_id).  Returns list of differences between GIRBlockViewer /
    DataModel.read_block and a scan of the rows."""
    from lian.util.data_model import DataModel
    from lian.util.gir_block import GIRBlockViewer
    dm = DataModel([{"operation": o, "stmt_id": i, "parent_stmt_id": 0} for o, i in stmts])
    # scan-based expectation of the constructor
    stack, seen, expect_err = [], {}, None
    for pos, (o, i) in enumerate(stmts):
        if i in seen and not (stmts[seen[i]][0] == "block_start" and o == "block_end"):
            expect_err = "dup"
            break
        seen.setdefault(i, pos)
        if o == "block_start":
            stack.append(i)
        elif o == "block_end":
            if not stack or stack[-1] != i:
                expect_err = "nest"
                break
            stack.pop()
    if expect_err is None and stack:
        expect_err = "unclosed"
    diffs = []
    try:
        v = GIRBlockViewer(dm)
        err = None
    except RuntimeError as e:
        v, err = None, str(e)
    if (err is None) != (expect_err is None):
        return [["ctor", expect_err, err]]
    if v is None:
        return []
    ids = sorted({i for _, i in stmts} | {99})
    if [s.stmt_id for s in v] != [i for _, i in stmts] or len(v) != len(stmts):
        diffs.append(["iter", [s.stmt_id for s in v]])
    for bid in ids:
        pos = [p for p, (_, i) in enumerate(stmts) if i == bid]
        is_block = len(pos) == 2 and stmts[pos[0]][0] == "block_start" and stmts[pos[1]][0] == "block_end"
        want = [stmts[p][1] for p in range(pos[0] + 1, pos[1])] if is_block else None
        sub = v.read_block(bid)
        got = None if sub is None else [int(s.stmt_id) for s in sub]
        if got != want:
            diffs.append(["read_block", bid, want, got])
        if v.get_block_stmt_ids(bid) != (want or []):
            diffs.append(["get_block_stmt_ids", bid, want, v.get_block_stmt_ids(bid)])
        if is_block:
            # the table's own block query must agree with the viewer's
            tb = dm.read_block(bid)
            tgot = [int(r.stmt_id) for r in tb] if not isinstance(tb, list) else []
            if tgot != want:
                diffs.append(["DataModel.read_block", bid, want, tgot])
            if v.boundary_of_multi_blocks([bid, 99]) != pos[1] or dm.boundary_of_multi_blocks([bid, 99]) != pos[1]:
                diffs.append(["boundary", bid, pos[1]])
            # nested access control: a block is visible from a sub-viewer iff strictly inside it
            for outer in ids:
                op_ = [p for p, (_, i) in enumerate(stmts) if i == outer]
                if len(op_) == 2 and stmts[op_[0]][0] == "block_start":
                    inner = v.read_block(outer).read_block(bid)
                    vis = op_[0] < pos[0] and pos[1] < op_[1]
                    if (inner is not None) != vis:
                        diffs.append(["nested", outer, bid, vis])
        st = v.get_stmt_by_id(bid)
        if (st is None) != (len(pos) == 0) or (st is not None and st.get_index() != pos[0]):
            diffs.append(["get_stmt_by_id", bid])
    return diffs


VERR = {"duplicate stmt_id detected": "dup", "block_end without block_start": "noStart",
        "block nesting mismatch": "mismatch", "unclosed block detected": "unclosed"}
VKIND = {"block_start": "s", "block_end": "e"}


def viewer_observe(stmts):
    """the real GIRBlockViewer's constructor verdict and block geometry, in the shape of the Lean model's reply"""
    from lian.util.data_model import DataModel
    from lian.util.gir_block import GIRBlockViewer
    dm = DataModel([{"operation": o, "stmt_id": i, "parent_stmt_id": 0} for o, i in stmts])
    ids = sorted({i for _, i in stmts} | {99})
    try:
        v = GIRBlockViewer(dm)
    except RuntimeError as e:
        return {"err": VERR.get(str(e), "other:" + str(e))}, ids, []
    ranges = sorted([int(k), r.start, r.end] for k, r in v._block_id_to_range.items())
    views = [[-1, len(v._stmt_collection)]] + [[p, q] for _, p, q in ranges]
    read = []
    for lo, hi in views:
        view = v if lo == -1 else v.read_block([k for k, p, q in ranges if (p, q) == (lo, hi)][0])
        row = []
        for i in ids:
            sub = None if view is None else view.read_block(i)
            row.append(None if sub is None else [sub.get_range().start, sub.get_range().end])
        read.append(row)
    return {"n": len(v._stmt_collection), "first": [[int(k), x] for k, x in v._stmt_id_to_index.items()],
            "ranges": ranges, "read": read}, ids, views


# =====================================================================================================
# GIRBlockViewer as objects: histories of constructions and append_other, every public method probed
# =====================================================================================================

VBASE = [
    [("d", 1), ("block_start", 2), ("d", 3), ("block_start", 4), ("x", 5), ("block_end", 4), ("block_end", 2), ("d", 6),
     ("block_start", 7), ("block_end", 7)],
    [("block_start", 11), ("d", 12), ("block_end", 11), ("block_start", 13), ("x", 14), ("block_end", 13)],
    [("d", 21)],
    [],
]
VOPCODE = {"block_start": 0, "block_end": 1, "d": 2, "x": 3}
VCODES = [0, 1, 2, 3, 9]
VCODE_NAME = {0: "block_start", 1: "block_end", 2: "d", 3: "x", 9: "zz"}
VIDS = sorted({i for b in VBASE for _, i in b}) + [99, None]
VKS = list(range(-3, 15))


def v_block_positions(stmts, bid):
    """scan: the two positions of a block id (start, end) or None"""
    if bid is None:
        return None
    pos = [p for p, (_, i) in enumerate(stmts) if i == bid]
    if len(pos) == 2 and stmts[pos[0]][0] == "block_start" and stmts[pos[1]][0] == "block_end":
        return pos
    return None


def v_ctor_error(stmts):
    """scan-based verdict of the constructor on a list of (operation, id)"""
    stack, seen = [], {}
    for pos, (o, i) in enumerate(stmts):
        if i in seen and not (stmts[seen[i]][0] == "block_start" and o == "block_end"):
            return "dup"
        seen.setdefault(i, pos)
        if o == "block_start":
            stack.append(i)
        elif o == "block_end":
            if not stack:
                return "noStart"
            if stack.pop() != i:
                return "mismatch"
    return "unclosed" if stack else None


class OViewer:
    """a viewer by scan: a list of statements (dicts uid/op/id/label) and a window (lo, hi)"""
    def __init__(self, coll, lo, hi):
        self.coll, self.lo, self.hi = coll, lo, hi

    def visible(self):
        return self.coll[max(self.lo + 1, 0):max(self.hi, 0)]

    def pairs(self):
        return [(s["op"], s["id"]) for s in self.coll]

    def first(self, i):
        for p, s in enumerate(self.coll):
            if s["id"] == i:
                return p
        return None

    def inr(self, k):
        return self.lo < k < self.hi

    def battery(self, universe):
        vis = self.visible()
        n = len(vis)
        P = self.pairs()
        def block(i):
            return v_block_positions(P, i)
        def getitem(k):
            j = k + n if k < 0 else k
            return "IndexError" if j < 0 or j >= n else vis[j]["uid"]
        def boundary(ids):
            m = -1
            for i in ids:
                b = block(i)
                if b and b[1] > m:
                    m = b[1]
            return m
        def by_id(i):
            f = self.first(i)
            return self.coll[f]["uid"] if f is not None and self.inr(f) else None
        def read(i):
            b = block(i)
            return [b[0], b[1]] if b and self.lo < b[0] and b[1] < self.hi else None
        return [
            n, [s["uid"] for s in vis], [self.lo, self.hi], [n, self.lo + 1, self.hi],
            list(range(self.lo + 1, self.hi)),
            [getitem(k) for k in VKS],
            [s["uid"] for s in vis[1:3]], [s["uid"] for s in vis[-2:99]],
            [by_id(i) == u for u, i in universe],
            [self.inr(k) for k in VKS],
            [i is not None and self.first(i) is not None and self.inr(self.first(i)) for i in VIDS],
            sorted({s["id"] for s in vis}),
            [read(i) for i in VIDS],
            [[s["id"] for s in self.coll[block(i)[0] + 1:block(i)[1]]] if block(i) else [] for i in VIDS],
            [by_id(i) if i is not None else None for i in VIDS],
            [self.coll[k]["uid"] if self.inr(k) else None for k in VKS],
            [[s["uid"] for s in vis if VOPCODE[s["op"]] == c] for c in VCODES],
            [[s["uid"] for s in vis if i is not None and s["id"] == i] for i in VIDS],
            [[s["uid"] for s in vis if VOPCODE[s["op"]] == c] for c in VCODES],
            [s["uid"] for s in vis], [],
            [boundary([i]) for i in VIDS], boundary(VIDS), boundary([]),
        ]


def real_battery(v, uid_of, universe_rows):
    """the same battery through the public methods of the real GIRBlockViewer"""
    def U(s):
        return None if s is None else uid_of.get(id(s), -1)
    def safe(f):
        try:
            return f()
        except IndexError:
            return "IndexError"
        except Exception as e:                     # any other exception is an answer that will not match
            return "EXC:" + type(e).__name__
    r = v.get_range()

    def rng():
        # string renderings: header line of the viewer, one line per visible statement, BlockRange
        text = repr(v).split("\n")
        ok = (text[0] == f"<GIRBlockViewer range=BlockRange({r.start}, {r.end}) size={len(v)}>" and len(text) == len(v) + 2
              and repr(r) == f"BlockRange({r.start}, {r.end})")
        return [r.start, r.end] if ok else "repr-differs"
    return [
        safe(lambda: len(v)), safe(lambda: [U(s) for s in v]), safe(rng),
        safe(lambda: [r.size(), r.get_real_start_index(), r.get_end_index()]),
        safe(lambda: list(r.iter_indices())),
        [safe(lambda k=k: U(v[k])) for k in VKS],
        safe(lambda: [U(s) for s in v[1:3]]), safe(lambda: [U(s) for s in v[-2:99]]),
        [safe(lambda row=row: row in v) for row in universe_rows],
        [safe(lambda k=k: v.contains_index_pos(k) and r.contains_index(k)) for k in VKS],
        [safe(lambda i=i: v.contains_stmt_id(i)) for i in VIDS],
        safe(lambda: [int(x) for x in v.get_all_stmt_ids()]),
        [safe(lambda i=i: (lambda b: None if b is None else
                           ([b.get_range().start, b.get_range().end] if r.contains_range(b.get_range()) else "not-contained"))
              (v.read_block(i))) for i in VIDS],
        [safe(lambda i=i: [int(x) for x in v.get_block_stmt_ids(i)]) for i in VIDS],
        [safe(lambda i=i: U(v.get_stmt_by_id(i))) for i in VIDS],
        [safe(lambda k=k: U(v.get_stmt_by_pos(k))) for k in VKS],
        [safe(lambda c=c: [U(s) for s in v.query_operation(VCODE_NAME[c])]) for c in VCODES],
        [safe(lambda i=i: [U(s) for s in v.query_field("stmt_id", i)]) for i in VIDS],
        [safe(lambda c=c: [U(s) for s in v.query_field("operation", VCODE_NAME[c])]) for c in VCODES],
        safe(lambda: [U(s) for s in v.query_field("no_such_field", None)]),
        safe(lambda: [U(s) for s in v.query_field("no_such_field", "v")]),
        [safe(lambda i=i: int(v.boundary_of_multi_blocks([i]))) for i in VIDS],
        safe(lambda: int(v.boundary_of_multi_blocks(list(VIDS)))), safe(lambda: int(v.boundary_of_multi_blocks([]))),
    ]


def row_helpers_ok(row, d):
    """the Row helpers the block queries hand out: attribute access, to_dict, get_index, raw_data, len, in, iter,
    copy/clone, ==, hash, get_whole_str"""
    want = {"operation": d["op"], "stmt_id": d["id"], "parent_stmt_id": 0}
    try:
        got = {k: canon(x) for k, x in row.to_dict().items()}
        c1, c2 = row.copy(), row.clone()
        return (got == want and row.operation == d["op"] and int(row.stmt_id) == d["id"] and int(row.get_index()) == d["label"]
                and [canon(x) for x in row.raw_data()] == [d["op"], d["id"], 0] and len(row) == 3
                and "stmt_id" in row and "nope" not in row and [canon(x) for x in row] == [d["op"], d["id"], 0]
                and row.no_such_attr is None and c1 == row and c2 == row and hash(c1) == hash(row) and c1 is not row
                and row != 5 and row.get_whole_str() == str(row.to_dict()) and repr(row).startswith("Row("))
    except Exception:
        return False


def viewer_world(ops):
    """run one viewer history on REAL and ORACLE; -> (resolved ops for the model, real outs, oracle outs, universe)"""
    from lian.util.data_model import DataModel
    from lian.util.gir_block import GIRBlockViewer
    rslots, oslots = [], []
    uid_of, rows, universe = {}, [], []           # id(Row) -> uid ; Row objects kept alive ; [(uid, stmt id)]
    res, routs, oouts = [], [], []
    dms = {}

    def dm_of(k):
        if k not in dms:
            dms[k] = DataModel([{"operation": o, "stmt_id": i, "parent_stmt_id": 0} for o, i in VBASE[k]])
        return dms[k]

    for op in ops:
        k = op[0]
        if k == "probe":
            res.append(["probe"])
            routs.append(["probe", [real_battery(v, uid_of, rows) for v in rslots]])
            oouts.append(["probe", [v.battery(universe) for v in oslots]])
            continue
        if k in ("newroot", "newlist", "newblock"):
            base = VBASE[op[1]]
            if k == "newblock":
                b = v_block_positions(base, op[2])
                picked = [] if b is None else list(range(b[0] + 1, b[1]))
                if op[2] is not None and b is None:
                    raise RuntimeError("generator: newblock needs a block id or None")
            else:
                picked = list(range(len(base)))
            desc = [{"uid": len(universe) + n, "op": base[p][0], "id": base[p][1], "label": p} for n, p in enumerate(picked)]
            res.append(["new", [[VKIND.get(d["op"], "o"), d["id"], d["uid"], max(VOPCODE[d["op"]] - 2, 0), d["label"]]
                                for d in desc]])
            err = v_ctor_error([(d["op"], d["id"]) for d in desc])
            try:
                if k == "newroot":
                    rv = GIRBlockViewer(dm_of(op[1]))
                elif k == "newlist":
                    rv = GIRBlockViewer(list(dm_of(op[1])))
                else:
                    rv = GIRBlockViewer(dm_of(op[1]).read_block(op[2]))
                rout = ["ok"]
                coll = rv._stmt_collection
                if len(coll) != len(desc) or not all(row_helpers_ok(r, d) for r, d in zip(coll, desc)):
                    rout = ["ok", "rows-differ", [(str(r.operation), canon(r.stmt_id), canon(r.get_index())) for r in coll]]
                for r, d in zip(coll, desc):
                    uid_of[id(r)] = d["uid"]
                    rows.append(r)
                rslots.append(rv)
            except RuntimeError as e:
                rout = ["err", VERR.get(str(e), "other:" + str(e))]
            universe += [(d["uid"], d["id"]) for d in desc] if err is None else []
            if err is None:
                oslots.append(OViewer(desc, -1, len(desc)))
                oouts.append(["ok"])
            else:
                oouts.append(["err", err])
            routs.append(rout)
            continue
        res.append(list(op))
        if k == "empty":
            rslots.append(GIRBlockViewer())
            oslots.append(OViewer([], -1, 0))
            routs.append(["ok"]); oouts.append(["ok"])
        elif k == "copy":
            if op[1] >= len(oslots):
                routs.append(["badslot"]); oouts.append(["badslot"]); continue
            rslots.append(GIRBlockViewer(rslots[op[1]]))
            o = oslots[op[1]]
            oslots.append(OViewer([], -1, 0) if not o.visible() else OViewer(o.coll, o.lo, o.hi))
            routs.append(["ok"]); oouts.append(["ok"])
        elif k == "read":
            if op[1] >= len(oslots):
                routs.append(["badslot"]); oouts.append(["badslot"]); continue
            rb = rslots[op[1]].read_block(op[2])
            o = oslots[op[1]]
            b = v_block_positions(o.pairs(), op[2])
            ob = OViewer(o.coll, b[0], b[1]) if b and o.lo < b[0] and b[1] < o.hi else None
            if rb is not None:
                rslots.append(rb)
            if ob is not None:
                oslots.append(ob)
            routs.append(["ok"] if rb is not None else ["none"])
            oouts.append(["ok"] if ob is not None else ["none"])
            if (rb is None) != (ob is None):
                break                                   # slots are out of step: stop here, the outs already differ
        elif k == "append":
            if op[1] >= len(oslots) or op[2] >= len(oslots):
                routs.append(["badslot"]); oouts.append(["badslot"]); continue
            try:
                ret = rslots[op[1]].append_other(rslots[op[2]])
                routs.append(["ok"] if ret is rslots[op[1]] else ["ok", "returned-another-object"])
            except RuntimeError as e:
                routs.append(["err", VERR.get(str(e), "other:" + str(e))])
            a, b = oslots[op[1]], oslots[op[2]]
            comb = a.visible() + b.visible()
            err = v_ctor_error([(s["op"], s["id"]) for s in comb])
            if err is None:                              # "a brand new viewer over the concatenation"
                a.coll, a.lo, a.hi = comb, -1, len(comb)
                oouts.append(["ok"])
            else:                                        # refused: the receiver is what it was
                oouts.append(["err", err])
        else:
            raise RuntimeError("viewer op " + str(op))
    # `in` was asked for the Row objects that existed at the time; objects created later were not contained
    for outs in (routs, oouts):
        for o in outs:
            if o[0] == "probe":
                for b in o[1]:
                    b[8] = b[8] + [False] * (len(universe) - len(b[8]))
    return res, routs, oouts, universe


def viewer_specs():
    """how to obtain a viewer: list of ops relative to the current number of slots, result = last slot created"""
    sp = []
    for k in range(len(VBASE)):
        sp.append(("root%d" % k, [["newroot", k]]))
    sp.append(("list0", [["newlist", 0]]))
    sp.append(("empty", [["empty"]]))
    for bid in (2, 4, 7, None):
        sp.append(("blockdm0_%s" % bid, [["newblock", 0, bid]]))
    sp.append(("blockdm1_13", [["newblock", 1, 13]]))
    for path in ([2], [4], [7], [2, 4]):
        sp.append(("view0_%s" % path, [["newroot", 0]] + [["read", "prev", b] for b in path]))
    for bid in (11, 13):
        sp.append(("view1_%d" % bid, [["newroot", 1], ["read", "prev", bid]]))
    sp.append(("copyroot0", [["newroot", 0], ["copy", "prev"]]))
    sp.append(("copyview0_2", [["newroot", 0], ["read", "prev", 2], ["copy", "prev"]]))
    sp.append(("copyview0_7", [["newroot", 0], ["read", "prev", 7], ["copy", "prev"]]))
    return sp


def v_instantiate(spec_ops, nslots):
    """-> (ops, nslots afterwards); 'prev' = the slot created by the previous op of the spec"""
    ops = []
    for o in spec_ops:
        o = [nslots - 1 if x == "prev" else x for x in o]
        ops.append(o)
        nslots += 1
    return ops, nslots


def viewer_histories(tier, rng):
    specs = viewer_specs()
    for name, so in specs:                                   # construction alone
        ops, n = v_instantiate(so, 0)
        yield ops + [["probe"]]
    seconds = [None, [["empty"]], [["newroot", 2]], [["newroot", 1], ["read", "prev", 13]]]
    for rn, rs in specs:
        rops, n1 = v_instantiate(rs, 0)
        r = n1 - 1
        yield rops + [["append", r, r], ["probe"]]          # a viewer appended to itself
        for on, os_ in specs:
            oops, n2 = v_instantiate(os_, n1)
            o = n2 - 1
            variants = [(oops, o)]
            # operand taken from the receiver's own root (shared statement collection) when both come from base 0
            if rs[0] == ["newroot", 0] and os_[0] == ["newroot", 0] and len(os_) > 1:
                shared, n3 = v_instantiate([x if i else None for i, x in enumerate(os_)][1:], n1)
                shared = [[0 if (x == n1 - 1 and j == 0) else x for x in op_] for j, op_ in enumerate(shared)]
                variants.append((shared, n3 - 1))
            for vo, oslot in variants:
                base = rops + vo + [["append", r, oslot], ["probe"]]
                for sec in (seconds if tier == "thorough" or on in ("empty", "root3", "view0_[7]", "blockdm0_None", "root2")
                            else seconds[:2]):
                    if sec is None:
                        yield base
                    else:
                        sops, n4 = v_instantiate(sec, max(n2, oslot + 1) if vo is oops else n3)
                        yield base + sops + [["append", r, n4 - 1], ["probe"]]
                # the operand as receiver of the receiver (order matters)
    for _ in range(300 if tier == "quick" else 6000):
        ops, n = [], 0
        for _ in range(rng.randint(3, 9)):
            c = rng.random()
            if n == 0 or c < 0.25:
                kind = rng.choice(["newroot", "newroot", "newlist", "newblock", "empty"])
                if kind == "empty":
                    ops.append(["empty"])
                elif kind == "newblock":
                    k = rng.choice([0, 0, 1])
                    ops.append(["newblock", k, rng.choice([2, 4, 7, None] if k == 0 else [11, 13, None])])
                else:
                    ops.append([kind, rng.randrange(len(VBASE))])
                n += 1
            elif c < 0.5:
                ops.append(["read", rng.randrange(n), rng.choice([2, 4, 7, 11, 13, 2, 4, 99, None])])
                n += 1                                   # may not create a slot; later indices are then refused (badslot)
            elif c < 0.6:
                ops.append(["copy", rng.randrange(n)])
                n += 1
            else:
                ops.append(["append", rng.randrange(n), rng.randrange(n)])
                ops.append(["probe"])
        yield ops + [["probe"]]


def viewer_world_chunk(hs):
    warnings.simplefilter("ignore")
    so, se = sys.stdout, sys.stderr
    dn = open(os.devnull, "w")
    sys.stdout = sys.stderr = dn
    rows = []
    try:
        for ops in hs:
            rows.append((ops,) + viewer_world(ops))
    finally:
        sys.stdout, sys.stderr = so, se
        dn.close()
    st = {"n": len(rows), "ops": {}, "append_outcomes": {}, "probes": 0, "receiver_kinds": {}}
    bad, breaks = [], []
    models = None
    if MODEL_OK:
        reqs = [{"m": "blockworld", "atomic": VARIANT != "pinned", "ops": res, "ids": VIDS, "ks": VKS, "codes": VCODES,
                 "universe": [list(u) for u in uni]} for _, res, _, _, uni in rows]
        models = drv_ok(drv_batch(reqs))
    for n, (ops, res, routs, oouts, uni) in enumerate(rows):
        for op, out in zip(ops, routs):
            st["ops"][op[0]] = st["ops"].get(op[0], 0) + 1
            if op[0] == "append":
                key = out[0] if out[0] != "err" else "err:" + out[1]
                st["append_outcomes"][key] = st["append_outcomes"].get(key, 0) + 1
            if op[0] == "probe":
                st["probes"] += len(out[1])
        if routs != oouts:
            if len(bad) < 5:
                bad.append((ops, routs, oouts))
        elif models is not None and [list(x) if isinstance(x, list) else x for x in models[n]] != routs:
            if len(breaks) < 5:
                breaks.append((ops, routs, models[n]))
    return st, bad, breaks


def load_viewer_corpus():
    d = os.path.join(common.VERIF, "corpus", "C16")
    out = []
    if os.path.isdir(d):
        for f in sorted(os.listdir(d)):
            if f.endswith(".json"):
                j = json.load(open(os.path.join(d, f)))
                if "viewer_ops" in j:
                    out.append(j)
    return out


VQ = ["len", "iter", "get_range", "BlockRange size/start/end", "iter_indices", "getitem[k]", "getitem[1:3]", "getitem[-2:99]",
      "row in viewer", "contains_index_pos", "contains_stmt_id", "get_all_stmt_ids", "read_block", "get_block_stmt_ids",
      "get_stmt_by_id", "get_stmt_by_pos", "query_operation", "query_field stmt_id", "query_field operation",
      "query_field unknown=None", "query_field unknown=v", "boundary_of_multi_blocks [id]", "boundary_of_multi_blocks all",
      "boundary_of_multi_blocks []"]


def viewer_world_diff(routs, oouts):
    """readable list of the differing answers"""
    out = []
    for n, (r, o) in enumerate(zip(routs, oouts)):
        if r == o:
            continue
        if r[0] == "probe" and o[0] == "probe":
            for sl, (a, b) in enumerate(zip(r[1], o[1])):
                for q, (x, y) in enumerate(zip(a, b)):
                    if x != y:
                        out.append({"after_op": n, "slot": sl, "query": VQ[q], "real": x, "scan": y})
        else:
            out.append({"op": n, "real": r, "scan": o})
        if len(out) > 12:
            break
    return out


def viewer_world_fails(ops):
    _, routs, oouts, _ = quiet(viewer_world, ops)
    return routs != oouts


# =====================================================================================================
# public helpers that are not operations of the Lean model: driven against the list-of-dicts oracle only
# =====================================================================================================

def helpers_case(ctor, mut, scratch):
    """a table, optionally one mutation, then the remaining public DataModel / Row / Column helpers.
    -> list of differences (empty = fine)"""
    w = RealWorld(ctor, scratch)
    t = _oracle_table(ctor)
    if mut is not None:
        try:
            r, _ = w.exec(list(mut))
        except Skip:
            r = None
        if r is not None:
            try:
                oracle_step(t, r)
            except OErr:
                pass
    dm, diffs = w.cur, []
    n, cols = len(t.rows), t.cols
    want_rows = [t.row(i) for i in range(n)]

    def chk(name, got, want):
        if got != want:
            diffs.append([name, got, want])

    def rows_now():
        return [row_json(r) for r in dm]
    chk("is_available", bool(dm.is_available()), n > 0)
    chk("get_schema", [str(c) for c in dm.get_schema()], cols)
    chk("get_data is _data", dm.get_data() is dm._data, True)
    chk("repr", f"length={n}," in repr(dm), True)
    # the cache-maintenance entry points may be called at any time without changing an answer
    dm.display(); dm.set_refresh_flag(); chk("after set_refresh_flag", rows_now(), want_rows)
    dm.refresh_rows(); dm.refresh_schema(); chk("after refresh_rows/refresh_schema", rows_now(), want_rows)
    chk("get_rows", [[canon(c) for c in r] for r in dm.get_rows()], [r[0] for r in want_rows])
    for c in cols:
        col = [r.get(c) for r in t.rows]
        chk("getitem str " + c, [canon(x) for x in dm[c].tolist()], col)
        chk("access_column " + c, [canon(x) for x in dm.access_column(c).tolist()], col)
        chk("Column.is_empty " + c, (bool(dm[c].is_empty()), bool(dm[c].is_available())), (n == 0, n > 0))
        chk("Column repr " + c, repr(dm[c]).startswith("Column(name:%s, data:" % c), True)
        for v in (1, 2, "x"):
            pos = [i for i, x in enumerate(col) if x is not None and x == v]
            for how, arg in (("mask", dm[c] == v), ("set", set(pos))):
                r = dm.slow_query_first(arg)
                want = None if not pos else [want_rows[pos[0]][0], cols, pos[0]]
                chk(f"slow_query_first {how} {c} {v!r}", row_json(r), want)
    for i in range(n):
        chk("getitem int", row_json(dm[i]), want_rows[i])
        chk("slow_query_first int", row_json(dm.slow_query_first(i)), [want_rows[i][0], cols, i])
        r = dm.access(i)
        d = dict(zip(cols, want_rows[i][0]))
        chk("Row.to_dict", {k: canon(v) for k, v in r.to_dict().items()}, d)
        chk("Row len/in/iter", (len(r), all(c in r for c in cols), "no_such" in r, [canon(x) for x in r]),
            (len(cols), True, False, want_rows[i][0]))
        chk("Row attr", [canon(getattr(r, c)) for c in cols] + [r.no_such_attr], want_rows[i][0] + [None])
        c1 = r.copy()
        # Row.__eq__ uses np.array_equal: a row holding a float NaN (not a None) equals nothing, not even its copy
        full = not any(isinstance(x, float) and x != x for x in r.raw_data())
        chk("Row copy/eq/hash", (c1 == r, r.clone() == r, c1 is r, r == 5), (full, full, False, False))
        chk("Row repr", repr(r).startswith("Row("), True)
        chk("Row.get_whole_str", r.get_whole_str(), str(r.to_dict()))
        try:
            chk("Row hash", hash(c1) == hash(r), True)
        except TypeError:
            pass                                   # NaN-free rows only hash equal; unhashable cells are not ours
    chk("getitem list", [row_json(r) for r in dm[[0, n]]], [want_rows[0] if n else None, None])
    return diffs


def helpers_inputs(tier, rng):
    muts = [None, ["removeRows", "a", 1], ["modifyElement", 0, "a", 2, False], ["renameColumn", "a", "k"],
            ["resetIndex", True], ["append", F(["a", "b"], [[1, "x"]])], ["modifyColumn", "c", "x"]]
    for t in BASE_TABLES + EXTRA_TABLES:
        for m in muts:
            yield t, m
    for _ in range(150 if tier == "quick" else 3000):
        t = rand_table(rng)
        m = rng.choice([None, None] + [o for o in (rand_op(rng) for _ in range(3)) if o[0] in MUT_KINDS and o[0] not in ("saveLoad", "appendOther")])
        yield t, m


def helpers_chunk(args):
    items, scratch = args
    warnings.simplefilter("ignore")
    out = []
    for ctor, mut in items:
        try:
            d = quiet(helpers_case, ctor, mut, scratch)
        except CanonError:
            raise
        if d:
            out.append((ctor, mut, d))
    return len(items), out


# what of the public surface of the two anchored modules the harness drives, and what it does not
DRIVEN = {
    "DataModel": {
        "__init__": "constructors rows / dicts / DataFrame / DataModel(other) / empty", "clone": "", "set_refresh_flag": "",
        "__getitem__": "dm[col], dm[i], dm[[i, j]]", "__getattr__": "getattr(dm, col)", "__iter__": "list(dm)",
        "__len__": "len(dm)", "__repr__": "repr(dm)", "is_empty": "", "is_available": "", "refresh_schema": "",
        "refresh_rows": "", "get_rows": "", "set_columns": "", "load": "", "save": "", "access": "", "access_column": "",
        "slice": "", "append_data_model": "", "modify_row": "", "modify_column": "", "rename_column": "",
        "modify_element": "", "slow_query": "", "slow_query_first": "", "query_index_column_value_indices": "",
        "query_index_column_value": "", "query_index_column_value_first": "", "fillna": "", "reset_index": "",
        "search_block_start_end_indics": "", "read_block": "", "read_block_with_block_stmts": "",
        "boundary_of_multi_blocks": "", "display": "", "convert_to_dict_list": "", "get_schema": "", "get_data": "",
        "remove_rows": ""},
    "Row": {"__init__": "every Row handed out", "__copy__": "row.copy() / row.clone()", "__getattr__": "row.<column>",
            "get_whole_str": "", "to_dict": "", "__repr__": "", "get_index": "", "__len__": "len(row)", "raw_data": "",
            "__contains__": "col in row", "__iter__": "list(row)", "__eq__": "row == copy", "__hash__": "hash(row)"},
    "Column": {"is_empty": "", "is_available": "", "isin": "", "__repr__": "repr(dm[col])"},
    "BlockRange": {"__init__": "", "contains_index": "", "contains_range": "", "size": "", "__repr__": "repr(range)",
                   "iter_indices": "", "get_real_start_index": "", "get_end_index": ""},
    "GIRBlockViewer": {
        "__init__": "from DataModel / list of Row / DataModel.read_block result / [] / nothing / another viewer / read_block",
        "__len__": "len(v)", "__getitem__": "v[k] for negative, valid and out-of-range k; v[a:b]", "__iter__": "list(v)",
        "__contains__": "row in v for every Row object of the history", "get_range": "", "contains_index_pos": "",
        "contains_stmt_id": "", "get_all_stmt_ids": "", "read_block": "", "get_block_stmt_ids": "", "get_stmt_by_id": "",
        "get_stmt_by_pos": "", "query_operation": "", "query_field": "", "append_other": "",
        "boundary_of_multi_blocks": "", "__repr__": "repr(v): header and one line per visible statement"},
}
NOT_DRIVEN_WHY = {
    "DataModel.unique_values_of_column": "set-valued, keeps float NaN objects that are not the np.nan singleton; unused in /repo/src",
    "DataModel._convert_bool_list_to_index_list": "private helper of slow_query_first (reached through it)",
    "DataModel._indexing_column": "private; reached through every index query",
    "Row.__setattr__": "writes through the cached numpy row only (lost at the next refresh; read-only on single-dtype frames): "
                       "documented quirk outside the model",
    "Row.add_new_column": "same write-through quirk as Row.__setattr__",
    "Column.bundle_search": "iterates numpy scalars (np.int64(0) counts as missing); unused in /repo/src",
}


def surface_coverage():
    """public methods of data_model.py and gir_block.py (by ast) vs what this file really calls (by grep on itself)"""
    import ast, re
    me = open(os.path.abspath(__file__), encoding="utf-8").read()
    me = me[:me.index("# what of the public surface")] + me[me.index("def surface_coverage"):]
    surface = {}
    for rel in ("util/data_model.py", "util/gir_block.py"):
        tree = ast.parse(open(os.path.join(common.REPO, "src", "lian", rel), encoding="utf-8").read())
        for cls in [n for n in tree.body if isinstance(n, ast.ClassDef)]:
            for fn in [n for n in cls.body if isinstance(n, ast.FunctionDef)]:
                surface[f"{cls.name}.{fn.name}"] = rel
    driven, uncovered, stale = [], [], []
    for name in sorted(surface):
        cls, fn = name.split(".")
        if cls.startswith("_"):
            continue
        if fn in DRIVEN.get(cls, {}):
            # a claim must be backed by a call in this file (dunders are justified in the table itself)
            if fn.startswith("__") or re.search(r"\.%s\(" % re.escape(fn), me):
                driven.append(name)
            else:
                stale.append(name)
        else:
            uncovered.append({"method": name, "file": surface[name],
                              "why": NOT_DRIVEN_WHY.get(name, "not driven (new or overlooked method)")})
    for cls, fns in DRIVEN.items():
        for fn in fns:
            if f"{cls}.{fn}" not in surface:
                stale.append(f"{cls}.{fn} (claimed, no longer in the source)")
    return driven, uncovered, stale


def viewer_inputs(tier, rng):
    ops = ["d", "block_start", "block_end"]
    n_exh = 5 if tier == "quick" else 6
    for n in range(0, n_exh + 1):
        for kinds in itertools.product(ops, repeat=n):
            # ids: well-nested numbering plus perturbations
            stack, ids, nxt = [], [], 1
            for k in kinds:
                if k == "block_start":
                    stack.append(nxt); ids.append(nxt); nxt += 1
                elif k == "block_end":
                    ids.append(stack.pop() if stack else nxt)
                    if not stack and ids[-1] == nxt:
                        nxt += 1
                else:
                    ids.append(nxt); nxt += 1
            yield list(zip(kinds, ids))
            if n and n <= 4:
                for j in range(n):
                    for alt in range(1, nxt):
                        if alt != ids[j]:
                            yield list(zip(kinds, ids[:j] + [alt] + ids[j + 1:]))
    for _ in range(300 if tier == "quick" else 5000):
        n = rng.randint(4, 14)
        stack, out, nxt = [], [], 1
        for _ in range(n):
            r = rng.random()
            if r < 0.3:
                stack.append(nxt); out.append(("block_start", nxt)); nxt += 1
            elif r < 0.6 and stack:
                out.append(("block_end", stack.pop()))
            else:
                out.append(("d", nxt)); nxt += 1
        while stack:
            out.append(("block_end", stack.pop()))
        if rng.random() < 0.2 and out:
            j = rng.randrange(len(out))
            out[j] = (out[j][0], rng.randint(1, nxt))
        yield out


# =====================================================================================================
# entry points
# =====================================================================================================

def load_corpus(alias=False):
    d = os.path.join(common.VERIF, "corpus", "C16")
    items = []
    if os.path.isdir(d):
        for f in sorted(os.listdir(d)):
            if f.endswith(".json"):
                j = json.load(open(os.path.join(d, f)))
                if "ctor" in j and bool(j.get("alias")) == alias:
                    items.append((f, j))
    return items


def run(ctx):
    common.use_repo()
    warnings.simplefilter("ignore")
    t0 = time.time()
    proofs_ok = ctx.proofs()
    ctx.cov["phase_seconds"] = {"proofs": round(time.time() - t0, 1)}
    tier = ctx.tier
    scratch = os.path.join(common.SCRATCH_ROOT, f"lv-{os.getpid()}")
    os.makedirs(scratch, exist_ok=True)
    try:
        _run(ctx, proofs_ok, tier, scratch)
    finally:
        shutil.rmtree(scratch, ignore_errors=True)


def _run(ctx, proofs_ok, tier, scratch):
    import multiprocessing as mp
    from lian.util import data_model            # import before forking
    global MODEL_OK
    MODEL_OK = common.LeanSide.build()[0]
    ctx.cov["lean_build_ok"] = MODEL_OK
    corpus = load_corpus()
    n_corpus = len(corpus)
    n_rand = 4000 if tier == "quick" else 60000
    tasks = main_tasks(tier, n_rand)

    # which public DataModel methods does /repo/src use? (reported, and compared with what is covered)
    ctx.cov["methods_used_in_repo"] = used_methods()

    t1 = time.time()
    ctxmp = mp.get_context("fork")
    mq = ctxmp.Queue()
    mproc = ctxmp.Process(target=production_alias_monitor, args=(scratch, mq))
    mproc.start()
    nproc = min(16, os.cpu_count() or 4)
    chunks = [(task, ctx.seed, scratch) for task in tasks]
    stats, failing, breaks = {}, [], []
    ahist = list(alias_histories(tier, ctx.rng)) if MODEL_OK else []     # the alias matcher needs the model
    achunks = [(ahist[i:i + 1000], scratch) for i in range(0, len(ahist), 1000)]
    astats, abad, abreaks, aknown = {}, [], [], None
    with ctxmp.Pool(nproc) as pool:
        for st, fl, br in pool.imap(process_chunk, chunks):
            merge(stats, st)
            failing += fl
            breaks += br
        for st, bad, br, kn in pool.imap(alias_chunk, achunks):
            merge(astats, st)
            abad += bad
            abreaks += br
            if kn is not None and (aknown is None or len(kn[2]) < len(aknown[2])):
                aknown = kn
        vw_hist = [j["viewer_ops"] for j in load_viewer_corpus()] + list(viewer_histories(tier, ctx.rng))
        vw_stats, vw_bad, vw_breaks = {}, [], []
        for st, bad, br in pool.imap(viewer_world_chunk, [vw_hist[i:i + 150] for i in range(0, len(vw_hist), 150)]):
            merge(vw_stats, st)
            vw_bad += bad
            vw_breaks += br
        hp_items = list(helpers_inputs(tier, ctx.rng))
        hp_n, hp_bad = 0, []
        for n_, bad in pool.imap(helpers_chunk, [(hp_items[i:i + 40], scratch) for i in range(0, len(hp_items), 40)]):
            hp_n += n_
            hp_bad += bad
    n_exh = sum(v for k, v in stats.get("kinds", {}).items() if k not in ("corpus", "rand"))
    n_fail, n_break = len(failing), len(breaks)
    failing = [x for x in failing if x is not None]
    breaks = [x for x in breaks if x is not None]

    ctx.cov["phase_seconds"]["histories"] = round(time.time() - t1, 1)
    t1 = time.time()
    # pinned-commit model on the corpus witnesses: the frozen model must still exhibit each finding
    pinned_hits = 0
    if corpus and MODEL_OK:
        res_items = []
        for _, j in corpus:
            res, real, orc, _ = quiet(check_one, j["ctor"], j["ops"], scratch)
            res_items.append((j["ctor"], res, orc))
        pm = model_runs([(c, r) for c, r, _ in res_items], variant="pinned")
        pinned_hits = sum(1 for (c, r, orc), m in zip(res_items, pm) if m != orc)
    ctx.cov["pinned_model_violates_on_corpus"] = f"{pinned_hits}/{len(corpus)}"

    # GIRBlockViewer
    v_n, v_diffs = 0, []
    so, se = sys.stdout, sys.stderr
    devnull = open(os.devnull, "w")
    sys.stdout = sys.stderr = devnull
    try:
        v_obs = []
        for stmts in viewer_inputs(tier, ctx.rng):
            v_n += 1
            d = viewer_case(stmts, scratch)
            if d:
                v_diffs.append((stmts, d))
            if MODEL_OK and len(stmts) > 0:
                obs, ids, views = viewer_observe(stmts)
                v_obs.append((stmts, obs, {"m": "blockview", "stmts": [[VKIND.get(o, "o"), i] for o, i in stmts],
                                           "views": views, "ids": ids}))
    finally:
        sys.stdout, sys.stderr = so, se
        devnull.close()

    v_breaks = []
    if v_obs:
        for (stmts, obs, _), m in zip(v_obs, drv_ok(drv_batch([r for _, _, r in v_obs]))):
            if obs != m:
                v_breaks.append((stmts, obs, m))
    ctx.cov["viewer_correspondence"] = {"model": "LianVerif.BlockView.build/readBlock", "compared": len(v_obs),
                                        "differences": len(v_breaks),
                                        "accepted_by_constructor": sum(1 for _, o, _ in v_obs if "err" not in o),
                                        "refused": sum(1 for _, o, _ in v_obs if "err" in o)}
    ctx.cov["phase_seconds"]["viewer"] = round(time.time() - t1, 1)
    ctx.cov["viewer_object_family"] = {
        "histories": vw_stats.get("n", 0), "ops": vw_stats.get("ops", {}), "append_outcomes": vw_stats.get("append_outcomes", {}),
        "slot_batteries": vw_stats.get("probes", 0), "queries_per_battery": 24,
        "differ_from_scan_oracle": len(vw_bad), "model": "LianVerif.BlockView.stepV (atomic append_other)",
        "model_differences": len(vw_breaks)}
    ctx.cov["helpers_family"] = {"cases": hp_n, "differ_from_oracle": len(hp_bad)}
    drv_, unc_, stale_ = surface_coverage()
    ctx.cov["driven_public_methods"] = len(drv_)
    ctx.cov["uncovered"] = unc_
    if stale_:
        ctx.cov["stale_coverage_claims"] = stale_
    t1 = time.time()
    try:
        mon = mq.get(timeout=600)
    except Exception:
        mon = {"run": "monitor timed out"}
    mproc.join(10)
    ctx.cov["phase_seconds"]["wait_for_monitor"] = round(time.time() - t1, 1)
    ctx.cov["production_alias_monitor"] = mon
    ctx.cov["alias_family"] = {"histories": astats.get("n", 0), "calls": astats.get("ops", 0),
                               "agree_with_scan": astats.get("agree", 0),
                               "query_only_after_sharing_agree": astats.get("query_only_agree", 0),
                               "known_finding_alias-shared-dataframe": astats.get("known", 0),
                               "unexplained": len(abad), "model": f"LianVerif.Table.runD {VARIANT}",
                               "model_differences_on_agreeing_histories": len(abreaks)}
    ctx.assumptions.append("C16_shared_caches_partial covers two DataModel wrappers over one DataFrame only while neither "
                           "mutates after the sharing; that production code never does otherwise is monitored on one "
                           "end-to-end run (production_alias_monitor), not proved")
    ctx.cov["evaluations"] = stats.get("n", 0) + v_n + astats.get("n", 0) + vw_stats.get("n", 0) + hp_n
    ctx.cov["distinct_nontrivial"] = len(stats.get("nontrivial_keys", ()))
    ctx.cov["rule"] = (
        f"corpus ({n_corpus}) + exhaustive ({n_exh}): every history of length <=2 over {len(QUERIES)} query, "
        f"{len(MUTATORS)} mutation and {len(WORLD)} derived-table/world operations on {4 if tier == 'quick' else len(BASE_TABLES)} base tables "
        f"(length <=1 on {len(EXTRA_TABLES)} more), every query-mutation-query triple over {len(CORE_Q)} core queries"
        f"{', every query-mutation-query triple over ' + str(len(WIDE_Q)) + ' queries and every other history of length 3 on the first table' if tier == 'thorough' else ''}; + {n_rand} random histories of "
        "length 4-12 over random tables (0-5 rows, 1-3 columns, duplicates, None, '' and mixed-kind columns, four "
        f"constructors) with derived tables entered; + {v_n} GIRBlockViewer inputs (all operation strings up to "
        f"length {5 if tier == 'quick' else 6} with id perturbations + random nestings) "
        f"+ {vw_stats.get('n', 0)} GIRBlockViewer object histories (every pair receiver x operand of {len(viewer_specs())} ways to obtain a "
        "viewer - root from a DataModel / list of Rows / DataModel.read_block result, block views, nested views, copies, empty "
        "- joined by append_other, incl. self-append and operands sharing the receiver's collection, optional second append, random "
        f"sequences; after every append a battery of 24 query groups on every live viewer) + {hp_n} helper cases. "
        "non-trivial = distinct resolved "
        "history with a successful mutation followed by a query with a non-empty, non-error answer")
    ctx.cov["exhaustive"] = True
    ctx.cov["op_counts"] = dict(sorted(stats.get("ops", {}).items()))
    ctx.cov["error_kinds"] = stats.get("errs", {})
    ctx.cov["dtype_refusals"] = stats.get("refusals", 0)
    ctx.cov["ops_not_issued"] = stats.get("skipped_ops", 0)
    ctx.cov["derived_tables_entered"] = stats.get("entered", 0)
    ctx.cov["query_mutation_query_shapes"] = stats.get("q_m_q", 0)
    ctx.cov["viewer_inputs"] = v_n
    ctx.cov["correspondence"] = {"model": f"LianVerif.Table.run {VARIANT}", "compared": stats.get("n", 0),
                                 "differences": n_break}
    smp = []
    witness = (BASE_TABLES[0], [["queryIdx", "a", 1], ["removeRows", "a", 1], ["queryIdx", "a", 1], ["iter"]])
    assert any((witness[0], witness[1][:3]) in expand(("qmq", 0, "core", part), ctx.seed) for part in range(3))
    for c, o in (witness, expand(tasks[-1], ctx.seed)[-1]):
        res, real, _, _ = quiet(check_one, c, o, scratch)
        smp.append({"ctor": c, "ops": res, "real": [x[0] for x in real[1]]})
    if aknown is not None:
        smp.append({"alias_family": True, "ctor": aknown[0], "pre": aknown[1], "ops": aknown[2]})
    ctx.cov["samples"] = smp
    ctx.cov["histories_per_family"] = stats.get("kinds", {})
    ctx.cov["fingerprints"] = fingerprints()

    if aknown is not None and "C16/alias-shared-dataframe" in ctx.finding_ids("open"):
        ctx.known("C16/alias-shared-dataframe",
                  f"DataModel(dm) shares the DataFrame object but not the dirty flag: after an in-place change through one "
                  f"wrapper the other answers from stale caches ({astats.get('known', 0)} generated histories; smallest: "
                  f"ctor={json.dumps(aknown[0])} pre={json.dumps(aknown[1])} ops={json.dumps(aknown[2])})")
        ctx.known_hits["C16/alias-shared-dataframe"] = astats.get("known", 0)
    elif aknown is not None:
        abad.append((aknown[0], aknown[1], [], aknown[1], aknown[2], None, None, None))
    if abad:
        ctor, pre, ops, rpre, res, outs, oouts, m = abad[0]
        if ops:
            def afails(cand_pre, cand_ops):
                so_, se_ = sys.stdout, sys.stderr
                sys.stdout = sys.stderr = open(os.devnull, "w")
                try:
                    rp_, rs_, ro_ = alias_real(ctor, cand_pre, cand_ops, scratch)
                finally:
                    sys.stdout, sys.stderr = so_, se_
                oo_, inf_ = alias_oracle(ctor, rp_, rs_)
                return ro_ != oo_ and not alias_known(ro_, oo_, alias_models([(ctor, rp_, rs_)])[0], inf_)
            ops = common.shrink_list(ops, lambda c: afails(pre, c))
            pre = common.shrink_list(pre, lambda c: afails(c, ops))
            so_, se_ = sys.stdout, sys.stderr
            sys.stdout = sys.stderr = open(os.devnull, "w")
            try:
                rpre, res, outs = alias_real(ctor, pre, ops, scratch)
            finally:
                sys.stdout, sys.stderr = so_, se_
            oouts, _ = alias_oracle(ctor, rpre, res)
            m = alias_models([(ctor, rpre, res)])[0]
        ctx.violation({"what": "two DataModel wrappers over one DataFrame: an answer differs from a scan of the frame the "
                               "wrapper refers to, and the difference is not the recorded finding C16/alias-shared-dataframe "
                               "(real answers differ from the Lean two-wrapper model, or no in-place change through the "
                               "other wrapper precedes it)",
                       "alias": True, "ctor": ctor, "pre": rpre, "ops": res, "real": outs, "oracle": oouts, "model_out": m})
    if mon.get("inplace_mutation_of_shared_frame", 0) > 0:
        ctx.violation({"what": "production code builds a DataModel from a DataModel and then changes the shared frame in place: "
                               "the hypothesis of C16_shared_caches_partial does not hold on an end-to-end run",
                       "monitor": mon, "program": MONITOR_PROGRAM}, no_input=True)
    if failing:
        ctor, ops, res, real, orc = failing[0]
        ctor, ops = shrink(ctor, ops, scratch)
        res, real, orc, _ = quiet(check_one, ctor, ops, scratch)
        i = first_diff(real[1], orc[1])
        ctx.violation({"what": "real DataModel disagrees with a scan of the current rows (list-of-dicts oracle)",
                       "ctor": ctor, "ops": ops, "resolved_ops": res, "first_difference_at_op": i,
                       "real": real, "oracle": orc, "failing_histories_in_run": n_fail})
    if vw_bad:
        ops_, r_, o_ = min(vw_bad, key=lambda x: len(x[0]))
        ops_ = common.shrink_list(ops_, lambda c: len(c) > 0 and viewer_world_fails(c))
        _, r_, o_, _ = quiet(viewer_world, ops_)
        ctx.violation({"what": "GIRBlockViewer objects: an answer of a public method differs from a scan of the statements the "
                               "viewer should show (construction / read_block / append_other history)",
                       "viewer_ops": ops_, "differences": viewer_world_diff(r_, o_), "failing_histories_in_run": len(vw_bad)})
    if hp_bad:
        c_, m_, d_ = hp_bad[0]
        ctx.violation({"what": "a public DataModel / Row / Column helper disagrees with the list-of-dicts oracle",
                       "helpers": True, "ctor": c_, "mutation": m_, "differences": d_[:5], "failing_cases_in_run": len(hp_bad)})
    if stale_:
        ctx.violation({"what": "the harness claims to drive public methods that it does not call (or that no longer exist)",
                       "stale_coverage_claims": stale_}, no_input=True)
    if v_diffs:
        stmts, d = min(v_diffs, key=lambda x: len(x[0]))
        ctx.violation({"what": "GIRBlockViewer / DataModel.read_block disagree with a scan of the statement rows",
                       "viewer_stmts": stmts, "differences": d, "failing_inputs_in_run": len(v_diffs)})
    if not breaks and vw_breaks:
        ops_, r_, m_ = min(vw_breaks, key=lambda x: len(x[0]))
        breaks = [(["viewer-objects"], ops_, [None, r_], [None, m_])]
        n_break = len(vw_breaks)
    if not breaks and v_breaks:
        st_, ob_, m_ = min(v_breaks, key=lambda x: len(x[0]))
        breaks = [(["viewer"], st_, [None, [ob_]], [None, [m_]])]
        n_break = len(v_breaks)
    if not breaks and abreaks:
        c_, p_, r_, o_, m_ = abreaks[0]
        breaks = [(c_, [["alias-pre", p_], ["alias-ops", r_]], [None, o_], [None, m_])]
        n_break = len(abreaks)
    if not failing and not v_diffs and not abad and not vw_bad and not hp_bad and (breaks or not proofs_ok):
        b = breaks[0] if breaks else (None, None, None, None)
        i = first_diff(b[2][1], b[3][1]) if breaks else None
        ctx.violation({"what": "proof obligation or model/code correspondence broken; the list-of-dicts oracle accepted "
                               "every history of this run, so no failing input was found",
                       "broken_theorems": ctx.audit["failures"],
                       "correspondence": {"model": f"LianVerif.Table.run {VARIANT} / runD / BlockView.build", "ctor": b[0], "resolved_ops": b[1],
                                          "first_difference_at_op": i, "real": b[2], "model_out": b[3],
                                          "differing_histories_in_run": n_break}},
                      no_input=True)


def used_methods():
    import re
    src = os.path.join(common.REPO, "src", "lian")
    names = ["clone", "is_empty", "is_available", "load", "save", "access", "access_column", "slice",
             "append_data_model", "modify_row", "modify_column", "rename_column", "modify_element", "slow_query",
             "slow_query_first", "query_index_column_value_indices", "query_index_column_value",
             "query_index_column_value_first", "fillna", "reset_index", "read_block", "read_block_with_block_stmts",
             "boundary_of_multi_blocks", "convert_to_dict_list", "get_data", "remove_rows", "get_rows", "set_columns",
             "unique_values_of_column", "bundle_search", "search_block_start_end_indics"]
    counts = dict.fromkeys(names, 0)
    for root, _, files in os.walk(src):
        for f in files:
            if f.endswith(".py") and not (root.endswith("util") and f == "data_model.py"):
                try:
                    text = open(os.path.join(root, f), encoding="utf-8", errors="ignore").read()
                except OSError:
                    continue
                for n in names:
                    counts[n] += len(re.findall(r"\.%s\(" % n, text))
    return {k: v for k, v in counts.items() if v}


def fingerprints():
    import hashlib, inspect
    from lian.util import data_model, gir_block, util
    out = {}
    for name, obj in (("DataModel", data_model.DataModel), ("Row", data_model.Row), ("Column", data_model.Column),
                      ("GIRBlockViewer", gir_block.GIRBlockViewer), ("util.isna", util.isna)):
        out[name] = hashlib.sha256(inspect.getsource(obj).encode()).hexdigest()[:16]
    return out


def replay(rp):
    common.use_repo()
    warnings.simplefilter("ignore")
    scratch = os.path.join(common.SCRATCH_ROOT, f"lv-{os.getpid()}")
    os.makedirs(scratch, exist_ok=True)
    try:
        if "viewer_ops" in rp:
            _, r_, o_, _ = quiet(viewer_world, rp["viewer_ops"])
            print(json.dumps({"differences": viewer_world_diff(r_, o_), "violates": r_ != o_}))
            return 1 if r_ != o_ else 0
        if rp.get("helpers"):
            d = quiet(helpers_case, rp["ctor"], rp["mutation"], scratch)
            print(json.dumps({"differences": d[:5]}, default=str))
            return 1 if d else 0
        if "viewer_stmts" in rp:
            d = viewer_case([tuple(s) for s in rp["viewer_stmts"]], scratch)
            print(json.dumps({"differences": d}))
            return 1 if d else 0
        if rp.get("alias"):
            so = sys.stderr
            sys.stderr = open(os.devnull, "w")
            try:
                rpre, res, outs = alias_real(rp["ctor"], rp["pre"], rp["ops"], scratch)
            finally:
                sys.stderr = so
            oouts, info = alias_oracle(rp["ctor"], rpre, res)
            m = alias_models([(rp["ctor"], rpre, res)])[0]
            viol = outs != oouts and not alias_known(outs, oouts, m, info)
            print(json.dumps({"real": outs, "oracle": oouts, "model": m, "violates": viol}))
            return 1 if viol else 0
        if "ctor" not in rp:
            print(json.dumps({"note": "no concrete failing input in this replay file (proof/correspondence break)"}))
            return 1
        so = sys.stderr
        sys.stderr = open(os.devnull, "w")
        try:
            res, real, orc, viol = check_one(rp["ctor"], rp["ops"], scratch)
        finally:
            sys.stderr = so
        print(json.dumps({"resolved_ops": res, "real": real, "oracle": orc, "violates": viol}))
        return 1 if viol else 0
    finally:
        shutil.rmtree(scratch, ignore_errors=True)
