"""C09 — points-to results are flow-, field- and call-site-sensitive on loop-free code; binary operations
on constants yield exactly the results of the operand combinations.

Part A (in-process): exactness of the two-operand part of `assign_stmt_state` on integer constants — real
  code vs the Lean model `binStates` vs Python's operators on all operand combinations.
Part B (whole runs): generated loop-free programs of the C09 fragment (integer constants, copies, the 11
  binary operators, if/else with a fresh decision per `if`, one allocation per object variable, aliasing by
  assignment, distinct field names, helper functions called from several sites); per definition,
  alpha(result tables) must EQUAL the exact value set (independent Python reference of the set-valued
  collecting semantics; CPython ground truth under all decision vectors must be covered by it), and is
  compared with the Lean reference interpreter `aref`.
"""
import io, contextlib, json, os, shutil, sys

import common
import foldcheck as F
import absval_common as A
import absval_runs as RUNS


def gen_exact_bin_case(rng):
    ints = [0, 1, 2, 3, 5, 7, 12, -1, -4, 64, True, False, "0", "3", "10"]
    S1 = [(rng.choice(ints), "int") for _ in range(rng.randint(1, 3))]
    S2 = [(rng.choice(ints), "int") for _ in range(rng.randint(1, 3))]
    return (rng.choice(F.OPS), S1, S2)


def exact_bin_verdict(op, S1, S2, real):
    """On integer constants whose every combination is defined, the result is exactly the set of results."""
    want = []
    for a in S1:
        for b in S2:
            o = F.oracle(op, a, b)
            if o[0] != "value":
                return None                      # a combination raises / is outside the oracle: no exactness claim
            want.append(o[1])
    if real[0] in ("crash", "timeout"):
        return f"exception / no result: {real[1:]}"
    got = real[1]
    if any(s is None for s in got):
        return f"result has an unknown state although every operand combination has a value {want!r}"
    gv = [s[0] for s in got]
    for w in want:
        if not any(F.same_value(w, g) for g in gv):
            return f"result {gv!r} lacks {w!r}"
    for g in gv:
        if not any(F.same_value(w, g) for w in want):
            return f"result {gv!r} has {g!r} which no operand combination yields ({want!r})"
    return None


def run_bin_part(ctx, st):
    rng = ctx.rng
    live = F.RealFold(F.live_class())
    n = 3000 if ctx.tier == "quick" else 200000
    cases = [gen_exact_bin_case(rng) for _ in range(n)]
    cdir = os.path.join(common.VERIF, "corpus", "C09")
    if os.path.isdir(cdir):
        for f in sorted(os.listdir(cdir)):
            c = F.load_json(os.path.join(cdir, f))
            if c.get("kind") == "bin":
                cases.insert(0, (c["op"], [tuple(s) for s in c["S1"]], [tuple(s) for s in c["S2"]]))
    model = F.drv([{"m": "fold", "kind": "bin", "variant": "current", "op": op, "S1": [F.enc_state(s) for s in S1],
                    "S2": [F.enc_state(s) for s in S2]} for op, S1, S2 in cases])
    stats = {"same": 0, "diff": 0, "unmodelled": 0, "exactness_claimed": 0}
    sink = io.StringIO()
    real = F.run_real("bin", cases, "live")
    for (op, S1, S2), m, r in zip(cases, model, real):
        if r[0] == "skipped":
            continue
        ctx.cov["evaluations"] += 1
        why = exact_bin_verdict(op, S1, S2, r)
        if all(F.oracle(op, a, b)[0] == "value" for a in S1 for b in S2):
            stats["exactness_claimed"] += 1
            st["nontrivial"].add(F.dumps([op, [F.enc_state(s) for s in S1], [F.enc_state(s) for s in S2]]))
        if why:
            st["failing"].append({"kind": "bin", "op": op, "S1": [list(s) for s in S1], "S2": [list(s) for s in S2],
                                  "real": repr(r)[:300], "why": why})
        if m[0] == "unmodelled":
            stats["unmodelled"] += 1
            continue
        rc = [r[0]] if r[0] in ("crash", "timeout") else ["states", F.canon_states(r[1])]
        mc = m if m[0] != "states" else ["states", F.canon_model_states(m[1])]
        if rc == mc:
            stats["same"] += 1
        else:
            stats["diff"] += 1
            st["corr"].append({"model": "LianVerif.Fold.binStates", "op": op, "S1": repr(S1), "S2": repr(S2), "real": repr(rc)[:300], "model_out": repr(mc)[:300]})
    ctx.cov["bin"] = dict(stats, generated=n)


def run(ctx):
    common.use_repo()
    proofs_ok = ctx.proofs()
    st = {"failing": [], "corr": [], "nontrivial": set(), "known": []}
    scratch = os.path.join(common.SCRATCH_ROOT, f"lv-{os.getpid()}")
    os.makedirs(scratch, exist_ok=True)
    try:
        run_bin_part(ctx, st)
        RUNS.run_program_part(ctx, st, scratch, prop="C09")
    finally:
        shutil.rmtree(scratch, ignore_errors=True)
    ctx.cov["distinct_nontrivial"] = len(st["nontrivial"])
    ctx.cov["rule"] = (
        "Part A: random (operator, state set, state set) over integer constants (text and computed, 0 and False included) for "
        "assign_stmt_state; non-trivial = distinct input all of whose operand combinations have a value (exactness is claimed). "
        "Part B: generated loop-free programs of the C09 fragment packed into files and analysed by `lian run`; non-trivial = "
        "distinct program whose definitions were all found in the P3 tables and equal the exact sets.")
    ctx.cov["exhaustive"] = False
    ctx.cov["correspondence"] = {"differences": len(st["corr"])}
    for k in st["known"]:
        ctx.known(k[0], k[1])
    if st["failing"]:
        sys.set_int_max_str_digits(0)
        for f in st["failing"][:3]:
            ctx.violation(dict(f, what="C09 failing input", failing_inputs_in_run=len(st["failing"])))
    elif st["corr"] or not proofs_ok:
        ctx.violation({"what": "proof obligation or correspondence broken; the oracles of this run found no input violating C09",
                       "broken_theorems": ctx.audit["failures"], "correspondence": st["corr"][:5],
                       "correspondence_differences": len(st["corr"])}, no_input=True)


def replay(rp):
    common.use_repo()
    if rp.get("kind") == "bin":
        live = F.RealFold(F.live_class())
        S1 = [tuple(s) for s in rp["S1"]]
        S2 = [tuple(s) for s in rp["S2"]]
        with contextlib.redirect_stderr(io.StringIO()):
            r = live.bin(rp["op"], S1, S2)
        why = exact_bin_verdict(rp["op"], S1, S2, r)
        print(json.dumps({"real": repr(r)[:300], "violates": bool(why), "why": why}))
        return 1 if why else 0
    return RUNS.replay_program(rp)
