"""C13 — analysis terminates within bounded time on every program.

Engine `sweep`: parameterised adversarial families (size n) are analysed by the REAL lian (`run`, with
and without --enable-p2) in worker subprocesses (c13_worker.py) that wrap, from the harness side, the
loops C13 is about.  Three kinds of evidence per run:

  monitors        exit status / crash / timeout (60 s + 2 s*n^2) / least-squares exponent of analysis
                  time vs n per family (> 3.5 fails) / REAL loop counts <= the bounds proved in
                  Properties/C13.lean, instantiated by lvdrv with the real sizes;
  correspondence  exact replay of the real loops by the Lean models (lvdrv, model "termination"):
                  visit sequence of every frame's analyze_stmts under the real SimpleWorkList
                  discipline, event trace / counters / stored paths of the P3 frame driver given the
                  real raw callee requests, dequeue sequence of propagate_taint, pop sequence of
                  search_impacted_parent_nodes and summarize_symbol_decls;
  parameters      R, B and the loop shape are read from the live modules (constants, probes, source
                  fingerprints); a changed fingerprint widens the quick sweep, it never suppresses.
"""
import glob, hashlib, json, math, os, shutil, subprocess, sys, time
from concurrent.futures import ThreadPoolExecutor
import common
from common import drv_batch

HERE = os.path.dirname(os.path.abspath(__file__))
WORKER = os.path.join(HERE, "c13_worker.py")
FP_FILE = os.path.join(HERE, "c13_fingerprints.json")
PY = "/venv/bin/python"
EXP_LIMIT = 3.5
TIME_FLOOR = 0.2          # seconds; analysis times below are treated as this for the exponent fit
STMT_CPU_LIMIT = 5.0      # CPU seconds: ONE compute_stmt_states call above this is a failing input (the theorems bound
                          # iteration counts only; this is the monitor for the cost of a single statement analysis)
WALL_CAP_FACTOR = 12      # wall-clock cap of one run = factor x its CPU-time limit (harness protection only)

# --------------------------------------------------------------------------------------- families

def fam_self_recursion(n):
    body = ["def f(x, d):", "    if d <= 0:", "        return x", "    a0 = f(x, d - 1)"]
    for i in range(1, n):
        body.append(f"    a{i} = f(a{i-1}, d - 1)")
    body += [f"    return a{n-1}", "", "r = f(1, 3)", "print(r)"]
    return {"files": {"main.py": "\n".join(body) + "\n"}}


def fam_mutual_recursion(n):
    src = []
    for i in range(n):
        j = (i + 1) % n
        src += [f"def f{i}(x):", "    if x <= 0:", "        return 0", f"    y = f{j}(x - 1)", "    return y + 1", ""]
    src += ["r = f0(10)", "print(r)"]
    return {"files": {"main.py": "\n".join(src) + "\n"}}


def fam_self_application(n):
    src = ["def app(g):", "    return g(g)", ""]
    for i in range(n):
        if i + 1 < n:
            src += [f"def h{i}(cb, x):", f"    return h{i+1}(cb, x)", ""]
        else:
            src += [f"def h{i}(cb, x):", "    return cb(cb, x)", ""]
    src += ["def k(s, x):", "    if x:", "        return s(s, x - 1)", "    return 0", "",
            "r1 = app(app)", "r2 = h0(k, 3)", "print(r1, r2)"]
    return {"files": {"main.py": "\n".join(src) + "\n"}}


def fam_cyclic_imports(n):
    files = {}
    for i in range(n):
        j = (i + 1) % n
        files[f"m{i}.py"] = (f"import m{j}\n\n\ndef g{i}(x):\n    if x <= 0:\n        return 0\n"
                             f"    return m{j}.g{j}(x - 1) + 1\n")
    files["main.py"] = "import m0\n\nr = m0.g0(5)\nprint(r)\n"
    return {"files": files}


def fam_cyclic_objects(n):
    src = ["class Node:", "    def __init__(self, v):", "        self.v = v", "        self.next = None", ""]
    for i in range(n):
        src.append(f"n{i} = Node({i})")
    for i in range(n):
        src.append(f"n{i}.next = n{(i+1) % n}")
    src += ["p = n0", "s = 0", "i = 0", "while i < 100:", "    s = s + p.v", "    p = p.next", "    i = i + 1", "print(s)"]
    return {"files": {"main.py": "\n".join(src) + "\n"}}


def fam_nested_loops(n):
    src = ["def f(a):", "    s = 0"]
    ind = "    "
    for i in range(n):
        src.append(f"{ind}i{i} = 0")
        src.append(f"{ind}while i{i} < a:")
        ind += "    "
    src.append(f"{ind}s = s + " + " + ".join(f"i{i}" for i in range(min(n, 4))))
    for i in reversed(range(n)):
        src.append(f"{ind}i{i} = i{i} + 1")
        ind = ind[:-4]
    src += ["    return s", "", "r = f(3)", "print(r)"]
    return {"files": {"main.py": "\n".join(src) + "\n"}}


def _call_chain(n, k):
    src = []
    for i in range(n):
        src.append(f"def f{i}(x):")
        prev = "x"
        for c in range(k):
            src.append(f"    v{c} = f{i+1}({prev})")
            prev = f"v{c}"
        src += [f"    return {prev}", ""]
    src += [f"def f{n}(x):", "    return x + 1", "", "r = f0(1)", "print(r)"]
    return {"files": {"main.py": "\n".join(src) + "\n"}}


def fam_call_chain3(n):
    return _call_chain(n, 3)


def fam_call_chain4(n):          # 4 sites per function: saturates the per-call-site budget B+1 = 3
    return _call_chain(n, 4)


TAINT_SETTINGS = {
    "source.yaml": "- lang: python\n  rules:\n    - operation: parameter_decl\n      name: tainted_in\n",
    "sink.yaml": "- lang: python\n  rules:\n    - operation: call_stmt\n      name: sink\n      target: [\\%arg0]\n      vuln_type: generic_sink\n",
}


def fam_taint_ring(n):
    """a tainted parameter rotated through a ring of n variables inside a loop, then sunk"""
    src = ["def handler(tainted_in, k):", "    a0 = tainted_in"]
    for i in range(1, n):
        src.append(f"    a{i} = a{i-1}")
    src += ["    i = 0", "    while i < k:", "        t = a0"]
    for i in range(n - 1):
        src.append(f"        a{i} = a{i+1}")
    src += [f"        a{n-1} = t", "        i = i + 1", f"    sink(a{n-1})", "", "handler(1, 2)"]
    return {"files": {"main.py": "\n".join(src) + "\n"}, "settings": TAINT_SETTINGS}


# degenerate callees: frames that init_compute_frame may refuse (empty CFG / no state space) or that have
# nothing to analyse.  A parameterless function whose body is only a docstring or `...` has an EMPTY CFG:
# its frame is dropped at initialisation — the driver must not schedule it again for the same interruption.
DEGENERATE_DEFS = """def stub():
    \"\"\"only a docstring\"\"\"


def dots():
    ...


def passer():
    pass


def stub_p(a):
    \"\"\"docstring, one parameter\"\"\"


def dots_p(a, b):
    ...


def onlydefs():
    def inner():
        return 1


class Empty:
    pass


class EmptyDoc:
    \"\"\"doc\"\"\"


class Holder:
    def spin(self):
        while True:
            pass

    def nothing(self):
        \"\"\"doc\"\"\"

    def dots(self):
        ...


def never():
    while True:
        pass


lam = lambda: 0
lam_p = lambda v: v
"""
DEGENERATE_CALLS = ["stub()", "dots()", "passer()", "stub_p(1)", "dots_p(1, 2)", "onlydefs()", "Empty()", "EmptyDoc()",
                    "never()", "lam()", "lam_p(3)", "hold.nothing()", "hold.dots()", "hold.spin()", "nogir.missing()",
                    "blank.missing(1)"]
DEGENERATE_MODULES = {"nogir.py": "# this file has no statement at all\n# only comments\n", "blank.py": ""}


def fam_degenerate_callees(n):
    """every degenerate callee shape called n times from top level (straight line), then once more inside a loop"""
    src = ["import nogir", "import blank", "", DEGENERATE_DEFS, "hold = Holder()"]
    k = 0
    for rep in range(n):
        for c in DEGENERATE_CALLS:
            src.append(f"r{k} = {c}")
            k += 1
    src += ["i = 0", "while i < 3:"]
    for c in DEGENERATE_CALLS:
        src.append(f"    q{k} = {c}")
        k += 1
    src += ["    i = i + 1", "print(r0, i)"]
    files = dict(DEGENERATE_MODULES)
    files["main.py"] = "\n".join(src) + "\n"
    return {"files": files}


def fam_degenerate_chain(n):
    """a call chain of depth n; every link calls two degenerate callees (one of them inside a loop on odd links)
    before descending; the last link calls all of them"""
    src = ["import nogir", "import blank", "", DEGENERATE_DEFS, "hold = Holder()", ""]
    m = len(DEGENERATE_CALLS)
    for i in range(n):
        a, b = DEGENERATE_CALLS[(2 * i) % m], DEGENERATE_CALLS[(2 * i + 1) % m]
        src += [f"def g{i}(x):", f"    u = {a}"]
        if i % 2:
            src += ["    k = 0", "    while k < 2:", f"        v = {b}", "        k = k + 1"]
        else:
            src += [f"    v = {b}"]
        src += [f"    w = g{i+1}(x)", "    return w", ""]
    src += [f"def g{n}(x):"]
    for j, c in enumerate(DEGENERATE_CALLS):
        src.append(f"    z{j} = {c}")
    src += ["    return x", "", "r = g0(1)", "print(r)"]
    files = dict(DEGENERATE_MODULES)
    files["main.py"] = "\n".join(src) + "\n"
    return {"files": files}


def fam_random_calls(n, seed=0):
    """n functions, each with 1-3 calls to uniformly chosen functions (itself and earlier ones included:
    recursion, mutual recursion, diamonds), some inside a loop or a branch; seeded by VERIF_SEED"""
    import random
    rng = random.Random((seed << 16) ^ n)
    src = []
    for i in range(n):
        src.append(f"def f{i}(x, d):")
        src += ["    if d <= 0:", "        return x"]
        prev = "x"
        for c in range(rng.randint(1, 3)):
            j = rng.randrange(n)
            shape = rng.random()
            if shape < 0.25:
                src += [f"    k{c} = 0", f"    v{c} = {prev}", f"    while k{c} < 2:",
                        f"        v{c} = f{j}(v{c}, d - 1)", f"        k{c} = k{c} + 1"]
            elif shape < 0.5:
                src += [f"    if {prev} > {c}:", f"        v{c} = f{j}({prev}, d - 1)", "    else:", f"        v{c} = {prev}"]
            else:
                src.append(f"    v{c} = f{j}({prev}, d - 1)")
            prev = f"v{c}"
        src += [f"    return {prev}", ""]
    src += ["r = f0(1, 3)", "print(r)"]
    return {"files": {"main.py": "\n".join(src) + "\n"}}


# taint families whose flows ARE found (call source `sourc()` / parameter source `tainted_in`, sink `sink(x)`),
# over def-use graphs with re-converging branches; sinks placed first / middle / last, and a dead-end region
# (values that never reach a sink) between the source and the last sink
TAINT_SETTINGS_FOUND = {
    "source.yaml": ("- lang: python\n  rules:\n    - operation: parameter_decl\n      name: tainted_in\n"
                    "    - operation: call_stmt\n      name: sourc\n      tag: [\"%target\"]\n"),
    "sink.yaml": TAINT_SETTINGS["sink.yaml"],
}


def fam_taint_diamonds(n, sinks="all"):
    """x0 = sourc(); n sequential if/else diamonds x_i = x_{i-1} | x_{i-1} + 1; sink(x0) first, middle and last
    (x_n itself reaches a sink only in the `through` call, placed before the last sink)"""
    src = ["def run(c):", "    x0 = sourc()"] + (["    sink(x0)"] if sinks == "all" else [])
    for i in range(1, n + 1):
        src += ["    if c:", f"        x{i} = x{i-1}", "    else:", f"        x{i} = x{i-1} + 1"]
        if i == max(1, n // 2) and sinks == "all":
            src.append("    sink(x0)")
    src += [f"    y = x{n}", "    sink(x0)", "", "run(1)"]
    return {"files": {"main.py": "\n".join(src) + "\n"}, "settings": TAINT_SETTINGS_FOUND}


def fam_taint_fanin(n, sinks="all"):
    """n-way fan-out of a tainted value, n-way elif fan-in, a folded sum of all copies that is never sunk,
    sinks on the fan-in value (middle) and on the source value (last)"""
    src = ["def run(c):", "    x = sourc()"]
    for i in range(n):
        src.append(f"    w{i} = x")
    src.append("    if c == 0:")
    src.append("        y = w0")
    for i in range(1, n):
        src += [f"    elif c == {i}:", f"        y = w{i}"]
    src += ["    else:", "        y = x"]
    if sinks == "all":
        src.append("    sink(y)")
    src.append("    t0 = w0")
    for i in range(1, n):
        src.append(f"    t{i} = t{i-1} + w{i}")
    src += [f"    dead = t{n-1}", "    sink(x)", "", "run(1)"]
    return {"files": {"main.py": "\n".join(src) + "\n"}, "settings": TAINT_SETTINGS_FOUND}


def fam_taint_chain(n, sinks="all"):
    """a copy chain of length 2n from a tainted parameter, a loop that keeps copying the end of the chain back and
    forth, sinks on the first link (first), the middle link and the last link (last)"""
    m = 2 * n
    src = ["def run(tainted_in, k):", "    a0 = tainted_in"] + (["    sink(a0)"] if sinks == "all" else [])
    for i in range(1, m + 1):
        src.append(f"    a{i} = a{i-1}")
        if i == n and sinks == "all":
            src.append(f"    sink(a{i})")
    src += ["    i = 0", "    while i < k:", f"        b = a{m}", f"        a{m} = b", "        i = i + 1",
            f"    sink(a{m})", "", "run(1, 2)"]
    return {"files": {"main.py": "\n".join(src) + "\n"}, "settings": TAINT_SETTINGS_FOUND}


def fam_degenerate_callers_first(n):
    """n caller/stub pairs, callers defined before the stubs, NO unresolved call anywhere (an unresolved call such
    as print() moves the callers into a later method group of the bottom-up phase, so that every stub is analysed
    as a root before its caller).  All methods then sit in one set and are taken in set-iteration order of their
    ids: the filler statements spread the ids so that for some pairs the caller comes first and its stub is first
    reached through the caller's interruption.  Stub bodies rotate through pass / bare return / docstring-only /
    `...`; every second caller calls its stub inside a loop; a second stub is shared by all callers."""
    bodies = ["    pass", "    return", "    \"\"\"doc\"\"\"", "    ..."]
    src = []
    for i in range(n):
        src.append(f"def main{i}():")
        for j in range(i % 5):
            src.append(f"    pad{j} = {j}")
        if i % 2:
            src += ["    k = 0", "    while k < 2:", f"        hook{i}()", "        k = k + 1"]
        else:
            src.append(f"    hook{i}()")
        src += ["    shared()", f"    return {i}", ""]
    for i in range(n):
        src += [f"def hook{i}():", bodies[i % 4], ""]
    src += ["def shared():", "    pass", ""]
    for i in range(n):
        src.append(f"r{i} = main{i}()")
    return {"files": {"main.py": "\n".join(src) + "\n"}}


FAMILIES = {
    "self_recursion": fam_self_recursion, "mutual_recursion": fam_mutual_recursion,
    "self_application": fam_self_application, "cyclic_imports": fam_cyclic_imports,
    "cyclic_objects": fam_cyclic_objects, "nested_loops": fam_nested_loops,
    "call_chain3": fam_call_chain3, "call_chain4": fam_call_chain4, "taint_ring": fam_taint_ring,
    "random_calls": fam_random_calls,
    "degenerate_callees": fam_degenerate_callees, "degenerate_chain": fam_degenerate_chain,
    "degenerate_callers_first": fam_degenerate_callers_first,
    # all three sink positions in one program: only --enable-p2 recognises every `sink(...)` call of a method ...
    "taint_diamonds": fam_taint_diamonds, "taint_fanin": fam_taint_fanin, "taint_chain": fam_taint_chain,
    # ... so the default mode gets the single sink in the worst position (last, behind the dead-end region)
    "taint_diamonds_last": lambda n: fam_taint_diamonds(n, "last"),
    "taint_fanin_last": lambda n: fam_taint_fanin(n, "last"),
    "taint_chain_last": lambda n: fam_taint_chain(n, "last"),
}
TAINT_P3_ONLY_IN_QUICK = ("taint_ring", "taint_diamonds_last", "taint_fanin_last", "taint_chain_last")
TAINT_P2_ONLY_IN_QUICK = ("taint_diamonds", "taint_fanin", "taint_chain")

# hostile literal constants: fixed members (n scales the literal where that makes sense)
def fam_hostile(member, n):
    if member == "pow_chain":
        src = "a = 9\nb = a ** 9\nc = b ** 99999\nd = c ** 99999\nprint(d)\n"
    elif member == "pow_tower":
        src = "x = 9 ** 9 ** 9\nprint(x)\n"
    elif member == "shift_big":
        src = "x = 1 << 10 ** 9\ny = x + 1\nprint(y)\n"
    elif member == "big_string":
        src = "s = \"" + "ab" * (n * 16384) + "\"\nt = s + s\nprint(len(t))\n"
    elif member == "quotes":
        q = "'\\\"" * n
        src = ("a = '\\\" + \\\"x'\nb = a + 'b'\nc = \"" + "\\\"" * n + "\"\nd = c + c\n"
               "e = '''" + "x'\"" * n + "'''\nf = e + a\nprint(b, d, f)\n")
    elif member in ("fold_ops", "fold_ops_cmp"):
        # every operand is itself the result of an earlier fold (never a literal of the dangerous size):
        # negative, zero, one, minus one, huge (just under the folder's 4096-bit limit), big exponents, strings,
        # a %-format with a huge width, a float
        pre = ["two = 1 + 1", "one = 3 - 2", "zero = 5 - 5", "neg = 2 - 11", "mone = 1 - 2", "ten = 5 + 5",
               "big = 9999 * 10001", "negbig = zero - big", "huge = ten ** 1200", "neghuge = zero - huge",
               "s = 'ab' + 'cd'", "fmt = '%9999' + '9999s'", "f = 5 / two", "sn = '12' + '3'"]
        names = ["two", "one", "zero", "neg", "mone", "big", "negbig", "huge", "neghuge", "s", "fmt", "f", "sn"]
        if member == "fold_ops":
            ops = ["**", "<<", "*", "%", ">>", "//", "/"]
            pairs = [(a, b) for a in names for b in names]
        else:
            ops = ["+", "-", "&", "|", "^", "and", "or", "==", "!=", "<", ">", "<=", ">=", "in", "is"]
            small = ["neg", "zero", "huge", "neghuge", "s", "fmt", "f", "big"]
            pairs = [(a, b) for a in small for b in small]
        lines = list(pre)
        k = 0
        for op in ops:
            for a, b in pairs:
                lines.append(f"r{k} = {a} {op} {b}")
                k += 1
        # second-generation operands: results of the first generation fed back
        lines += ["g1 = neg ** 9", "g2 = g1 ** big", "g3 = g1 << big", "g4 = g1 * huge", "g5 = fmt % s", "g6 = mone ** big",
                  "g7 = zero ** big", "g8 = one ** huge", "g9 = neghuge ** two", "g10 = neg ** negbig", "g11 = f ** big",
                  "g12 = huge ** f", "g13 = s * big", "g14 = big * s", "g15 = neg ** 99999999", "g16 = mone << 99999999",
                  "g17 = neghuge * neghuge", "g18 = g17 * g17", "print(g1)"]
        src = "\n".join(lines) + "\n"
    elif member == "mul_string":
        src = f"s = 'ab' * {10 ** 8}\nt = s + 'c'\nprint(len(t))\n"
    else:
        raise KeyError(member)
    return {"files": {"main.py": src}}


# pow_chain and pow_tower (the two open findings) are run from corpus/C13/, not from the sweep
HOSTILE = ["shift_big", "big_string", "quotes", "mul_string", "fold_ops", "fold_ops_cmp"]

# --------------------------------------------------------------------------------------- running

def timeout_for(n):
    return 60 + 2 * n * n


def materialise(case, root):
    fam, n = case["family"], case["n"]
    if "files" in case:
        spec = {"files": case["files"], "settings": case.get("settings")}
    elif fam.startswith("hostile:"):
        spec = fam_hostile(fam.split(":", 1)[1], n)
    elif fam == "random_calls":
        spec = fam_random_calls(n, case.get("seed", 0))
    else:
        spec = FAMILIES[fam](n)
    src = os.path.join(root, "in")
    os.makedirs(src, exist_ok=True)
    for rel, text in spec["files"].items():
        p = os.path.join(src, rel)
        os.makedirs(os.path.dirname(p), exist_ok=True)
        with open(p, "w") as f:
            f.write(text)
    args = ["run", "-l", "python", "-w", os.path.join(root, "ws"), "-f", "-q"]
    if case["mode"] == "p2":
        args.append("--enable-p2")
    if spec.get("settings"):
        sd = os.path.join(root, "settings")
        shutil.copytree(os.path.join(common.REPO, "default_settings"), sd)
        for rel, text in spec["settings"].items():
            with open(os.path.join(sd, rel), "w") as f:
                f.write(text)
        args += ["--default-settings", sd]
    args.append(src)
    return args, sum(len(t) for t in spec["files"].values())


def run_case(case, scratch):
    """one worker subprocess; returns the worker's JSON plus wall/timeout information"""
    cid = case_id(case)
    root = os.path.join(scratch, cid)
    shutil.rmtree(root, ignore_errors=True)
    os.makedirs(root, exist_ok=True)
    args, src_bytes = materialise(case, root)
    out = os.path.join(root, "out.json")
    to = case.get("timeout") or timeout_for(case["n"])
    # PYTHONPATH makes `import lian` resolve to $LIAN_REPO/src in the subprocess (the /venv editable install
    # points at /repo/src); the worker additionally puts it first on sys.path and reports lian.__file__
    env = dict(os.environ, LIAN_REPO=common.REPO, PYTHONPATH=os.path.join(common.REPO, "src"),
               OMP_NUM_THREADS="1", OPENBLAS_NUM_THREADS="1", MKL_NUM_THREADS="1", PYTHONHASHSEED="0")
    t0 = time.time()
    res = {"case": case, "timeout_s": to, "src_bytes": src_bytes}
    # the limit is CPU seconds of the analyser process (RLIMIT_CPU set by the worker); the wall cap only
    # protects the harness against a machine so loaded that the CPU limit is never reached
    try:
        p = subprocess.run([PY, WORKER, out, str(to)] + args, cwd=root, env=env,
                           stdout=subprocess.PIPE, stderr=subprocess.STDOUT, timeout=WALL_CAP_FACTOR * to)
        res["exit"] = p.returncode
        res["tail"] = p.stdout.decode("utf-8", "replace")[-1500:]
        res["timed_out"] = p.returncode in (-9, -24, 137, 152) and not os.path.exists(out)
    except subprocess.TimeoutExpired as e:
        res["exit"] = None
        res["timed_out"] = False
        res["inconclusive"] = f"wall cap {WALL_CAP_FACTOR * to}s reached before the CPU limit {to}s (machine overloaded)"
        res["tail"] = (e.stdout or b"").decode("utf-8", "replace")[-1500:]
    res["wall"] = round(time.time() - t0, 2)
    if os.path.exists(out):
        try:
            res["w"] = json.load(open(out))
        except Exception as e:
            res["w_error"] = repr(e)
        lf = (res.get("w") or {}).get("lian_file", "")
        if lf and not lf.startswith(os.path.realpath(os.path.join(common.REPO, "src")) + os.sep):
            raise RuntimeError(f"worker imported lian from {lf}, not from {common.REPO}/src")
    if os.path.exists(out + ".stack"):
        res["stack"] = open(out + ".stack").read()[-6000:]
    shutil.rmtree(root, ignore_errors=True)
    return res


def case_id(case):
    sd = f"-s{case['seed']}" if "seed" in case else ""
    return f"{case['family'].replace(':', '_')}-n{case['n']}{sd}-{case['mode']}"


# --------------------------------------------------------------------------------------- checking one run

def site_key(s):
    return tuple(s)


HEAP_DISC = {"name": "heap"}      # set by detect_discipline() from the probe of the live SimpleWorkList


def detect_discipline(pw):
    """which modelled worklist discipline does the live SimpleWorkList (graph mode) exhibit?"""
    wl = pw["probe"].get("wl")
    if not wl:
        return None
    reqs = [{"m": "termination", "op": "wlprobe", "disc": d, "prio": wl["prio"], "ops": wl["ops"]} for d in ("heap", "heapq")]
    reps = drv_batch(reqs)
    for d, r in zip(("heap", "heapq"), reps):
        if r.get("ok") == wl["states"]:
            return d
    return None


def build_requests(w):
    """lvdrv requests replaying the loops observed in one worker output; returns [(tag, info, req)]"""
    reqs = []
    for i, fr in enumerate(w.get("frames", [])):
        if not fr.get("detail") or "events" not in fr:
            continue
        script = [k == "intr" for s, k in fr["events"] if k in ("visit", "intr")]
        if fr.get("heap_mode"):
            req = {"m": "termination", "op": "visit", "disc": HEAP_DISC["name"], "succ": fr["succ"], "V": fr["V"],
                   "R": fr["R"], "loopRounds": fr["loop_rounds"], "cnt0": fr["cnt0"], "prio": fr["prio"],
                   "init": fr["init"], "script": script}
        else:
            req = {"m": "termination", "op": "visit", "disc": "fifo", "succ": fr["succ"], "V": fr["V"],
                   "R": fr["R"], "loopRounds": fr["loop_rounds"], "cnt0": fr["cnt0"],
                   "init": fr["init"], "script": script}
        reqs.append(("visit", i, req))
    if w.get("p3"):
        U = []
        seen = set()
        for ent in w["p3"]:
            for inv in ent["invocations"]:
                for stmt, raw, meth in inv:
                    for k in raw:
                        s = (meth, stmt, k)
                        if s not in seen:
                            seen.add(s); U.append(list(s))
            for s, _ in ent.get("counters", []):
                if tuple(s) not in seen:
                    seen.add(tuple(s)); U.append(list(s))
        nobody = sorted({e[1] for ent in w["p3"] for e in ent["events"] if e[0] == "initFail"})
        entries = [{"entry": ent["entry"], "script": [[[stmt, raw] for stmt, raw, _ in inv] for inv in ent["invocations"]]}
                   for ent in w["p3"]]
        reqs.append(("frames", None, {"m": "termination", "op": "frames", "B": w["consts"]["B"], "U": U,
                                      "nobody": nobody, "entries": entries}))
    for i, ent in enumerate(w.get("p3", [])):
        frs = [fr for fr in w.get("frames", []) if fr.get("entry_idx") == i and fr["phase"] == 3]
        if frs and not any(fr.get("loop_rounds") for fr in frs):
            nU = len({tuple(s) for s, _ in ent.get("counters", [])})
            reqs.append(("bounds", i, {"m": "termination", "op": "bounds", "R": max(fr["R"] for fr in frs),
                                       "B": w["consts"]["B"], "nU": nU, "nV": max(fr["w0"] for fr in frs),
                                       "nE": max(fr["nE_V"] for fr in frs), "dmax": max(fr["dmax"] for fr in frs)}))
    for i, t in enumerate(w.get("taint", [])):
        if t.get("detail") and "acts" in t and not t.get("prop_unstable") and t.get("typing_ok"):
            reqs.append(("taint", i, {"m": "termination", "op": "taint", "n": t["n"],
                                      "slots": list(range(t["n_slots"])), "bits": t["bits"], "src": t["src"],
                                      "acts": t["acts"], "tags": t["tags0"], "queue": t["queue0"]}))
    for i, r in enumerate(w.get("p2_roots", [])):
        if r.get("detail") and r.get("analyzed_before") is not None:
            M = {r["root"], *r["analyzed_before"]}
            for inv in r["invocations"]:
                for _, raw in inv:
                    M.update(raw)
            for e in r["events"]:
                M.add(e[1])
            reqs.append(("prelim", i, {"m": "termination", "op": "prelim", "M": sorted(M), "root": r["root"],
                                       "analyzed": r["analyzed_before"],
                                       "nobody": sorted({e[1] for e in r["events"] if e[0] == "initFail"}),
                                       "script": r["invocations"]}))
    for i, d in enumerate(w.get("dfs", [])):
        if d.get("detail") and "succ" in d and d.get("source", -1) >= 0:
            # recursive visited-set DFS = stack closure with the successors pushed in reverse order
            reqs.append(("dfs", i, {"m": "termination", "op": "closure", "disc": "lifo",
                                    "next": [[u, list(reversed(vs))] for u, vs in enumerate(d["succ"])],
                                    "N": list(range(d["n"])), "init": [d["source"]]}))
    for i, c in enumerate(w.get("closure", [])):
        init = [c["start"]] if c["start"] else []        # `SimpleWorkList(node)`: `if init_data:`
        reqs.append(("closure", i, {"m": "termination", "op": "closure", "disc": "fifo", "next": c["next"],
                                    "N": c["N"], "init": init}))
    for i, s in enumerate(w.get("scopes", [])):
        if s.get("avail") is not None:
            reqs.append(("scopes", i, {"m": "termination", "op": "scopes", "avail": s["avail"]}))
    return reqs


def real_driver_events(ent):
    """real P3 events in the model's vocabulary (costs are not part of the real trace)"""
    return [e for e in ent["events"]]


def strip_costs(evs):
    out = []
    for e in evs:
        if e[0] == "intr":
            out.append(e[:4])
        elif e[0] == "done":
            out.append(e[:2])
        else:
            out.append(e)
    return out


def check_run(res, replies):
    """returns (monitor_failures, correspondence_diffs, stats).  `replies` aligned with build_requests."""
    mon, corr = [], []
    st = {"frames": 0, "frames_detail": 0, "iterations": 0, "visits": 0, "interruptions": 0, "p3_entries": 0,
          "p3_frames": 0, "max_path": 0, "taint_props": 0, "taint_deq": 0, "closures": 0, "scope_tables": 0,
          "max_site_counter": 0, "bound_slack_min": None}
    w = res.get("w")
    if w is None:
        return mon, corr, st
    aborted = w.get("status") != "ok"      # a crashed run leaves truncated traces: counts only, no replay diff
    consts = w["consts"]
    B = consts["B"]
    reqs = build_requests(w)
    by = {}
    for (tag, idx, _), rep in zip(reqs, replies):
        by[(tag, idx)] = rep
    # ---- statement loops
    for i, fr in enumerate(w.get("frames", [])):
        st["frames"] += 1
        st["iterations"] += fr["n_iter"]; st["visits"] += fr["n_visit"]; st["interruptions"] += fr["n_intr"]
        rep = by.get(("visit", i))
        if rep is not None:
            st["frames_detail"] += 1
            if "ok" not in rep:
                corr.append({"loop": "analyze_stmts", "frame": i, "method": fr["method"], "driver_error": rep.get("err")})
                continue
            m = rep["ok"]
            real = [[k, s] for s, k in fr["events"]]
            if real != m["events"]:
                d = first_diff(real, m["events"])
                corr.append({"loop": "analyze_stmts", "frame": i, "method": fr["method"], "phase": fr["phase"],
                             "first_diff_at": d, "real": real[max(0, d - 2):d + 3], "model": m["events"][max(0, d - 2):d + 3]})
            bound = m["bound"]
            if fr["n_iter"] > bound:
                mon.append({"monitor": "stmts_bound", "frame": i, "method": fr["method"], "phase": fr["phase"],
                            "iterations": fr["n_iter"], "bound": bound, "R": fr["R"], "edges": m["edges"]})
            slack = bound - fr["n_iter"]
            st["bound_slack_min"] = slack if st["bound_slack_min"] is None else min(st["bound_slack_min"], slack)
        else:
            # frames beyond the detail cap: the same closed form, evaluated here on the recorded sizes
            cmin = fr["cnt0_uniform"] if fr.get("cnt0_uniform") is not None else 0
            bound = fr["w0"] + max(0, fr["R"] - cmin) * fr["nE_V"] + fr["n_intr"] * (fr["dmax"] + 1)
            if not fr.get("loop_rounds") and fr["n_iter"] > bound:
                mon.append({"monitor": "stmts_bound", "frame": i, "method": fr["method"], "iterations": fr["n_iter"],
                            "bound": bound, "evaluated": "python"})
    # ---- P3 driver
    rep = by.get(("frames", None))
    if w.get("p3"):
        if rep is None or "ok" not in rep:
            corr.append({"loop": "analyze_frame_stack", "driver_error": (rep or {}).get("err")})
        else:
            m = rep["ok"]
            methods = set()
            for ent in w["p3"]:
                for s, _ in ent.get("counters", []):
                    methods.add(s[0]); methods.add(s[2])
                methods.add(ent["entry"])
            for ent, me in zip(w["p3"], m["entries"]):
                st["p3_entries"] += 1; st["p3_frames"] += ent["frames"]
                st["max_path"] = max(st["max_path"], ent["max_path"])
                real = real_driver_events(ent)
                model = strip_costs(me["events"])
                if real != model:
                    d = first_diff(real, model)
                    corr.append({"loop": "analyze_frame_stack", "entry": ent["entry"], "first_diff_at": d,
                                 "real": real[max(0, d - 2):d + 3], "model": model[max(0, d - 2):d + 3]})
                rc = sorted([[list(s), c] for s, c in ent.get("counters", [])])
                mc = sorted([[s, c] for s, c in me["counters"] if c])
                if rc != mc:
                    corr.append({"loop": "call_site_analyze_counter", "entry": ent["entry"],
                                 "real": rc[:6], "model": mc[:6]})
                if sorted(ent.get("paths", [])) != sorted(me["paths"]):
                    corr.append({"loop": "path_manager", "entry": ent["entry"],
                                 "real": sorted(ent.get("paths", []))[:4], "model": sorted(me["paths"])[:4]})
                nU = len({tuple(s) for s, _ in ent.get("counters", [])})
                fb = 1 + (B + 1) * nU          # framesBound B nU, with U = the sites this entry touched
                if ent["frames"] > fb:
                    mon.append({"monitor": "frames_bound", "entry": ent["entry"], "frames": ent["frames"], "bound": fb,
                                "sites": nU, "B": B})
                if ent["interruptions"] > (B + 1) * nU:
                    mon.append({"monitor": "interruptions_bound", "entry": ent["entry"],
                                "interruptions": ent["interruptions"], "bound": (B + 1) * nU})
                if len(ent["events"]) > 4 * (B + 1) * nU + 2:
                    mon.append({"monitor": "driver_bound", "entry": ent["entry"], "steps": len(ent["events"]),
                                "bound": 4 * (B + 1) * nU + 2})
                if ent["max_path"] > len(methods) + 1:
                    mon.append({"monitor": "path_len_bound", "entry": ent["entry"], "max_path": ent["max_path"],
                                "bound": len(methods) + 1})
                # frames created per call site <= B + 1
                per_site = {}
                for e in ent["events"]:
                    if e[0] == "push":
                        per_site[tuple(e[1])] = per_site.get(tuple(e[1]), 0) + 1
                if per_site:
                    st["max_site_counter"] = max(st["max_site_counter"], max(per_site.values()))
                worst = [(s, c) for s, c in per_site.items() if c > B + 1]
                if worst:
                    mon.append({"monitor": "per_site_budget", "entry": ent["entry"], "site": list(worst[0][0]),
                                "frames": worst[0][1], "bound": B + 1})
    # ---- composition: all statement-loop iterations of an entry's frames + its driver iterations
    for i, ent in enumerate(w.get("p3", [])):
        rep = by.get(("bounds", i))
        if rep is not None and "ok" in rep:
            total = sum(fr["n_iter"] for fr in w["frames"] if fr.get("entry_idx") == i and fr["phase"] == 3) + len(ent["events"])
            if total > rep["ok"]["entry"]:
                mon.append({"monitor": "total_bound", "entry": ent["entry"], "total": total, "bound": rep["ok"]["entry"]})
            st["total_slack_min"] = min(st.get("total_slack_min", 10 ** 12), rep["ok"]["entry"] - total)
    # ---- taint
    for i, t in enumerate(w.get("taint", [])):
        st["taint_props"] += 1; st["taint_deq"] += t["n_deq"]
        rep = by.get(("taint", i))
        if rep is not None:
            if "ok" not in rep:
                corr.append({"loop": "propagate_taint", "index": i, "driver_error": rep.get("err")})
                continue
            m = rep["ok"]
            if t["dequeued"] != m["dequeued"]:
                d = first_diff(t["dequeued"], m["dequeued"])
                corr.append({"loop": "propagate_taint", "index": i, "first_diff_at": d,
                             "real": t["dequeued"][max(0, d - 2):d + 3], "model": m["dequeued"][max(0, d - 2):d + 3]})
            if t["n_deq"] > m["bound"]:
                mon.append({"monitor": "taint_bound", "index": i, "dequeues": t["n_deq"], "bound": m["bound"]})
        elif t.get("n", -1) >= 0:
            # (|slots|*bits + nodes + q0) * wmax with slots <= 2*nodes, bits = 1 + tag bits, wmax <= 1 + edges
            bits = max(1, int(t.get("tag") or 0).bit_length())
            bound = (2 * t["n"] * bits + 2 * t["n"]) * (1 + t["edges"])
            if t["n_deq"] > bound:
                mon.append({"monitor": "taint_bound", "index": i, "dequeues": t["n_deq"], "bound": bound, "evaluated": "python"})
    # ---- path reconstruction (visited-set DFS), one per flow found
    st["flows_found"] = int(w.get("flows_found") or 0)
    for i, d in enumerate(w.get("dfs", [])):
        st["dfs_runs"] = st.get("dfs_runs", 0) + 1
        st["dfs_expansions"] = st.get("dfs_expansions", 0) + d["expansions"]
        if d["expansions"] > d["n"]:
            mon.append({"monitor": "dfs_bound", "index": i, "expansions": d["expansions"], "nodes": d["n"],
                        "edges": d["edges"], "bound": d["n"]})
        rep = by.get(("dfs", i))
        if rep is not None:
            if "ok" not in rep:
                corr.append({"loop": "reconstruct_define_use_path", "index": i, "driver_error": rep.get("err")})
                continue
            order = rep["ok"]["visited"]                 # the model's pre-order over everything reachable
            real = list(d["expanded"])
            # the real search stops at the sink (which it marks but does not expand)
            want = order[:order.index(d["sink"])] if d["sink"] in order else order
            if real != want:
                k = first_diff(real, want)
                corr.append({"loop": "reconstruct_define_use_path", "index": i, "first_diff_at": k,
                             "real": real[max(0, k - 2):k + 3], "model": want[max(0, k - 2):k + 3]})
            if len(real) > rep["ok"]["bound"]:
                mon.append({"monitor": "dfs_bound", "index": i, "expansions": len(real), "bound": rep["ok"]["bound"]})
    # ---- cost of one statement analysis
    sc = w.get("stmt_cpu") or {}
    st["stmt_cpu_max_ms"] = int(1000 * (sc.get("max") or 0))
    if (sc.get("max") or 0) > STMT_CPU_LIMIT:
        mon.append({"monitor": "stmt_cpu", "cpu_s": sc["max"], "limit_s": STMT_CPU_LIMIT, "statement": sc.get("argmax")})
    # ---- P2 driver (analyze_method): interruptions <= |methods|, frames <= 1 + |methods|^2 per root (counts; the
    # exact replay is in the prelim requests)
    for i, r in enumerate(w.get("p2_roots", [])):
        st["p2_roots"] = st.get("p2_roots", 0) + 1
        st["p2_interruptions"] = st.get("p2_interruptions", 0) + r["interruptions"]
        if r["interruptions"] > r["n_methods"]:
            mon.append({"monitor": "p2_interruptions_bound", "root": r["root"], "interruptions": r["interruptions"],
                        "bound": r["n_methods"]})
        rep = by.get(("prelim", i))
        if rep is not None:
            if "ok" not in rep:
                corr.append({"loop": "analyze_method", "root": r["root"], "driver_error": rep.get("err")})
                continue
            m = rep["ok"]
            if r["events"] != m["events"]:
                d = first_diff(r["events"], m["events"])
                corr.append({"loop": "analyze_method", "root": r["root"], "first_diff_at": d,
                             "real": r["events"][max(0, d - 2):d + 3], "model": m["events"][max(0, d - 2):d + 3]})
            if r["interruptions"] > m["bound"] or len(r["events"]) > 4 * m["bound"] + 2:
                mon.append({"monitor": "p2_driver_bound", "root": r["root"], "interruptions": r["interruptions"],
                            "events": len(r["events"]), "methods": m["bound"]})
    # ---- closures
    for i, c in enumerate(w.get("closure", [])):
        st["closures"] += 1
        rep = by.get(("closure", i))
        if rep is None or "ok" not in rep:
            corr.append({"loop": "search_impacted_parent_nodes", "index": i, "driver_error": (rep or {}).get("err")})
            continue
        m = rep["ok"]
        if c["pops"] != m["pops"] or sorted(c.get("result", [])) != sorted(m["visited"]):
            corr.append({"loop": "search_impacted_parent_nodes", "index": i, "real": c["pops"][:12], "model": m["pops"][:12]})
        if len(c["pops"]) > m["bound"]:
            mon.append({"monitor": "closure_bound", "index": i, "pops": len(c["pops"]), "bound": m["bound"]})
    for i, s in enumerate(w.get("scopes", [])):
        st["scope_tables"] += 1
        rep = by.get(("scopes", i))
        if rep is None:
            continue
        if "ok" not in rep:
            corr.append({"loop": "summarize_symbol_decls", "index": i, "driver_error": rep.get("err")})
            continue
        m = rep["ok"]
        if not m["ok"]:
            corr.append({"loop": "summarize_symbol_decls", "index": i,
                         "what": "scope table violates 'available scope ids are >= 0 and smaller than the scope they are available from'; the fuel-free copy is not faithful on it"})
        elif not parents_first(s["avail"]):
            # the pop ORDER then depends on CPython's set iteration order, which the model does not know
            st["scope_tables_skipped"] = st.get("scope_tables_skipped", 0) + 1
        elif [sorted(x) for x in s["pops"]] != [sorted(x) for x in m["pops"]]:
            # parents-first table: every inner loop pops the parent and then the not-yet-finished ids of its
            # (closed) set, none of which pushes anything: compared as multisets per scope
            d = first_diff([sorted(x) for x in s["pops"]], [sorted(x) for x in m["pops"]])
            corr.append({"loop": "summarize_symbol_decls", "index": i, "first_diff_at": d,
                         "real": s["pops"][max(0, d - 1):d + 2], "model": m["pops"][max(0, d - 1):d + 2]})
    if aborted:
        corr = []
    return mon, corr, st


def parents_first(avail):
    """every available id is <= 0, or the key of an EARLIER row (its own closure is finished), or not a key at all"""
    keys = [k for k, _ in avail]
    pos = {k: i for i, k in enumerate(keys)}
    for i, (k, ids) in enumerate(avail):
        for y in ids:
            if y > 0 and y in pos and pos[y] >= i:
                return False
    return True


def first_diff(a, b):
    for i, (x, y) in enumerate(zip(a, b)):
        if x != y:
            return i
    return min(len(a), len(b))


def run_monitors(res):
    """status-level monitors: crash / exit / timeout"""
    out = []
    w = res.get("w")
    if res.get("timed_out"):
        out.append({"monitor": "timeout", "timeout_s": res["timeout_s"], "stack_tail": innermost_lian_frames(res.get("stack", ""))})
    elif w is None:
        out.append({"monitor": "no_output", "exit": res.get("exit"), "tail": res.get("tail", "")[-400:]})
    elif w["status"] == "exception":
        out.append({"monitor": "crash", "exc": w["exc"]["type"], "msg": w["exc"]["msg"][:160],
                    "where": [f"{f[0]}:{f[1]}" for f in w["exc"]["frames"][-4:]]})
    elif w["status"] == "hard_stop":
        out.append(dict(w.get("hard_stop") or {}, monitor="hard_bound"))
    elif w["status"] == "exit":
        out.append({"monitor": "sys_exit", "code": w.get("exit_code"), "tail": res.get("tail", "")[-400:]})
    return out


def innermost_lian_frames(stack):
    fr = []
    for line in stack.split("\n"):
        line = line.strip()
        if line.startswith("File ") and "/src/lian/" in line:
            fn = line.split("/src/lian/", 1)[1].split('"')[0]
            func = line.rsplit(" in ", 1)[-1]
            fr.append(f"{fn}:{func}")
    return fr[:4]


# --------------------------------------------------------------------------------------- known findings (narrow)

def match_known(case, failure):
    """returns the id of the OPEN known finding this failure is, or None."""
    fam = case["family"]
    if failure["monitor"] == "crash":
        where = " ".join(failure.get("where", []))
        if (fam.startswith("hostile:") and failure["exc"] in ("ValueError", "OverflowError")
                and ("compute_two_states" in where or "strict_eval" in where)):
            return "C13/fold-crash"
        if (fam == "corpus:while_true_else" and failure["exc"] == "IndexError" and "analyze_while_stmt" in where):
            return "C13/while-true-else"
    if failure["monitor"] == "timeout":
        st = failure.get("stack_tail") or []
        if fam.startswith("hostile:") and st and st[0].endswith("util/util.py:strict_eval") \
                and any("compute_two_states" in s for s in st[:3]):
            return "C13/fold-hang"
    return None


# --------------------------------------------------------------------------------------- timing

def fit_exponent(points):
    """least-squares slope of log t vs log n; points = [(n, t)]"""
    pts = [(math.log(n), math.log(max(t, TIME_FLOOR))) for n, t in points]
    if len(pts) < 2:
        return None
    mx = sum(p[0] for p in pts) / len(pts); my = sum(p[1] for p in pts) / len(pts)
    den = sum((p[0] - mx) ** 2 for p in pts)
    if den == 0:
        return None
    return sum((p[0] - mx) * (p[1] - my) for p in pts) / den


def analysis_time(w):
    return sum(w.get("phase_s", {}).values())


# --------------------------------------------------------------------------------------- main

def sweep_cases(tier, widen, seed=0):
    ns = [2, 4, 8] if tier == "quick" else [2, 4, 8, 16, 32, 64]
    if tier == "quick" and widen:
        ns = [2, 4, 8, 16]
    cases = []
    only = [x for x in os.environ.get("C13_ONLY", "").split(",") if x]     # development knob: restrict the sweep
    for fam in FAMILIES:
        if only and fam not in only:
            continue
        for mode in ("p3", "p2"):
            if tier == "quick" and ((fam in TAINT_P3_ONLY_IN_QUICK and mode == "p2")
                                    or (fam in TAINT_P2_ONLY_IN_QUICK and mode == "p3")):
                continue        # the taint engine is the same in both modes; the recognised sinks are not
            for n in ns:
                if tier == "thorough" and n == 64 and fam in ("cyclic_imports",):
                    pass
                c = {"family": fam, "n": n, "mode": mode}
                if fam == "random_calls":
                    c["seed"] = seed
                cases.append(c)
    hostile_modes = ("p3",) if tier == "quick" else ("p3", "p2")
    for mem in HOSTILE:
        if only and "hostile" not in only:
            continue
        for mode in hostile_modes:
            for n in ([4] if tier == "quick" else [4, 32]):
                if mem in ("shift_big", "mul_string", "fold_ops", "fold_ops_cmp") and n != 4:
                    continue
                c = {"family": "hostile:" + mem, "n": n, "mode": mode}
                if mem.startswith("fold_ops"):
                    c["timeout"] = timeout_for(8)     # ~1000-2200 statements: budget of a size-8 program (clean: 20-60 CPU-s)
                cases.append(c)
    # longest runs first (the hostile members analyse ~1000 statements each): shortest makespan on the worker pool
    cases.sort(key=lambda c: 0 if c["family"].startswith("hostile:") else 1)
    return cases


def corpus_cases():
    out = []
    d = os.path.join(common.VERIF, "corpus", "C13")
    for f in sorted(glob.glob(os.path.join(d, "*.json"))):
        j = json.load(open(f))
        for mode in j.get("modes", ["p3"]):
            c = {"family": j["family"], "n": j.get("n", 1), "mode": mode, "corpus": os.path.basename(f)}
            if "files" in j:
                c["files"] = j["files"]
            if "settings" in j:
                c["settings"] = j["settings"]
            if "timeout" in j:
                c["timeout"] = j["timeout"]
            out.append(c)
    return out


def load_fingerprints():
    try:
        return json.load(open(FP_FILE))
    except Exception:
        return {}


def run(ctx):
    common.use_repo()
    proofs_ok = ctx.proofs()
    tier = ctx.tier
    scratch = os.path.join(common.SCRATCH_ROOT, f"lv-{os.getpid()}")
    os.makedirs(scratch, exist_ok=True)
    try:
        _run(ctx, proofs_ok, tier, scratch)
    finally:
        shutil.rmtree(scratch, ignore_errors=True)


def _run(ctx, proofs_ok, tier, scratch):
    # 1. cases: corpus first, then the sweep (the smallest sweep member doubles as the parameter probe)
    cases = corpus_cases() + sweep_cases(tier, False, ctx.seed)
    workers = int(os.environ.get("C13_WORKERS", str(min(14, os.cpu_count() or 4))))
    t0 = time.time()
    with ThreadPoolExecutor(max_workers=workers) as ex:
        results = list(ex.map(lambda c: run_case(c, scratch), cases))
    probe = next((r for r in results if r.get("w") and r["case"]["family"] in FAMILIES), None)
    if probe is None:
        raise RuntimeError("no sweep run produced output: " + results[0].get("tail", "")[-600:])
    pw = probe["w"]
    ref = load_fingerprints()
    changed = sorted(k for k, v in pw["fingerprints"].items() if ref.get("fingerprints", {}).get(k) not in (None, v))
    breaks = []
    if pw["probe"].get("callee_id_in_callpath") is not False:
        breaks.append({"what": "`callee_id in CallPath` is no longer always False: the model of compute_target_method_states omits that (dead) cut", "probe": pw["probe"]})
    if pw["probe"].get("count_cycles_selfself") != 2:
        breaks.append({"what": "CallPath.count_cycles changed", "probe": pw["probe"]})
    disc = detect_discipline(pw)
    if disc is None:
        breaks.append({"what": "the live SimpleWorkList (graph mode) matches neither modelled discipline (heappush + pop(0), heappush + heappop)",
                       "probe": pw["probe"].get("wl_error") or "states differ"})
    else:
        HEAP_DISC["name"] = disc
    ctx.cov["worklist_discipline"] = disc
    for k in ("R_prelim", "R_global", "B"):
        if not isinstance(pw["consts"].get(k), int) or pw["consts"][k] < 0:
            breaks.append({"what": f"constant {k} is not a natural number", "value": pw["consts"].get(k)})
    ctx.cov["params"] = pw["consts"]
    ctx.cov["fingerprints"] = pw["fingerprints"]
    ctx.cov["fingerprints_changed"] = changed
    # 2. an anchored function changed since the fingerprints were recorded: widen the quick sweep
    if changed and tier == "quick":
        have = {case_id(c) for c in cases}
        extra = [c for c in sweep_cases(tier, True, ctx.seed) if case_id(c) not in have]
        with ThreadPoolExecutor(max_workers=workers) as ex:
            results += list(ex.map(lambda c: run_case(c, scratch), extra))
        cases += extra
    sweep_wall = time.time() - t0

    # 3. model replays in one driver batch
    all_reqs, spans = [], []
    for res in results:
        r = build_requests(res["w"]) if res.get("w") else []
        spans.append((len(all_reqs), len(all_reqs) + len(r)))
        all_reqs += [x[2] for x in r]
    replies = drv_batch(all_reqs, timeout=3000) if all_reqs else []

    inconclusive = [case_id(r["case"]) + ": " + r["inconclusive"] for r in results if r.get("inconclusive")]
    if inconclusive:
        raise RuntimeError("runs inconclusive (not a verdict about C13): " + "; ".join(inconclusive[:4]))
    failures, corr_all = [], []          # (case, failure dict)
    totals = {}
    nontrivial = set()
    per_case = []
    for res, (a, b) in zip(results, spans):
        case = res["case"]
        mon = run_monitors(res)
        m2, corr, st = check_run(res, replies[a:b])
        mon += m2
        for k, v in st.items():
            if isinstance(v, int) and k not in ("bound_slack_min", "total_slack_min"):
                totals[k] = totals.get(k, 0) + v if k not in ("max_path", "max_site_counter", "stmt_cpu_max_ms") else max(totals.get(k, 0), v)
        if st.get("bound_slack_min") is not None:
            totals["bound_slack_min"] = min(totals.get("bound_slack_min", 10 ** 9), st["bound_slack_min"])
        if st.get("total_slack_min") is not None:
            totals["total_slack_min"] = min(totals.get("total_slack_min", 10 ** 12), st["total_slack_min"])
        for f in mon:
            failures.append((case, f))
        for c in corr:
            corr_all.append((case, c))
        w = res.get("w") or {}
        per_case.append({"case": case_id(case), "wall": res["wall"], "status": w.get("status", "timeout" if res.get("timed_out") else "none"),
                         "analysis_s": round(analysis_time(w), 3) if w else None, "frames": st["frames"],
                         "iterations": st["iterations"], "p3_frames": st["p3_frames"], "interruptions": st["interruptions"],
                         "taint_deq": st["taint_deq"]})
        if w and (st["interruptions"] > 0 or st["taint_deq"] > 0 or st["iterations"] > 20):
            nontrivial.add(case_id(case))
        ctx.cov["evaluations"] += 1

    # 4. exponents per family x mode
    exps = {}
    groups = {}
    for res in results:
        c = res["case"]
        if c["family"] in FAMILIES and res.get("w") and res["w"]["status"] == "ok":
            groups.setdefault((c["family"], c["mode"]), []).append((c["n"], analysis_time(res["w"]), res["wall"]))
    for (fam, mode), pts in sorted(groups.items()):
        pts.sort()
        e = fit_exponent([(n, t) for n, t, _ in pts])
        exps[f"{fam}/{mode}"] = {"exponent": None if e is None else round(e, 2),
                                 "points": [[n, round(t, 3), wl] for n, t, wl in pts]}
        if e is not None and e > EXP_LIMIT:
            big = max(pts)
            failures.append(({"family": fam, "n": big[0], "mode": mode, **({"seed": ctx.seed} if fam == "random_calls" else {})},
                             {"monitor": "exponent", "exponent": round(e, 2), "limit": EXP_LIMIT,
                              "points": [[n, round(t, 3)] for n, t, _ in pts]}))

    ctx.cov["distinct_nontrivial"] = len(nontrivial)
    ctx.cov["rule"] = (f"{len(corpus_cases())} corpus runs + sweep of {len(FAMILIES)} adversarial families x n in "
                       f"{sorted({c['n'] for c in cases if c['family'] in FAMILIES})} x (P3 only | --enable-p2) + "
                       f"{len(HOSTILE)} hostile-constant members; each run = one real lian `run` in an instrumented subprocess; "
                       "non-trivial = distinct (family, n, mode) whose run had >= 1 call interruption, >= 1 taint dequeue or > 20 statement-loop iterations")
    ctx.cov["exhaustive"] = False
    ctx.cov["loops_observed"] = totals
    ctx.cov["exponents"] = exps
    ctx.cov["sweep_wall_s"] = round(sweep_wall, 1)
    ctx.cov["samples"] = per_case[:6] + per_case[-3:]
    ctx.cov["runs"] = per_case
    ctx.cov["correspondence"] = {"driver_requests": len(all_reqs), "differences": len(corr_all)}
    ctx.cov["outside_theorems"] = ("cost of ONE statement analysis (state creation, cartesian products, eval), pandas/feather I/O, "
                                   "wall-clock time: monitored by timeout and exponent fit only")

    # 5. verdicts
    reported = 0
    seen_known = set()
    for case, f in failures:
        kid = match_known(case, f)
        if kid and kid in ctx.finding_ids("open"):
            ctx.known(kid, f"{case_id(case)}: {f['monitor']} {f.get('exc', '')} {' '.join(f.get('where', f.get('stack_tail', []))[-2:])}")
            seen_known.add(kid)
            continue
        if reported < 5:
            ctx.violation({"what": f"C13 monitor `{f['monitor']}` failed on the real analyser",
                           "family": case["family"], "n": case["n"], "mode": case["mode"], "gen_seed": case.get("seed"),
                           "files": case.get("files"), "settings": case.get("settings"),
                           "timeout": case.get("timeout"), "failure": f})
        reported += 1
    if reported == 0 and (corr_all or breaks or not proofs_ok):
        c0 = corr_all[0] if corr_all else (None, None)
        ctx.violation({"what": "proof obligation or model/code correspondence broken; no run of this sweep violated a C13 monitor",
                       "broken_theorems": ctx.audit["failures"], "structure_breaks": breaks,
                       "correspondence": {"model": "LianVerif.Termination (lvdrv model `termination`)",
                                          "case": c0[0], "difference": c0[1], "differences_in_run": len(corr_all)}},
                      no_input=True)
    if os.environ.get("C13_UPDATE_FINGERPRINTS") == "1" and reported == 0 and not corr_all and not breaks and proofs_ok:
        json.dump({"fingerprints": pw["fingerprints"], "consts": pw["consts"]}, open(FP_FILE, "w"), indent=1, sort_keys=True)


def replay(rp):
    """re-run the real analyser on the replayed (family, n, mode); 1 if the recorded monitor still fails"""
    common.use_repo()
    if rp.get("no_failing_input_found"):
        print(json.dumps({"note": "no concrete input in this replay (proof/correspondence break)"}))
        return 0
    scratch = os.path.join(common.SCRATCH_ROOT, f"lv-{os.getpid()}")
    os.makedirs(scratch, exist_ok=True)
    try:
        case = {"family": rp["family"], "n": rp["n"], "mode": rp["mode"]}
        if rp.get("gen_seed") is not None:
            case["seed"] = rp["gen_seed"]
        if rp.get("files"):
            case["files"] = rp["files"]
        if rp.get("settings"):
            case["settings"] = rp["settings"]
        if rp.get("timeout"):
            case["timeout"] = rp["timeout"]
        want = rp["failure"]["monitor"]
        if want == "exponent":
            ns = [p[0] for p in rp["failure"]["points"]]
            pts = []
            for n in ns:
                r = run_case(dict(case, n=n), scratch)
                if r.get("w") and r["w"]["status"] == "ok":
                    pts.append((n, analysis_time(r["w"])))
                else:
                    print(json.dumps({"n": n, "status": "failed"})); return 1
            e = fit_exponent(pts)
            print(json.dumps({"exponent": e, "points": pts}))
            return 1 if e is not None and e > EXP_LIMIT else 0
        res = run_case(case, scratch)
        mon = run_monitors(res)
        if res.get("w"):
            HEAP_DISC["name"] = detect_discipline(res["w"]) or "heap"
            reqs = build_requests(res["w"])
            replies = drv_batch([x[2] for x in reqs]) if reqs else []
            m2, corr, st = check_run(res, replies)
            mon += m2
        print(json.dumps({"monitors_failing": mon[:5]}, default=str))
        return 1 if any(f["monitor"] == want for f in mon) else 0
    finally:
        shutil.rmtree(scratch, ignore_errors=True)
