"""C20 — entry points and unit initialisers are selected exactly as configured.

Three layers, all run on every invocation:

1. primitives: Python `in` on strings, os.path.basename and
   util.check_file_processing_flag_and_extract_lang vs the Lean definitions (exhaustive-small);
2. in-process: the real `P1BasicSemanticAnalysis.run` loop (real EntryPointGenerator, real DataModel
   scope tables, real EntryPointsLoader; scope analysis and everything after the entry-point export
   stubbed) on generated settings directories x unit/scope tables, compared step by step with the
   Lean model `EntryPoints.runP1` (model "entrypoints") and with an independent declarative oracle;
3. full runs: `lian run` as a subprocess on generated multi-file Python projects x entry rule sets;
   the saved semantic_p1/entry_points file, the root `Analyzing <method …>` console lines and the
   reported taint flows are compared with the model/oracle applied to the *real* unit table and
   scope hierarchy of that run.

Verdicts follow DESIGN §2.5: oracle/monitor failure on real output -> shrink -> VIOLATION (or
KNOWN-FINDING for a recorded open finding); real != model while the oracle passes everywhere, or a
proof obligation broken -> VIOLATION … no-failing-input-found.
"""
import contextlib, hashlib, inspect, io, itertools, json, os, re, shutil, subprocess, sys, time, types
from concurrent.futures import ThreadPoolExecutor
import common
from common import drv_batch, drv_ok

M = "entrypoints"
_L = {}


def L():
    """lian modules, imported lazily from $LIAN_REPO/src as they are now."""
    if not _L:
        common.use_repo()
        import yaml
        import pandas as pd
        from lian.config import config
        from lian.config.constants import LIAN_SYMBOL_KIND
        from lian.util import util
        from lian.util.data_model import DataModel
        from lian.util.loader import EntryPointsLoader
        from lian.basics import entry_points as ep
        from lian.basics import basic_analysis as ba
        _L.update(yaml=yaml, pd=pd, config=config, KIND=LIAN_SYMBOL_KIND, util=util, DataModel=DataModel,
                  EntryPointsLoader=EntryPointsLoader, ep=ep, ba=ba, REQ=config.ENTRY_POINTS_FILE)
    return types.SimpleNamespace(**_L)


def jsonable(x):
    """evidence / replay files must be strict JSON: NaN cells are written as the marker string"""
    if isinstance(x, float) and x != x:
        return "<NaN>"
    if isinstance(x, dict):
        return {k: jsonable(v) for k, v in x.items()}
    if isinstance(x, (list, tuple)):
        return [jsonable(v) for v in x]
    return x


def unjson(x):
    if x == "<NaN>":
        return float("nan")
    if isinstance(x, dict):
        return {k: unjson(v) for k, v in x.items()}
    if isinstance(x, list):
        return [unjson(v) for v in x]
    return x


def model_batch(reqs):
    """replies of the Lean driver, or None when the Lean build is broken (then only the oracle layers run and the
    verdict is 'proof obligation broken', DESIGN §2.5)"""
    if not common.LeanSide.build()[0]:
        return None
    return drv_ok(drv_batch(reqs))


def n_workers():
    """size of the subprocess pool for full lian runs (LV_WORKERS overrides; default 8)"""
    return max(1, min(os.cpu_count() or 4, int(os.environ.get("LV_WORKERS", "8"))))


def scratch_root():
    d = os.path.join(common.SCRATCH_ROOT, f"lv-{os.getpid()}")
    os.makedirs(d, exist_ok=True)
    return d


# =====================================================================================
# oracle: the statement of C20 for the selection part, written declaratively
# =====================================================================================

def o_file_loaded(name, req):
    return name == req or (name.endswith("-" + req) and not name.startswith("-"))


def o_unit_ok(r, u):
    lang = r.get("lang", "")
    uid = r.get("unit_id", -1)
    base = u["path"].rsplit("/", 1)[-1]
    return ((not lang or lang == u["lang"]) and (uid < 0 or uid == u["id"])
            and r.get("unit_name", "") in base and r.get("unit_path", "") in u["path"])


def o_method_ok(r, mid, name, attrs):
    rid = r.get("method_id", -1)
    if rid >= 0:
        return rid == mid
    ml = r.get("method_list", [])
    if ml and name not in ml:
        return False
    ra = r.get("attrs", [])
    if ra and (attrs == "" or not all(a in attrs for a in ra)):
        return False
    if r.get("args", "") or r.get("return_type", ""):
        return False
    return True


def norm(x):
    """`v if util.is_available(v) else ""` for a scope cell (None / NaN / "" -> "")."""
    if x is None or (isinstance(x, float) and x != x):
        return ""
    return x


def o_unit_skipped(u):
    return "{{" in u["path"] or u.get("gir_empty", False)


def oracle_select(rules, units):
    return sorted({m[0] for u in units if not o_unit_skipped(u) for m in u["methods"]
                   if any(o_unit_ok(r, u) and o_method_ok(r, m[0], norm(m[1]), norm(m[2])) for r in rules)})


def oracle_case(case, walk, req):
    loaded = [p for p in walk if o_file_loaded(os.path.basename(p), req)]
    data = dict((p, d) for p, d in case["files"])
    rules = [r for p in loaded for r in (data[p] or [])]
    return {"loaded": sorted(loaded), "selected": oracle_select(rules, case["units"])}


# =====================================================================================
# settings directories
# =====================================================================================

def write_settings(sdir, files, extra_dirs=()):
    L_ = L()
    os.makedirs(sdir, exist_ok=True)
    for rel, data in files:
        p = os.path.join(sdir, rel)
        os.makedirs(os.path.dirname(p), exist_ok=True)
        with open(p, "w") as f:
            if data is not None:
                f.write(L_.yaml.safe_dump(data, default_flow_style=False, allow_unicode=True))
    for d in extra_dirs:
        os.makedirs(os.path.join(sdir, d), exist_ok=True)


def walk_order(sdir):
    """relative paths of all files, in the order `_load_settings` meets them"""
    out = []
    for root, _dirs, files in os.walk(sdir):
        for fn in files:
            out.append(os.path.relpath(os.path.join(root, fn), sdir))
    return out


# =====================================================================================
# layer 2: the real P1.run loop in-process
# =====================================================================================

class _Stop(Exception):
    pass


_PARSED = []
_PATCHED = [False]


def _patch_once():
    if _PATCHED[0]:
        return
    L_ = L()
    orig = L_.ep.EntryPointGenerator._parse_config_file

    def wrapped(self, file_path):
        _PARSED.append(file_path)
        return orig(self, file_path)
    L_.ep.EntryPointGenerator._parse_config_file = wrapped

    class StubScopeAnalysis:
        def __init__(self, lian, loader, unit_id, unit_info, unit_gir):
            self.loader, self.unit_id = loader, unit_id

        def analyze(self):
            return self.loader.scope_table(self.unit_id)
    L_.ba.UnitScopeHierarchyAnalysis = StubScopeAnalysis
    _PATCHED[0] = True


NOISE_KINDS = ("CLASS_KIND", "VARIABLE_DECL", "UNIT_KIND", "BLOCK_KIND")


class StubLoader:
    def __init__(self, case, ep_path):
        L_ = L()
        self.case = case
        self.epl = L_.EntryPointsLoader(ep_path)
        rows = [{"module_id": u["id"], "symbol_name": os.path.basename(u["path"]).split(".")[0],
                 "unit_path": u["path"], "symbol_type": 1, "unit_id": u["id"], "lang": u["lang"],
                 "unit_ext": os.path.splitext(u["path"])[1], "original_path": ""} for u in case["units"]]
        self.units = L_.DataModel(rows) if rows else []
        self.by_id = {u["id"]: u for u in case["units"]}

    def get_all_unit_info(self):
        return self.units

    def get_unit_gir(self, unit_id):
        return None if self.by_id[unit_id].get("gir_empty") else [1]

    def scope_table(self, unit_id):
        L_ = L()
        u = self.by_id[unit_id]
        rows = [{"unit_id": unit_id, "stmt_id": 0, "scope_id": -1, "parent_stmt_id": -1,
                 "scope_kind": L_.KIND.UNIT_KIND, "name": "", "attrs": "", "supers": "", "alias": "", "source": ""}]
        items = [("m", m) for m in u["methods"]] + [("n", n) for n in u.get("noise", [])]
        items.sort(key=lambda t: t[1][0])
        for tag, it in items:
            if tag == "m":
                kind, name, attrs = L_.KIND.METHOD_KIND, it[1], it[2]
            else:
                kind, name, attrs = getattr(L_.KIND, it[1]), it[2], ""
            rows.append({"unit_id": unit_id, "stmt_id": it[0], "scope_id": 0, "parent_stmt_id": 0,
                         "scope_kind": kind, "name": name, "attrs": attrs, "supers": "", "alias": "", "source": ""})
        return L_.DataModel(rows)

    def save_entry_points(self, eps):
        return self.epl.save(eps)

    def get_entry_points(self):
        return self.epl.get_entry_points()

    def export_scope_hierarchy(self):
        pass

    def export_entry_points(self):
        self.epl.export()
        raise _Stop()


def real_inproc(case, workdir, settings_dir=None):
    """Run the real code on one case.  Returns the observation dict (or {"exception": …}).
    `settings_dir`: use this existing directory instead of writing case["files"]."""
    L_ = L()
    _patch_once()
    if os.path.exists(workdir):
        shutil.rmtree(workdir)
    if settings_dir is None:
        sdir = os.path.join(workdir, "settings")
        write_settings(sdir, case["files"], case.get("dirs", ()))
    else:
        sdir = settings_dir
        os.makedirs(workdir, exist_ok=True)
    ep_path = os.path.join(workdir, "entry_points")
    loader = StubLoader(case, ep_path)
    options = types.SimpleNamespace(default_settings=sdir, incremental=False, nomock=True, quiet=True, debug=False)
    lian = types.SimpleNamespace(options=options, event_manager=None, extern_system=None, loader=loader, resolver=None)
    obs = {"walk": walk_order(sdir)}
    del _PARSED[:]
    err = io.StringIO()
    try:
        with contextlib.redirect_stderr(err), contextlib.redirect_stdout(io.StringIO()):
            p1 = L_.ba.P1BasicSemanticAnalysis(lian)
            gen = p1.entry_points
            obs["loaded"] = [os.path.relpath(p, sdir) for p in _PARSED]
            rules = list(gen.entry_point_rules)
            obs["nrules"] = len(rules)
            ident = {id(r): i for i, r in enumerate(rules)}
            analysed, cands, trace = [], [], []
            f_orig, c_orig = gen.filter_rule_by_unit_info, gen.collect_entry_points_from_unit_scope
            idx_of = {u["id"]: i for i, u in enumerate(case["units"])}

            def f_wrap(unit_info):
                r = f_orig(unit_info)
                cands.append([ident[id(x)] for x in r])
                return r

            def c_wrap(unit_info, unit_scope):
                analysed.append(idx_of[int(unit_info.module_id)])
                r = c_orig(unit_info, unit_scope)
                trace.append([sorted(int(x) for x in gen.entry_point_results),
                              sorted(int(x) for x in loader.epl.entry_points)])
                return r
            gen.filter_rule_by_unit_info = f_wrap
            gen.collect_entry_points_from_unit_scope = c_wrap
            try:
                p1.run()
                obs["exception"] = "P1.run returned without exporting entry points"
            except _Stop:
                pass
            obs.update(analysed=analysed, cands=cands, trace=trace,
                       selected=sorted(int(x) for x in loader.get_entry_points()))
            if os.path.exists(ep_path):
                back = L_.EntryPointsLoader(ep_path)
                back.restore()
                obs["exported"] = sorted(int(x) for x in back.entry_points)
            else:
                obs["exported"] = None
    except SystemExit as e:
        obs["exception"] = f"SystemExit({e.code}): {err.getvalue()[-200:]}"
    except Exception as e:
        obs["exception"] = f"{type(e).__name__}: {str(e)[:200]}"
    return obs


def model_request(case, walk, req):
    data = dict((p, d) for p, d in case["files"])
    files = [[os.path.basename(p), data.get(p) or []] for p in walk]
    units = [{"lang": u["lang"], "id": u["id"], "path": u["path"], "gir_empty": bool(u.get("gir_empty", False)),
              "methods": [[m[0], norm(m[1]), norm(m[2])] for m in u["methods"]]} for u in case["units"]]
    return {"m": M, "op": "select", "requirement": req, "files": files, "units": units}


def model_view(reply, walk):
    return {"loaded": [walk[i] for i in reply["loaded"]], "nrules": reply["nrules"],
            "analysed": reply["analysed"], "cands": reply["cands"],
            "trace": [[sorted(a), sorted(b)] for a, b in reply["trace"]],
            "selected": sorted(reply["runp1"])}


def inproc_verdict(case, obs, orc):
    """oracle check on the real observation: list of reasons (empty = passes)"""
    if "exception" in obs:
        return ["real code raised: " + obs["exception"]]
    why = []
    if sorted(obs["loaded"]) != orc["loaded"]:
        why.append(f"settings files parsed {sorted(obs['loaded'])} != files the naming rule selects {orc['loaded']}")
    if obs["selected"] != orc["selected"]:
        why.append(f"selected {obs['selected']} != rule semantics {orc['selected']}")
    exp = orc["selected"] or None
    if obs["exported"] != exp and obs["selected"] == orc["selected"]:
        why.append(f"saved entry_points file holds {obs['exported']} but the selected set is {orc['selected']}")
    return why


# ---------------- generators for layer 2

WS = "ws/lian_workspace/src/"
UNIT_PATHS = [WS + "app/a.py", WS + "app/aa.py", WS + "app/sub/a.py", WS + "lib/util.py", WS + "lib/routes.py",
              WS + "app/Main.java", WS + "web/index.js", WS + "lib/{{tpl}}/t.py", "a.py", WS + "app.d/b.py",
              "ws/lian_workspace/externs/python/pybuiltin.py", WS + "app/routes.py.py"]
EXT_LANG = {".py": "python", ".java": "java", ".js": "javascript"}
NAMES = ["main", "run", "handler", "%unit_init", "a", "ab", "__init__", "get", "main2", "%unit_init2"]
ATTRS = ["", "['staticmethod']", "['public', 'static']", "['app.route']", "['classmethod']", "['static']"]
RULE_ATTRS = [["staticmethod"], ["static"], ["public", "static"], ["static", "public"], ["app.route"], ["x"],
              [""], [], "st", "ps'", "", ["staticmethod", "classmethod"], "xyz", ["method"]]


def gen_units(rng):
    n = rng.choice([0, 1, 1, 2, 2, 2, 3, 3, 3, 4, 4, 5])
    paths = rng.sample(UNIT_PATHS, n)
    units = []
    sid = 100 + rng.randint(0, 30)
    mid = 101
    for p in paths:
        lang = EXT_LANG[os.path.splitext(p)[1]]
        if rng.random() < 0.08:
            lang = rng.choice(list(EXT_LANG.values()))
        methods, noise = [], []
        for _ in range(rng.choice([0, 1, 2, 2, 3, 4, 5])):
            sid += rng.randint(1, 9)
            name = rng.choice(NAMES)
            attrs = rng.choice(ATTRS) if rng.random() < 0.5 else ""
            r = rng.random()
            if r < 0.04:
                name = None
            elif r < 0.06:
                name = float("nan")
            if rng.random() < 0.05:
                attrs = None
            methods.append([sid, name, attrs])
            if rng.random() < 0.25:
                sid += rng.randint(1, 3)
                noise.append([sid, rng.choice(NOISE_KINDS[:2]), rng.choice(NAMES)])
        u = {"lang": lang, "id": mid, "path": p, "methods": methods, "noise": noise}
        if rng.random() < 0.05:
            u["gir_empty"] = True
        units.append(u)
        mid += rng.choice([1, 2, 2, 3])
    return units


def gen_rule(rng, units):
    r = {}
    u = rng.choice(units) if units else {"lang": "python", "id": 101, "path": UNIT_PATHS[0], "methods": [], "noise": []}
    if rng.random() < 0.4:
        r["lang"] = rng.choice([u["lang"]] * 6 + ["python", "java", "pytho", "Python", ""])
    if rng.random() < 0.12:
        r["unit_id"] = rng.choice([u["id"], u["id"], u["id"], u["id"] + 1, 0, -1, -5])
    if rng.random() < 0.3:
        b = os.path.basename(u["path"])
        r["unit_name"] = rng.choice([b, b, b, b[1:], b[:-1], b[:2], ".py", "a.py", "b.py", "app/" + b, "", b.upper(), b + "x"])
    if rng.random() < 0.3:
        p = u["path"]
        i = rng.randint(0, len(p) - 1)
        j = rng.randint(i + 1, len(p))
        r["unit_path"] = rng.choice([p, p, p[i:j], p[i:], os.path.dirname(p), "src/", "app", "lib/", "/app/a.py",
                                     "nomatch/", "", "{{", "lian_workspace", p + "c"])
    ms = [m for uu in units for m in uu["methods"]]
    if rng.random() < 0.15:
        base = rng.choice(u["methods"] or ms or [[0, "", ""]])[0]
        r["method_id"] = rng.choice([base, base, base, base + 1, 0, -1, -7])
    if rng.random() < 0.75:
        pool = NAMES + [m[1] for m in u["methods"] if isinstance(m[1], str)] * 6
        names = [rng.choice(pool) for _ in range(rng.choice([0, 1, 1, 1, 2, 3]))]
        q = rng.random()
        if q < 0.08:
            r["method_list"] = "_".join(names)
        elif q < 0.12:
            r["method_list"] = names[0] if names else ""
        else:
            r["method_list"] = names
    if rng.random() < 0.25:
        r["attrs"] = rng.choice(RULE_ATTRS)
    if rng.random() < 0.06:
        r["args"] = rng.choice(["x", "", "self"])
    if rng.random() < 0.06:
        r["return_type"] = rng.choice(["int", ""])
    return r


GOOD_FILES = ["entry.yaml", "sub/python-entry.yaml", "sub/deep/x-y-entry.yaml", "java-entry.yaml", "sub/entry.yaml"]
DECOYS = ["myentry.yaml", "-entry.yaml", "entry.yml", "entry.yaml.bak", "sub/-x-entry.yaml", "Entry.yaml",
          "x-entry.yaml.d/inner.yaml", "python_entry.yaml", "sub/--entry.yaml", "entry.yaml-x"]


def gen_case(rng):
    units = gen_units(rng)
    rules = [gen_rule(rng, units) for _ in range(rng.choice([0, 1, 1, 2, 2, 3, 3, 4, 4, 6]))]
    files = {}
    if rng.random() < 0.85:
        files["entry.yaml"] = []
    for r in rules:
        f = "entry.yaml" if ("entry.yaml" in files and rng.random() < 0.6) else rng.choice(GOOD_FILES)
        files.setdefault(f, []).append(r)
    if "entry.yaml" in files and not files["entry.yaml"] and rng.random() < 0.5:
        files["entry.yaml"] = None          # an empty file: yaml.safe_load gives None
    for d in DECOYS:
        if rng.random() < 0.15:
            files[d] = [{}]                  # a rule without any condition: would select every method
    case = {"files": [[k, v] for k, v in files.items()], "units": units}
    if rng.random() < 0.1:
        case["dirs"] = ["z-entry.yaml"]      # a directory, not a file
    return case


def shrink_case(case, fails):
    """greedy structural shrinking: drop files, rules, units, methods, noise, rule keys"""
    case = json.loads(json.dumps(case, default=lambda x: None))
    changed = True
    while changed:
        changed = False
        cands = []
        for i in range(len(case["files"])):
            c = json.loads(json.dumps(case)); del c["files"][i]; cands.append(c)
            for j in range(len(case["files"][i][1] or [])):
                c = json.loads(json.dumps(case)); del c["files"][i][1][j]; cands.append(c)
                for k in list(case["files"][i][1][j].keys()):
                    c = json.loads(json.dumps(case)); del c["files"][i][1][j][k]; cands.append(c)
        for i in range(len(case["units"])):
            c = json.loads(json.dumps(case)); del c["units"][i]; cands.append(c)
            for j in range(len(case["units"][i]["methods"])):
                c = json.loads(json.dumps(case)); del c["units"][i]["methods"][j]; cands.append(c)
            if case["units"][i].get("noise"):
                c = json.loads(json.dumps(case)); c["units"][i]["noise"] = []; cands.append(c)
        if case.get("dirs"):
            c = json.loads(json.dumps(case)); c.pop("dirs"); cands.append(c)
        for c in cands:
            try:
                if fails(c):
                    case = c
                    changed = True
                    break
            except Exception:
                pass
    return case


# =====================================================================================
# layer 2b: the shipped default_settings/entry.yaml through the same loop
# =====================================================================================

def gen_default_units(rng, rules, n):
    """unit tables aimed at the shipped rules: per unit pick a rule and build a file that matches it exactly,
    by substring only, or narrowly misses it (language, file name, method name)"""
    units = []
    sid, mid = 200, 101
    dirs = ["app", "api/v1", "test1", "server", "lib"]
    for _ in range(n):
        r = rng.choice(rules)
        lang = r.get("lang") or "python"
        ext = {"python": ".py", "java": ".java", "go": ".go", "abc": ".abc"}.get(lang, ".py")
        name = r.get("unit_name") or ("mod" + ext)
        q = rng.random()
        if q < 0.15:
            name = "x" + name                       # rule name is a proper substring of the file name
        elif q < 0.30:
            name = name[1:] if len(name) > 1 else name + "z"     # near miss
        elif q < 0.35:
            name = name.upper()
        path = WS + rng.choice(dirs) + "/" + name
        if r.get("unit_path") and rng.random() < 0.7:
            path = WS + r["unit_path"]
        if rng.random() < 0.1:
            lang = rng.choice(["python", "java", "go", "javascript"])
        methods = []
        pool = list(r.get("method_list") or []) + ["%unit_init", "helper", "main", "nnn", "init"]
        for nm in rng.sample(pool, min(len(pool), rng.randint(1, 4))):
            sid += rng.randint(1, 7)
            v = rng.random()
            if v < 0.12:
                nm = nm + "_x"
            elif v < 0.2:
                nm = nm[:-1]
            methods.append([sid, nm, rng.choice(["", "", "['staticmethod']"])])
        units.append({"lang": lang, "id": mid, "path": path, "methods": methods, "noise": []})
        mid += 1
    return units


def check_default_settings(ctx, root, n_units, corr_breaks, failing):
    L_ = L()
    req = L_.REQ
    sdir = os.path.join(common.REPO, "default_settings")
    walk = walk_order(sdir)
    files = []
    for p in walk:
        data = None
        if o_file_loaded(os.path.basename(p), req):
            data = L_.yaml.safe_load(open(os.path.join(sdir, p)))
        files.append([p, data])
    rules = [r for _p, d in files for r in (d or [])]
    well_typed = all(isinstance(r, dict) and set(r) <= {"lang", "unit_id", "unit_path", "unit_name", "method_id", "method_list",
                                                       "attrs", "args", "return_type"} and
                     all(isinstance(r.get(k, ""), str) for k in ("lang", "unit_path", "unit_name", "args", "return_type")) and
                     all(isinstance(r.get(k, -1), int) for k in ("unit_id", "method_id")) and
                     all(isinstance(r.get(k, []), (list, str)) for k in ("method_list", "attrs")) for r in rules)
    info = {"files": walk, "rules": len(rules), "well_typed": well_typed,
            "every_rule_names_methods": all(r.get("method_id", -1) >= 0 or r.get("method_list") for r in rules),
            "keys": sorted({k for r in rules for k in r})}
    ctx.cov["default_settings"] = info
    if not well_typed:
        corr_breaks.append({"layer": "default-settings", "what": "a shipped rule is outside the modelled value domain (str / int / list[str])"})
        return
    case = {"files": files, "units": gen_default_units(ctx.rng, rules, n_units)}
    o = real_inproc(case, os.path.join(root, "dflt"), settings_dir=sdir)
    orc = oracle_case(case, walk, req)
    why = inproc_verdict(case, o, orc)
    ctx.cov["evaluations"] += n_units
    info.update(units=n_units, selected=len(orc["selected"]),
                methods=sum(len(u["methods"]) for u in case["units"]))
    if why:
        failing.append(("default", case, why))
        return
    rep = model_batch([model_request(case, walk, req)])
    if rep is None:
        return
    rep = rep[0]
    mv = model_view(rep, walk)
    rv = {k: o[k] for k in mv}
    if rv != mv:
        k = next(k for k in mv if rv[k] != mv[k])
        corr_breaks.append({"layer": "default-settings", "model": "LianVerif.EntryPoints.runP1/trace", "first_difference": k})


# =====================================================================================
# layer 1: primitives
# =====================================================================================

def check_prims(ctx):
    L_ = L()
    alpha = "a/-"
    strs = [""] + ["".join(t) for n in (1, 2, 3) for t in itertools.product(alpha, repeat=n)]
    longs = strs + ["".join(t) for t in itertools.product(alpha, repeat=4)]
    infix = [[p, s] for p in strs for s in longs]
    bn = longs + ["a/b/c.py", "/x", "x/", "//", "ws/lian_workspace/src/a.py"]
    req = L_.REQ
    names = [req, "-" + req, "x-" + req, "x-y-" + req, "-x-" + req, "--" + req, "my" + req, req + ".bak", "x-" + req + "-",
             "python-" + req, "", "-", "x-", "x-entry.yml", "a/" + req, req.upper(), "é-" + req, "x--" + req]
    fl = [[req, n] for n in names] + [["e", n] for n in ["e", "-e", "a-e", "-a-e", "ae", "a-", "a-e-e", "--e"]]
    reply = model_batch([{"m": M, "op": "prims", "infix": infix, "basename": bn, "file": fl}])
    diffs = []
    if reply is None:
        with contextlib.redirect_stderr(io.StringIO()):
            for r, n in fl:
                real = bool(L_.util.check_file_processing_flag_and_extract_lang(n, r)[0])
                if real != o_file_loaded(n, r):
                    diffs.append(("file", r, n, real, None, o_file_loaded(n, r)))
        ctx.cov["prims"] = {"file_names": len(fl), "differences": len(diffs), "model": "unavailable (lean build failed)"}
        return diffs
    reply = reply[0]
    for (p, s), m in zip(infix, reply["infix"]):
        if (p in s) != m:
            diffs.append(("infix", p, s, p in s, m))
    for p, m in zip(bn, reply["basename"]):
        if os.path.basename(p) != m:
            diffs.append(("basename", p, os.path.basename(p), m))
    with contextlib.redirect_stderr(io.StringIO()):
        for (r, n), m in zip(fl, reply["file"]):
            real = bool(L_.util.check_file_processing_flag_and_extract_lang(n, r)[0])
            if real != m or real != o_file_loaded(n, r):
                diffs.append(("file", r, n, real, m, o_file_loaded(n, r)))
    ctx.cov["evaluations"] += len(infix) + len(bn) + len(fl)
    ctx.cov["prims"] = {"infix": len(infix), "basename": len(bn), "file_names": len(fl), "differences": len(diffs)}
    return diffs


# =====================================================================================
# layer 3: full runs
# =====================================================================================

FN = ["main", "run", "handler", "helper", "a", "ab", "get", "start"]
PROJ_FILES = ["a.py", "aa.py", "sub/a.py", "sub/deep/util.py", "lib/routes.py", "lib/a.py", "app/views.py", "b.py"]


def gen_project(rng):
    """returns {"files": {rel: text}, "funcs": {rel: [func…]}, "toplevel": {rel: bool}}; func = dict(name, kind, lines
    (candidate decl lines, 1-based), sink (line of its sink call), calls (names of functions of the same file))"""
    rels = rng.sample(PROJ_FILES, rng.randint(2, 5))
    if rng.random() < 0.25:
        rels.append("{{tpl}}/t.py")
    if rng.random() < 0.2:
        rels.append("empty.py")
    proj = {"files": {}, "funcs": {}, "toplevel": {}}
    for rel in rels:
        if rel == "empty.py":
            proj["files"][rel] = ""
            proj["funcs"][rel] = []
            proj["toplevel"][rel] = False
            continue
        lines, funcs = [], []
        mod_funcs = []

        def emit(s):
            lines.append(s)
            return len(lines)
        if rng.random() < 0.5:
            emit("import os")
        for name in rng.sample(FN, rng.randint(1, 4)):
            f = {"name": name, "kind": "func", "calls": []}
            f["lines"] = [emit(f"def {name}(tp):")]
            f["sink"] = emit("    sink(tp)")
            if rng.random() < 0.3:
                inner = {"name": name + "_in", "kind": "nested", "calls": []}
                inner["lines"] = [emit(f"    def {name}_in(tp):")]
                inner["sink"] = emit("        sink(tp)")
                emit("        return 2")
                emit(f"    r0 = {name}_in(tp)")
                f["calls"].append(inner["name"])
                funcs.append(inner)
            if mod_funcs and rng.random() < 0.4:
                callee = rng.choice(mod_funcs)
                emit(f"    r1 = {callee}(tp)")
                f["calls"].append(callee)
            emit("    return 1")
            emit("")
            funcs.append(f)
            mod_funcs.append(name)
        if rng.random() < 0.5:
            emit("class K:")
            for mname, deco, params in rng.sample([("m", None, "self, tp"), ("sm", "staticmethod", "tp"),
                                                   ("cm", "classmethod", "cls, tp"), ("run", None, "self, tp")],
                                                  rng.randint(1, 3)):
                f = {"name": mname, "kind": "method", "calls": [], "lines": []}
                if deco:
                    f["lines"].append(emit(f"    @{deco}"))
                f["lines"].append(emit(f"    def {mname}({params}):"))
                f["sink"] = emit("        sink(tp)")
                emit("        return 3")
                funcs.append(f)
            emit("")
        top = rng.random() < 0.6
        if top:
            init = {"name": "%unit_init", "kind": "init", "calls": [], "lines": []}
            emit("tv = req.get()")
            init["sink"] = emit("sink(tv)")
            if mod_funcs and rng.random() < 0.6:
                callee = rng.choice(mod_funcs)
                emit(f"r2 = {callee}(tv)")
                init["calls"].append(callee)
            funcs.append(init)
        proj["files"][rel] = "\n".join(lines) + "\n"
        proj["funcs"][rel] = funcs
        proj["toplevel"][rel] = top
    if rng.random() < 0.45:
        for rel in rng.sample(JS_FILES, rng.choice([1, 1, 2])):
            gen_js_file(rng, proj, rel)
    return proj


JS_FILES = ["web/index.js", "web/app.js", "a.js", "sub/a.js"]


def gen_js_file(rng, proj, rel):
    lines, funcs, mod_funcs = [], [], []

    def emit(s):
        lines.append(s)
        return len(lines)
    for name in rng.sample(FN, rng.randint(1, 3)):
        f = {"name": name, "kind": "func", "calls": []}
        f["lines"] = [emit(f"function {name}(tp) {{")]
        f["sink"] = emit("    sink(tp);")
        if mod_funcs and rng.random() < 0.4:
            callee = rng.choice(mod_funcs)
            emit(f"    var r1 = {callee}(tp);")
            f["calls"].append(callee)
        emit("    return 1;")
        emit("}")
        funcs.append(f)
        mod_funcs.append(name)
    top = rng.random() < 0.6
    if top:
        init = {"name": "%unit_init", "kind": "init", "calls": [], "lines": []}
        emit("var tv = req.get();")
        init["sink"] = emit("sink(tv);")
        if rng.random() < 0.5:
            callee = rng.choice(mod_funcs)
            emit(f"var r2 = {callee}(tv);")
            init["calls"].append(callee)
        funcs.append(init)
    proj["files"][rel] = "\n".join(lines) + "\n"
    proj["funcs"][rel] = funcs
    proj["toplevel"][rel] = top


def _both(block):
    return "".join(f"- lang: {lang}\n  rules:\n{block}" for lang in ("python", "javascript"))


SOURCE_YAML = _both("""    - operation: parameter_decl
      name: tp
    - operation: parameter_decl
      name: ep
    - operation: object_call
      name: req.get
      tag: ["%target"]
""")
SINK_YAML = _both("""    - operation: call_stmt
      name: sink
      target: [\\%arg0]
      vuln_type: generic_sink
""")
PROP_YAML = _both("""  - operation: assign_stmt
    src: operand1
    dst:
      - [\\%target]
""")


def gen_chain_project(rng, k=None):
    """Python project in which 3-6 entry functions SHARE helper chains of depth 2-3 (entry_i -> helper -> [mid ->] leaf).
    Variant A: the source is the entry's parameter `ep`, the sink call is in the leaf; variant B: the source
    (`req.get()`) is in the leaf, its value is returned up the chain and the sink call is in the entry.  So every entry
    has one flow of its own that exists only if the top-down analysis descends the shared chain *for that entry*.
    proj["chain"] = {"entries": [names], "expected": {name: [src_rel, src_line, sink_rel, sink_line]}}"""
    k = k or rng.randint(3, 6)
    sizes = [3, k - 3] if k >= 6 and rng.random() < 0.6 else [k]
    rels = ["chain.py"] if len(sizes) == 1 or rng.random() < 0.5 else ["chain.py", "svc/handlers.py"]
    proj = {"files": {}, "funcs": {}, "toplevel": {}, "chain": {"entries": [], "expected": {}}}
    texts = {r: [] for r in rels}
    for r in rels:
        proj["funcs"][r] = []
        proj["toplevel"][r] = False
    n = 0
    for g, size in enumerate(sizes):
        rel = rels[g % len(rels)]
        lines, funcs = texts[rel], proj["funcs"][rel]

        def emit(t):
            lines.append(t)
            return len(lines)
        variant = rng.choice("AB")
        depth3 = rng.random() < 0.5
        leaf, mid, helper = f"leaf_{g}", f"mid_{g}", f"helper_{g}"
        par = (lambda x: x) if variant == "A" else (lambda x: "")
        f = {"name": leaf, "kind": "func", "calls": [], "own": False, "sink": None}
        f["lines"] = [emit(f"def {leaf}({par('lp')}):")]
        if variant == "A":
            f["sink"] = emit("    sink(lp)")
            emit("    return 1")
        else:
            leaf_src = emit("    v = req.get()")
            emit("    return v")
        emit("")
        funcs.append(f)
        below = leaf
        if depth3:
            f = {"name": mid, "kind": "func", "calls": [leaf], "own": False, "sink": None}
            f["lines"] = [emit(f"def {mid}({par('mp')}):")]
            emit(f"    m = {leaf}({par('mp')})")
            emit("    return m")
            emit("")
            funcs.append(f)
            below = mid
        f = {"name": helper, "kind": "func", "calls": [below], "own": False, "sink": None}
        f["lines"] = [emit(f"def {helper}({par('hp')}):")]
        emit(f"    w = {below}({par('hp')})")
        emit("    return w")
        emit("")
        funcs.append(f)
        for _ in range(size):
            name = f"entry_{n}"
            n += 1
            callee = below if depth3 and rng.random() < 0.25 else helper
            f = {"name": name, "kind": "func", "calls": [callee], "own": False, "sink": None}
            dl = emit(f"def {name}({par('ep')}):")
            f["lines"] = [dl]
            emit(f"    x = {callee}({par('ep')})")
            if variant == "A":
                exp = [rel, dl, rel, next(q["sink"] for q in funcs if q["name"] == leaf)]
            else:
                f["sink"] = emit("    sink(x)")
                exp = [rel, leaf_src, rel, f["sink"]]
            emit("    return 2")
            emit("")
            funcs.append(f)
            proj["chain"]["entries"].append(name)
            proj["chain"]["expected"][name] = exp
    for r in rels:
        proj["files"][r] = "\n".join(texts[r]) + "\n"
    return proj


def chain_ruleset(rng, entries, multi):
    if multi and rng.random() < 0.5:
        rules = [{"method_list": [e]} for e in entries]
    else:
        rules = [{"lang": "python", "method_list": list(entries)}]
    return {"family": "chain_multi" if multi else "chain_single", "files": [["entry.yaml", rules]]}


def flow_set(obs):
    out = set()
    for fl in obs.get("flows", []):
        a = re.search(r"lian_workspace/src/proj/(.*)$", fl["source_file_path"] or "")
        b = re.search(r"lian_workspace/src/proj/(.*)$", fl["sink_file_path"] or "")
        out.add((a.group(1) if a else fl["source_file_path"], fl["source_line"],
                 b.group(1) if b else fl["sink_file_path"], fl["sink_line"]))
    return out


def summarize(obs):
    """what the union oracle compares: flow set, selected ids, per-entry P3 artefacts"""
    p3 = obs.get("p3", {})
    return {"flows": sorted(list(x) for x in flow_set(obs)), "sel": obs.get("entry_file") or [],
            "space_rows": dict(p3.get("space_rows", {})), "call_paths": dict(p3.get("call_paths", {}))}


def union_verdict(entries, joint, singles, soft=None):
    """metamorphic oracle (needs no model): selected entries are analysed independently of each other, so
    (1) the flows of one run with entries {e1..ek} are exactly the union of the flows of the k single-entry runs;
    (2) what P3 stores under the id of entry e in the joint run (size of its state space, call paths starting at e)
        is what it stores in the run where e is the only entry.
    joint / singles[e] = summarize(observation)"""
    why = []
    jf = {tuple(x) for x in joint["flows"]}
    union = set()
    for e in entries:
        union |= {tuple(x) for x in singles[e]["flows"]}
    if jf != union:
        why.append(f"per-entry independence broken: the run with entries {list(entries)} reports {len(jf)} flows, the union of the "
                   f"{len(entries)} single-entry runs has {len(union)}; missing in the joint run {sorted(union - jf)}, "
                   f"extra in the joint run {sorted(jf - union)} (flow = [source file, source line, sink file, sink line])")
    for e in entries:
        for mid in singles[e]["sel"]:
            k = str(mid)
            a, b = joint["space_rows"].get(k), singles[e]["space_rows"].get(k)
            if a != b:
                msg = (f"entry {e} (id {mid}): its state space stored by the joint run has {a} rows, by the single-entry run {b}"
                       + (" — nothing is stored under its id in the joint run" if a is None else ""))
                # The property demands that a selected entry IS analysed (something is stored under its id) and that
                # its flows and call paths do not depend on the other entries; it does not fix the exact number of
                # state rows, which for entries that call each other (mutual recursion) varies by a row or two with
                # the order in which P3 visits the entries (summaries of already analysed callees are reused).
                # Missing artefact, or a state space that shrank by more than a quarter = hard; small drift = soft.
                if a is None or b is None or a < 0.75 * b:
                    why.append(msg)
                elif soft is not None:
                    soft.append(msg)
            a, b = joint["call_paths"].get(k, []), singles[e]["call_paths"].get(k, [])
            if a != b:
                why.append(f"entry {e} (id {mid}): call paths starting at it differ: joint run {a}, single-entry run {b}")
    return why


def union_ruleset(rng, proj, entries, multi):
    return chain_ruleset(rng, entries, multi)


def shrink_union(payload, singles, root, req, budget=8):
    """drop entries from the joint run while the union oracle still fails (single-entry results are reused)"""
    entries = list(payload["entries"])
    why = None
    changed = True
    rng = __import__("random").Random(0)
    while changed and budget > 0 and len(entries) > 2:
        changed = False
        for e in list(entries):
            if budget <= 0:
                break
            budget -= 1
            rest = [x for x in entries if x != e]
            job = {"proj": payload["proj"], "ruleset": chain_ruleset(rng, rest, True), "dir": os.path.join(root, "shrinkunion")}
            o = full_run(job)
            if "error" in o:
                continue
            w = union_verdict(rest, summarize(o), singles)
            if w:
                entries, why, changed = rest, w, True
                break
    return entries, why


def replay_union(rp, root, req):
    rng = __import__("random").Random(0)
    entries = rp["entries"]
    jobs = [{"proj": rp["proj"], "ruleset": chain_ruleset(rng, entries, True), "dir": os.path.join(root, "u_multi")}]
    for i, e in enumerate(entries):
        jobs.append({"proj": rp["proj"], "ruleset": chain_ruleset(rng, [e], False), "dir": os.path.join(root, f"u_{i}")})
    obs = run_jobs(jobs)
    errs = [o["error"] for o in obs if "error" in o]
    if errs:
        return ["lian run failed: " + errs[0]], obs
    why = union_verdict(entries, summarize(obs[0]), {e: summarize(o) for e, o in zip(entries, obs[1:])})
    w0, _s, _st = full_verdict(jobs[0], obs[0], req)
    return why + w0, obs


def gen_overlap_project(rng, full=False):
    """Python project whose selectable functions CALL EACH OTHER: a chain e1 -> e2 -> e3, two mutually recursive
    functions ra <-> rb, and top-level code (%unit_init) that calls e1.  Every function has its own `tp -> sink(tp)`
    flow, so each is a meaningful entry whether or not another selected entry reaches it.
    proj["overlap"]["entries"] = the names to select together (always overlapping: some selected entry calls another)."""
    rel = rng.choice(["ov.py", "svc/ov.py"])
    lines, funcs = [], []

    def emit(t):
        lines.append(t)
        return len(lines)

    def fn(name, calls, guard=False):
        f = {"name": name, "kind": "func", "calls": list(calls)}
        f["lines"] = [emit(f"def {name}(tp):")]
        f["sink"] = emit("    sink(tp)")
        for c in calls:
            if guard:
                emit("    if tp:")
                emit(f"        r = {c}(tp)")
            else:
                emit(f"    r = {c}(tp)")
        emit("    return 1")
        emit("")
        funcs.append(f)
    depth = 3 if full else rng.choice([2, 3])
    chain = [f"e{i}" for i in range(1, depth + 1)]
    for i in range(depth, 0, -1):                 # callee first
        fn(f"e{i}", [f"e{i + 1}"] if i < depth else [])
    rec = full or rng.random() < 0.6
    if rec:
        fn("ra", ["rb"], guard=True)
        fn("rb", ["ra"])
    top = full or rng.random() < 0.6
    if top:
        init = {"name": "%unit_init", "kind": "init", "calls": ["e1"], "lines": []}
        emit("tv = req.get()")
        init["sink"] = emit("sink(tv)")
        emit("q = e1(tv)")
        funcs.append(init)
    cands = chain + (["ra", "rb"] if rec else []) + (["%unit_init"] if top else [])
    if full:
        entries = cands
    else:
        entries = list(chain)                     # the chain is always selected as a whole (overlap guaranteed)
        entries += [c for c in cands if c not in chain and rng.random() < 0.7]
    proj = {"files": {rel: "\n".join(lines) + "\n"}, "funcs": {rel: funcs}, "toplevel": {rel: top},
            "recursive": rec, "overlap": {"entries": entries}}
    return proj


def gen_ruleset(rng, proj, ids=None):
    """entry rule files for a full run.  `ids` (second wave) = real unit/scope table of a first run."""
    rels = [r for r in proj["files"]]
    names = sorted({f["name"] for r in rels for f in proj["funcs"][r]} - {"%unit_init"})
    fam = rng.choice(["empty", "nofile", "init", "init", "names", "names", "lang", "lang_miss", "unit_name", "unit_name_sub",
                      "unit_path", "unit_path_miss", "overlap", "attrs", "all", "args", "multi", "multi", "strlist",
                      "ws_prefix", "lang_js", "lang_js"] if ids is None else ["method_id", "method_id", "unit_id", "id_mix"])
    rel = rng.choice(rels)
    base = os.path.basename(rel)
    some = lambda k: rng.sample(names, min(k, len(names)))
    files = {}
    if fam == "empty":
        files["entry.yaml"] = [] if rng.random() < 0.5 else None
    elif fam == "nofile":
        files["other.yaml"] = [{}]
    elif fam == "init":
        files["entry.yaml"] = [{"method_list": ["%unit_init"]}]
    elif fam == "names":
        files["entry.yaml"] = [{"method_list": some(2)}] + ([{"lang": "python", "method_list": ["%unit_init"]}] if rng.random() < 0.5 else [])
    elif fam == "lang":
        files["entry.yaml"] = [{"lang": "python", "method_list": some(2)}]
    elif fam == "lang_js":
        files["entry.yaml"] = [{"lang": "javascript", "method_list": some(3) + ["%unit_init"]}] + \
                              ([{"lang": "python", "method_list": some(1)}] if rng.random() < 0.5 else [])
    elif fam == "lang_miss":
        files["entry.yaml"] = [{"lang": rng.choice(["java", "Python", "pytho"]), "method_list": some(3) + ["%unit_init"]},
                               {"lang": "python", "method_list": some(1)}]
    elif fam == "unit_name":
        files["entry.yaml"] = [{"unit_name": base, "method_list": some(3) + ["%unit_init"]}]
    elif fam == "unit_name_sub":
        files["entry.yaml"] = [{"unit_name": rng.choice(["a.py", ".py", "a", base[1:], "x" + base, "sub/a.py"]),
                                "method_list": some(3) + ["%unit_init"]}]
    elif fam == "unit_path":
        files["entry.yaml"] = [{"unit_path": rng.choice([rel, os.path.dirname(rel) + "/", "proj/" + rel, "sub/"]),
                                "method_list": some(3) + ["%unit_init"]}]
    elif fam == "unit_path_miss":
        files["entry.yaml"] = [{"unit_path": rng.choice(["/abs/" + rel, rel + "x", "nomatch"]), "method_list": some(3)},
                               {"unit_path": rel, "lang": "python", "method_list": some(1)}]
    elif fam == "overlap":
        files["entry.yaml"] = [{"method_list": some(2)}, {"lang": "python", "method_list": some(2)},
                               {"unit_name": base, "method_list": some(2) + ["%unit_init"]}, {"method_list": ["%unit_init"]}]
    elif fam == "attrs":
        files["entry.yaml"] = [{"attrs": rng.choice([["staticmethod"], ["classmethod"], ["static"], "cs", ["nosuch"]])},
                               {"method_list": some(1)}]
    elif fam == "all":
        files["entry.yaml"] = [{"lang": "python", "unit_path": "/src/"}] if rng.random() < 0.5 else [{"unit_name": base}]
    elif fam == "args":
        files["entry.yaml"] = [{"method_list": some(3), "args": "tp"}, {"method_list": some(1), "return_type": "int"},
                               {"method_list": some(1)}]
    elif fam == "multi":
        files["entry.yaml"] = [{"method_list": some(1)}]
        files["langs/python-entry.yaml"] = [{"lang": "python", "unit_name": base, "method_list": some(2) + ["%unit_init"]}]
        files["langs/deep/x-y-entry.yaml"] = [{"method_list": some(1)}]
        for d in rng.sample(["myentry.yaml", "-entry.yaml", "entry.yml", "langs/-x-entry.yaml", "entry.yaml.bak"], 2):
            files[d] = [{}]
    elif fam == "strlist":
        files["entry.yaml"] = [{"method_list": "_".join(some(2))}, {"method_list": "%unit_init%"}]
    elif fam == "ws_prefix":
        files["entry.yaml"] = [{"unit_path": "lian_workspace/src", "method_list": some(2)}]
    else:
        units = [u for u in ids["units"] if u["methods"]]
        u = rng.choice(units)
        m = rng.choice(u["methods"])
        if fam == "method_id":
            files["entry.yaml"] = [{"method_id": m[0], "method_list": ["nosuchname"], "attrs": ["nosuch"], "args": "x"}]
            if rng.random() < 0.5:
                files["entry.yaml"].append({"method_id": m[0] + 1, "lang": "python"})
        elif fam == "unit_id":
            files["entry.yaml"] = [{"unit_id": u["id"], "method_list": [x[1] for x in u["methods"][:2]]},
                                   {"unit_id": u["id"] + 1000, "method_list": ["%unit_init"] + names}]
        else:
            u2 = rng.choice(units)
            files["entry.yaml"] = [{"unit_id": u2["id"], "method_id": m[0]}, {"lang": "java", "method_id": m[0]},
                                   {"unit_id": u["id"], "method_list": ["%unit_init"]}]
    return {"family": fam, "files": [[k, v] for k, v in files.items()]}


ANALYZING = re.compile(r"^Analyzing <method (-?\d+) name: (.*)>$")
DONE = re.compile(r"^<method (-?\d+)> is Done$")


def parse_roots(stdout):
    roots, cur = [], None
    analysed = set()
    for line in stdout.split("\n"):
        m = ANALYZING.match(line.strip())
        if m:
            x = int(m.group(1))
            analysed.add(x)
            if cur is None:
                cur = x
                roots.append(x)
            continue
        m = DONE.match(line.strip())
        if m and cur is not None and int(m.group(1)) == cur:
            cur = None
    return roots, sorted(analysed)


def full_run(job):
    """job = {"dir", "proj", "ruleset"}; runs lian as a subprocess; returns the observation"""
    L_ = L()
    pd = L_.pd
    d = job["dir"]
    if os.path.exists(d):
        shutil.rmtree(d)
    pdir, sdir, ws = os.path.join(d, "proj"), os.path.join(d, "settings"), os.path.join(d, "ws")
    for rel, text in job["proj"]["files"].items():
        p = os.path.join(pdir, rel)
        os.makedirs(os.path.dirname(p), exist_ok=True)
        open(p, "w").write(text)
    write_settings(sdir, job["ruleset"]["files"])
    open(os.path.join(sdir, "source.yaml"), "w").write(SOURCE_YAML)
    open(os.path.join(sdir, "sink.yaml"), "w").write(SINK_YAML)
    open(os.path.join(sdir, "propagation.yaml"), "w").write(PROP_YAML)
    env = dict(os.environ)
    env["PYTHONPATH"] = os.path.join(common.REPO, "src")
    env["PYTHONHASHSEED"] = "0"
    langs = "python,javascript" if any(r.endswith(".js") for r in job["proj"]["files"]) else "python"
    cmd = ["/venv/bin/python", os.path.join(os.path.dirname(os.path.abspath(__file__)), "c20_runner.py"), "run", "-l", langs,
           "-w", "ws", "-f", "--default-settings", "settings", "proj"]
    t = time.time()
    try:
        p = subprocess.run(cmd, cwd=d, env=env, capture_output=True, text=True, timeout=600)
    except subprocess.TimeoutExpired:
        return {"error": "timeout"}
    obs = {"rc": p.returncode, "wall": round(time.time() - t, 1), "stderr_tail": p.stderr[-600:], "cmd": " ".join(cmd)}
    obs["walk"] = walk_order(sdir)
    wsd = os.path.join(ws, "lian_workspace")
    try:
        ms = pd.read_feather(os.path.join(wsd, "frontend", "module_symbols"))
        units = []
        for r in ms.to_dict("records"):
            if r["symbol_type"] == 1 and r.get("unit_ext") in ((".py", ".js") if "javascript" in langs else (".py",)):
                units.append({"lang": r["lang"], "id": int(r["module_id"]), "path": r["unit_path"], "methods": []})
        byid = {u["id"]: u for u in units}
        sp = os.path.join(wsd, "semantic_p1")
        analysed_units = set()
        for fn in sorted(os.listdir(sp)):
            if re.match(r"scope_hierarchy\.bundle\d+$", fn):
                for r in pd.read_feather(os.path.join(sp, fn)).to_dict("records"):
                    analysed_units.add(int(r["unit_id"]))
                    if r["scope_kind"] == L_.KIND.METHOD_KIND:
                        byid[int(r["unit_id"])]["methods"].append([int(r["stmt_id"]), norm(r["name"]), norm(r["attrs"])])
        for u in units:
            if u["id"] not in analysed_units:
                u["gir_empty"] = True      # no scope rows at all: P1 skipped it (empty GIR or cookiecutter path)
        obs["units"] = units
        epf = os.path.join(sp, "entry_points")
        if os.path.exists(epf):
            df = pd.read_feather(epf)
            obs["entry_file"] = sorted(int(x) for x in df["entry_points"].iloc[0])
        else:
            obs["entry_file"] = None
        decl = {}
        fr = os.path.join(wsd, "frontend")
        for fn in sorted(os.listdir(fr)):
            if re.match(r"gir\.bundle\d+$", fn):
                g = pd.read_feather(os.path.join(fr, fn))
                g = g[g["operation"] == "method_decl"]
                for r in g.to_dict("records"):
                    sr = r.get("start_row")
                    decl[int(r["stmt_id"])] = None if sr is None or sr != sr else int(sr) + 1
        obs["decl_line"] = decl
    except Exception as e:
        obs["error"] = f"cannot read workspace: {type(e).__name__}: {e}"
        obs["stdout_tail"] = p.stdout[-1500:]
        return obs
    obs["roots"], obs["analysed"] = parse_roots(p.stdout)
    obs["wrap"] = "ok" if "LV-ROOT-WRAP ok" in p.stdout else "unavailable"
    obs["lv_roots"] = [int(x) for x in re.findall(r"^LV-ROOT (-?\d+)$", p.stdout, flags=re.M)]
    # per-entry artefacts of P3: ids under which a state space / a state-flow graph was stored, size of each entry's
    # state space, call paths starting at each entry
    p3 = {"space_ids": [], "sfg_ids": [], "space_rows": {}, "call_paths": {}}
    try:
        d3 = os.path.join(wsd, "semantic_p3")
        for key, fn in (("space_ids", "s2space_p3.indexing"), ("sfg_ids", "state_flow_graph_p3.indexing")):
            f3 = os.path.join(d3, fn)
            if os.path.exists(f3):
                p3[key] = sorted(int(x) for x in pd.read_feather(f3)["item_id"])
        for fn in sorted(os.listdir(d3)) if os.path.isdir(d3) else []:
            if re.match(r"s2space_p3\.bundle\d+$", fn):
                for mid, n in pd.read_feather(os.path.join(d3, fn))["method_id"].value_counts().items():
                    p3["space_rows"][str(int(mid))] = p3["space_rows"].get(str(int(mid)), 0) + int(n)
        f3 = os.path.join(d3, "call_paths_p3")
        if os.path.exists(f3):
            for r in pd.read_feather(f3).to_dict("records"):
                path = [[int(x) for x in site] for site in r["call_path"]]
                if path:
                    p3["call_paths"].setdefault(str(path[0][0]), []).append(path)
            for k in p3["call_paths"]:
                p3["call_paths"][k].sort()
    except Exception as e:
        p3["error"] = f"{type(e).__name__}: {e}"
    obs["p3"] = p3
    obs["starts"] = obs["lv_roots"] if (obs["wrap"] == "ok" and obs["lv_roots"]) else obs["roots"]
    tf = os.path.join(wsd, "taint", "taint_data_flow.json")
    obs["flows"] = []
    if os.path.exists(tf):
        for f in json.load(open(tf)):
            obs["flows"].append({k: f[k] for k in ("source_line", "sink_line", "source_file_path", "sink_file_path")})
    obs["phase4"] = "Phase IV" in p.stdout
    if not job.get("keep"):
        shutil.rmtree(d, ignore_errors=True)
    return obs


def run_jobs(jobs):
    """run lian on all jobs in a bounded pool; a run that times out is repeated once on its own; a second timeout is a
    problem of the harness / machine (exit 2), not a verdict about C20"""
    with ThreadPoolExecutor(max_workers=n_workers()) as ex:
        obs = list(ex.map(full_run, jobs))
    for i, (j, o) in enumerate(zip(jobs, obs)):
        if o.get("error") == "timeout":
            obs[i] = full_run(j)
            if obs[i].get("error") == "timeout":
                raise RuntimeError("a lian run timed out twice (600 s each): " + json.dumps(j["ruleset"])[:300])
    return obs


def full_verdict(job, obs, req):
    """Monitors on one real run.  Returns (hard reasons, soft notes, stats)."""
    proj, rs = job["proj"], job["ruleset"]
    if "error" in obs:
        return ["lian run failed: " + obs["error"] + " " + obs.get("stderr_tail", "")[-300:]], [], {}
    why, soft = [], []
    data = dict((p, d) for p, d in rs["files"])
    loaded = [p for p in obs["walk"] if o_file_loaded(os.path.basename(p), req)]
    rules = [r for p in loaded for r in (data.get(p) or [])]
    units = obs["units"]
    expect = oracle_select(rules, units)
    got = obs["entry_file"] or []
    if got != expect:
        why.append(f"semantic_p1/entry_points holds {got}, the rules select {expect}")
    if not proj.get("recursive"):      # the console text cannot tell a recursive inner frame from a new root
        if sorted(obs["roots"]) != sorted(set(obs["roots"])):
            why.append(f"a method is used as analysis start more than once: roots {obs['roots']}")
        if sorted(set(obs["roots"])) != expect:
            why.append(f"root 'Analyzing' lines {sorted(set(obs['roots']))} != selected set {expect}")
    # starts observed independently of the console text: (1) root frames created (harness-side wrap of
    # P3.init_frame_stack), (2) the ids under which P3 stored a state space and a state-flow graph
    if obs.get("wrap") == "ok" and (obs["lv_roots"] or not expect):
        if sorted(obs["lv_roots"]) != expect:
            why.append(f"root frames created by P3 for {sorted(obs['lv_roots'])}, the selected set is {expect}: "
                       f"never a start {sorted(set(expect) - set(obs['lv_roots']))}, start without being selected "
                       f"{sorted(set(obs['lv_roots']) - set(expect))}, started more than once "
                       f"{sorted({x for x in obs['lv_roots'] if obs['lv_roots'].count(x) > 1})}")
    elif expect:
        soft.append("root-frame wrap unavailable or silent (P3.init_frame_stack renamed?): starts judged by artefacts and console only")
    p3 = obs.get("p3", {})
    if "error" in p3:
        soft.append("cannot read P3 artefacts: " + p3["error"])
    else:
        for key, what in (("space_ids", "semantic_p3/s2space_p3"), ("sfg_ids", "semantic_p3/state_flow_graph_p3")):
            if p3.get(key, []) != expect:
                why.append(f"{what} holds a record for entries {p3.get(key, [])}, the selected set is {expect} "
                           f"(selected but nothing stored under its id: {sorted(set(expect) - set(p3.get(key, [])))})")
    # --- unit initialiser exists iff the file has top-level non-declaration code (generator knowledge)
    rel_of = {}
    for u in units:
        m = re.search(r"lian_workspace/src/proj/(.*)$", u["path"])
        if m:
            rel_of[u["id"]] = m.group(1)
    for u in units:
        rel = rel_of.get(u["id"])
        if rel is None or o_unit_skipped(u):
            continue
        has_init = any(m[1] == "%unit_init" for m in u["methods"])
        if has_init != proj["toplevel"][rel]:
            (why if rel.endswith(".py") else soft).append(
                f"{rel}: %unit_init {'exists' if has_init else 'missing'} but top-level code = {proj['toplevel'][rel]}")
    # --- map real method ids to generated functions, compute reachability over the generated call graph
    key_of = {}
    for u in units:
        rel = rel_of.get(u["id"])
        if rel is None:
            continue
        for mid, name, _a in u["methods"]:
            if name == "%unit_init":
                key_of[mid] = (rel, "%unit_init")
                continue
            line = obs["decl_line"].get(mid, obs["decl_line"].get(str(mid)))
            for f in proj["funcs"][rel]:
                if f["name"] == name and line in f["lines"]:
                    key_of[mid] = (rel, name)
    reach = set()
    todo = [key_of[e] for e in expect if e in key_of]
    while todo:
        k = todo.pop()
        if k in reach:
            continue
        reach.add(k)
        f = next(x for x in proj["funcs"][k[0]] if x["name"] == k[1])
        todo += [(k[0], c) for c in f["calls"]]
    sink_owner = {}
    no_own = set()
    for rel, fs in proj["funcs"].items():
        for f in fs:
            if f.get("sink") is not None:
                sink_owner[(rel, f["sink"])] = (rel, f["name"])
            if not f.get("own", True):
                no_own.add((rel, f["name"]))       # its flow (if any) depends on a call chain: judged by the union oracle
    seen = set()
    for fl in obs["flows"]:
        m = re.search(r"lian_workspace/src/proj/(.*)$", fl["sink_file_path"] or "")
        if not m:
            soft.append(f"flow outside the project: {fl}")
            continue
        owner = sink_owner.get((m.group(1), fl["sink_line"]))
        if owner is None:
            soft.append(f"flow with unknown sink line: {fl}")
            continue
        seen.add(owner)
        if owner not in reach:
            why.append(f"taint flow reported in {owner[0]}:{owner[1]} (sink line {fl['sink_line']}), which is not reachable from any selected entry")
    own = {key_of[e] for e in expect if e in key_of} - no_own
    for k in sorted(own - seen):
        (why if k[0].endswith(".py") else soft).append(
            f"selected entry {k[0]}:{k[1]} contains a source-to-sink flow that the taint phase did not report")
    for k in sorted(reach - own - seen - no_own):
        soft.append(f"reachable (not itself an entry) {k[0]}:{k[1]}: its flow was not reported")
    if "chain" in proj:        # expected chain flows of the selected entries (soft: depends on C07/C10 depth)
        fs_ = flow_set(obs)
        sel_names = {key_of[e][1] for e in expect if e in key_of}
        for e in proj["chain"]["entries"]:
            if e in sel_names and tuple(proj["chain"]["expected"][e]) not in fs_:
                soft.append(f"chain flow of selected entry {e} {proj['chain']['expected'][e]} was not reported")
    stats = {"selected": len(expect), "methods": sum(len(u["methods"]) for u in units), "flows": len(obs["flows"]),
             "reach": len(reach), "own": len(own)}
    return why, soft, stats


def shrink_full(payload, why, root, req, budget=18):
    """greedy shrinking of a failing end-to-end input: drop project files, rule files and single rules while the
    monitors still fail (each attempt is one lian run, so the number of attempts is bounded)"""
    cur = json.loads(json.dumps(payload))
    changed = True
    while changed and budget > 0:
        changed = False
        cands = []
        if len(cur["proj"]["files"]) > 1:
            for rel in list(cur["proj"]["files"]):
                c = json.loads(json.dumps(cur))
                for k in ("files", "funcs", "toplevel"):
                    c["proj"][k].pop(rel)
                cands.append(c)
        for i, (_p, data) in enumerate(cur["ruleset"]["files"]):
            c = json.loads(json.dumps(cur)); del c["ruleset"]["files"][i]; cands.append(c)
            for j in range(len(data or [])):
                c = json.loads(json.dumps(cur)); del c["ruleset"]["files"][i][1][j]; cands.append(c)
                ml = (data[j] or {}).get("method_list")
                if isinstance(ml, list) and len(ml) > 1:
                    for q in range(len(ml)):
                        c = json.loads(json.dumps(cur)); del c["ruleset"]["files"][i][1][j]["method_list"][q]; cands.append(c)
        for c in cands:
            if budget <= 0:
                break
            budget -= 1
            job = {"proj": c["proj"], "ruleset": c["ruleset"], "dir": os.path.join(root, "shrinkfull")}
            o = full_run(job)
            w, _s, _st = full_verdict(job, o, req)
            if w and "error" not in o:
                cur, why, changed = c, w, True
                break
    return cur, why


def full_model_check(job, obs, req):
    """correspondence on the real unit/scope tables: returns (request, compare-fn)"""
    case = {"files": job["ruleset"]["files"], "units": obs["units"]}
    return model_request(case, obs["walk"], req)


# =====================================================================================
# known findings (open): matchers.  None recorded for C20 at the moment.
# =====================================================================================

def match_known(ctx, kind, payload, reasons):
    """returns a finding id when the (shrunk) failing input is exactly a recorded open finding"""
    return None


# =====================================================================================
# run / replay
# =====================================================================================

def fingerprints():
    L_ = L()
    from lian.core.global_semantics import P3GlobalSemanticAnalysis
    from lian.taint.taint_analysis import TaintAnalysis
    fns = {"EntryPointGenerator": L_.ep.EntryPointGenerator, "EntryPointRule": L_.ep.EntryPointRule,
           "P1.run": L_.ba.P1BasicSemanticAnalysis.run, "EntryPointsLoader": L_.EntryPointsLoader,
           "check_file_processing_flag_and_extract_lang": L_.util.check_file_processing_flag_and_extract_lang,
           "is_empty": L_.util.is_empty, "P3.run": P3GlobalSemanticAnalysis.run,
           "P3.init_frame_stack": P3GlobalSemanticAnalysis.init_frame_stack, "TaintAnalysis.run": TaintAnalysis.run}
    return {k: hashlib.sha256(inspect.getsource(v).encode()).hexdigest()[:16] for k, v in fns.items()}


def load_corpus():
    d = os.path.join(common.VERIF, "corpus", "C20")
    out = []
    if os.path.isdir(d):
        for f in sorted(os.listdir(d)):
            if f.endswith(".json"):
                j = json.load(open(os.path.join(d, f)))
                j["_file"] = f
                out.append(j)
    return out


def classify(case, orc, nall):
    k = len(orc["selected"])
    return "none" if k == 0 else ("all" if k == nall else "some")


def run(ctx):
    L_ = L()
    req = L_.REQ
    proofs_ok = ctx.proofs()
    tier = ctx.tier
    root = scratch_root()
    corr_breaks, failing = [], []
    try:
        from lian.config.constants import LIAN_INTERNAL
        ctx.cov["params"] = {"ENTRY_POINTS_FILE": req, "METHOD_KIND": int(L_.KIND.METHOD_KIND),
                             "UNIT_INIT": LIAN_INTERNAL.UNIT_INIT}
        if LIAN_INTERNAL.UNIT_INIT != "%unit_init":
            corr_breaks.append({"layer": "params", "what": "LIAN_INTERNAL.UNIT_INIT is no longer '%unit_init'; generators, corpus and the "
                                "initialiser monitor name the initialiser by that literal"})
        ctx.cov["fingerprints"] = fingerprints()
        times = {}
        ctx.cov["phase_wall_s"] = times
        t_ph = time.time()
        # ---------------- layer 1
        for d in check_prims(ctx)[:5]:
            corr_breaks.append({"layer": "primitives", "diff": list(d)})

        times["primitives"] = round(time.time() - t_ph, 1); t_ph = time.time()
        # ---------------- layer 2
        corpus = load_corpus()
        cases = [unjson(c["case"]) for c in corpus if c.get("kind", "inproc") == "inproc"]
        pinned = [c.get("expect_selected") for c in corpus if c.get("kind", "inproc") == "inproc"]
        n_corpus = len(cases)
        n_rand = 2500 if tier == "quick" else 30000
        for _ in range(n_rand):
            cases.append(gen_case(ctx.rng))
        observations, walks = [], []
        wd = os.path.join(root, "ip")
        for c in cases:
            o = real_inproc(c, wd)
            observations.append(o)
            walks.append(o["walk"])
        shutil.rmtree(wd, ignore_errors=True)
        replies = model_batch([model_request(c, w, req) for c, w in zip(cases, walks)]) or [None] * len(cases)
        seen, nontriv = set(), 0
        stats = {"none": 0, "some": 0, "all": 0, "exceptions": 0, "rules": 0, "units": 0, "methods": 0,
                 "skipped_units": 0, "files_loaded": 0, "files_ignored": 0}
        fam = {}
        for ci, (c, o, w, rep) in enumerate(zip(cases, observations, walks, replies)):
            ctx.cov["evaluations"] += 1
            orc = oracle_case(c, w, req)
            why = inproc_verdict(c, o, orc)
            if ci < n_corpus and pinned[ci] is not None and o.get("selected") != pinned[ci]:
                why.append(f"corpus case: selected {o.get('selected')} != pinned expectation {pinned[ci]}")
            nall = len({m[0] for u in c["units"] for m in u["methods"]})
            cl = classify(c, orc, nall)
            stats[cl] += 1
            stats["units"] += len(c["units"])
            stats["methods"] += sum(len(u["methods"]) for u in c["units"])
            stats["skipped_units"] += sum(1 for u in c["units"] if o_unit_skipped(u))
            stats["files_loaded"] += len(orc["loaded"])
            stats["files_ignored"] += len(w) - len(orc["loaded"])
            if "exception" in o:
                stats["exceptions"] += 1
            else:
                stats["rules"] += o["nrules"]
                for f, data in c["files"]:
                    for r in (data or []):
                        for k in r:
                            fam[k] = fam.get(k, 0) + 1
            key = json.dumps(c, sort_keys=True, default=str)
            if key not in seen and cl == "some":
                nontriv += 1
            seen.add(key)
            if why:
                failing.append(("inproc", c, why))
                continue
            if rep is None:
                continue
            mv = model_view(rep, w)
            rv = {k: o[k] for k in mv}
            if rv != mv:
                k = next(k for k in mv if rv[k] != mv[k])
                corr_breaks.append({"layer": "in-process", "model": "LianVerif.EntryPoints.runP1/trace", "first_difference": k,
                                    "real": rv[k], "model_out": mv[k], "case": jsonable(c)})
        ctx.cov["inproc"] = dict(stats, corpus=n_corpus, random=n_rand, rule_keys_used=fam)
        ctx.cov["distinct_nontrivial"] = nontriv
        smp = len(cases) - 1
        ctx.cov["samples"] = [jsonable({"case": cases[smp], "real": observations[smp]})]

        times["inproc"] = round(time.time() - t_ph, 1); t_ph = time.time()
        # ---------------- layer 2b
        check_default_settings(ctx, root, 300 if tier == "quick" else 1500, corr_breaks, failing)

        times["default_settings"] = round(time.time() - t_ph, 1); t_ph = time.time()
        # ---------------- layer 3
        n_proj = 10 if tier == "quick" else 70
        per_proj = 1 if tier == "quick" else 4
        n_wave2 = 6 if tier == "quick" else 70
        jobs = []
        for c in corpus:
            if c.get("kind") == "full":
                jobs.append({"proj": c["proj"], "ruleset": c["ruleset"], "corpus": c["_file"]})
        projs = [gen_project(ctx.rng) for _ in range(n_proj)]
        for pi, pr in enumerate(projs):
            for _ in range(per_proj):
                jobs.append({"proj": pr, "ruleset": gen_ruleset(ctx.rng, pr), "pi": pi})
        n_chain = 1 if tier == "quick" else 16
        n_overlap = 1 if tier == "quick" else 12
        chains = [gen_chain_project(ctx.rng, k=4 if tier == "quick" else None) for _ in range(n_chain)]
        chains += [gen_overlap_project(ctx.rng, full=(tier == "quick" or i == 0)) for i in range(n_overlap)]
        for ui, cp in enumerate(chains):
            ents = (cp.get("chain") or cp["overlap"])["entries"]
            jobs.append({"proj": cp, "ruleset": chain_ruleset(ctx.rng, ents, True), "union": ui, "entry": None})
            for e in ents:
                jobs.append({"proj": cp, "ruleset": chain_ruleset(ctx.rng, [e], False), "union": ui, "entry": e})
        for i, j in enumerate(jobs):
            j["dir"] = os.path.join(root, f"full{i}")
        obs1 = run_jobs(jobs)
        # second wave: id-based rules, ids taken from a first run of the same project
        jobs2 = []
        first = {}
        for j, o in zip(jobs, obs1):
            if "pi" in j and "error" not in o and j["pi"] not in first and any(u["methods"] for u in o["units"]):
                first[j["pi"]] = o
        for pi in list(first)[:n_wave2] if tier == "quick" else list(first):
            jobs2.append({"proj": projs[pi], "ruleset": gen_ruleset(ctx.rng, projs[pi], ids=first[pi]), "pi": pi,
                          "ids_from": first[pi]["units"]})
        for i, j in enumerate(jobs2):
            j["dir"] = os.path.join(root, f"fullb{i}")
        obs2 = run_jobs(jobs2)
        fstats = {"runs": 0, "errors": 0, "families": {}, "selected_none": 0, "selected_some": 0, "selected_all": 0,
                  "flows": 0, "soft_notes": 0, "ids_unstable": 0, "wall_max": 0}
        soft_samples = []
        full_reqs, full_obs = [], []
        for j, o in list(zip(jobs, obs1)) + list(zip(jobs2, obs2)):
            ctx.cov["evaluations"] += 1
            fstats["runs"] += 1
            fstats["families"][j["ruleset"]["family"]] = fstats["families"].get(j["ruleset"]["family"], 0) + 1
            if "ids_from" in j and "error" not in o and \
                    [[u["id"], u["methods"]] for u in o["units"]] != [[u["id"], u["methods"]] for u in j["ids_from"]]:
                fstats["ids_unstable"] += 1     # ids differ between two runs of the same project: id rules meaningless
                continue
            why, soft, st = full_verdict(j, o, req)
            if "error" in o:
                fstats["errors"] += 1
            if why:
                failing.append(("full", {"proj": j["proj"], "ruleset": j["ruleset"]}, why))
                continue
            fstats["wall_max"] = max(fstats["wall_max"], o.get("wall", 0))
            fstats["flows"] += st["flows"]
            fstats["soft_notes"] += len(soft)
            soft_samples += soft[:1]
            k = "selected_none" if st["selected"] == 0 else ("selected_all" if st["selected"] == st["methods"] else "selected_some")
            fstats[k] += 1
            fkey = json.dumps([j["proj"]["files"], j["ruleset"]["files"]], sort_keys=True)
            if k == "selected_some" and fkey not in seen:
                ctx.cov["distinct_nontrivial"] += 1
            seen.add(fkey)
            full_reqs.append(full_model_check(j, o, req))
            full_obs.append((j, o))
        # ---- metamorphic union oracle on the chain projects
        ustats = {"projects": len(chains), "overlap_projects": sum(1 for c in chains if "overlap" in c), "entries": 0,
                  "joint_flows": 0, "chain_flows_expected": 0, "chain_flows_seen": 0, "artefacts_compared": 0, "violations": 0}
        for ui, cp in enumerate(chains):
            grp = [(j, o) for j, o in zip(jobs, obs1) if j.get("union") == ui]
            if any("error" in o for _j, o in grp):
                continue                      # already reported by full_verdict
            joint = summarize(next(o for j, o in grp if j["entry"] is None))
            singles = {j["entry"]: summarize(o) for j, o in grp if j["entry"] is not None}
            ents = (cp.get("chain") or cp["overlap"])["entries"]
            mf = {tuple(x) for x in joint["flows"]}
            ustats["entries"] += len(ents)
            ustats["joint_flows"] += len(mf)
            ustats["artefacts_compared"] += sum(len(v["sel"]) for v in singles.values())
            if "chain" in cp:
                ustats["chain_flows_expected"] += len(ents)
                ustats["chain_flows_seen"] += sum(1 for e in ents if tuple(cp["chain"]["expected"][e]) in mf)
            usoft = []
            w = union_verdict(ents, joint, singles, usoft)
            ustats["soft_row_drift"] = ustats.get("soft_row_drift", 0) + len(usoft)
            if usoft:
                ustats.setdefault("soft_samples", []).append(usoft[0])
            if w:
                ustats["violations"] += 1
                failing.append(("union", {"proj": cp, "entries": ents, "singles": singles}, w))
        ctx.cov["union_oracle"] = ustats
        full_replies = model_batch(full_reqs) if full_reqs else None
        if full_replies:
            for (j, o), rep in zip(full_obs, full_replies):
                got = o["entry_file"] or []
                if sorted(rep["runp1"]) != got or sorted(rep["roots"]) != sorted(o["starts"]):
                    corr_breaks.append({"layer": "full-run", "model": "LianVerif.EntryPoints.runP1 / p3Roots",
                                        "real": {"entry_file": got, "roots": o["starts"]},
                                        "model_out": {"runp1": rep["runp1"], "roots": rep["roots"]},
                                        "ruleset": j["ruleset"], "units": o["units"]})
        times["full_runs"] = round(time.time() - t_ph, 1)
        fstats["soft_samples"] = soft_samples[:3]
        ctx.cov["full_runs"] = fstats
        if full_obs:
            j, o = full_obs[-1]
            ctx.cov["samples"].append({"ruleset": j["ruleset"], "project_files": sorted(j["proj"]["files"]),
                                       "entry_file": o["entry_file"], "roots": o["roots"], "flows": len(o["flows"])})
        ctx.cov["rule"] = (
            f"primitives exhaustive over a 3-letter alphabet; in-process: corpus ({n_corpus}) + {n_rand} random "
            "(settings tree of 0-6 rules over 1-3 rule files + decoy file names) x (0-5 units, 0-5 method scopes each, noise scopes, "
            "None/NaN names) through the real P1.run loop; full runs: generated Python projects (2-6 files, nested dirs, classes, "
            "nested functions, with/without top-level code, cookiecutter dir, empty file) x rule families "
            "(empty, no file, initialiser only, names, lang, lang miss, unit_name exact/substring, unit_path, overlap, attrs, all, "
            "args, multi-file with decoys, string method_list, workspace prefix; second wave: method_id / unit_id from a first run); chain projects (3-6 entries sharing helper chains of depth 2-3, source in the entry and sink in the leaf or the reverse) and overlap projects (selected entries call each other: chain e1->e2->e3, mutual recursion ra<->rb, %unit_init calling e1) run jointly and once per entry for the union oracle (flows and per-entry P3 artefacts); "
            "non-trivial = distinct input whose selected set is a non-empty proper subset of the method scopes")
        ctx.cov["exhaustive"] = False
        ctx.cov["correspondence"] = {"differences": len(corr_breaks)}

        # ---------------- verdict
        if failing:
            kind, payload, why = failing[0]
            if kind == "inproc":
                wd2 = os.path.join(root, "shrink")

                def fails(c):
                    o = real_inproc(c, wd2)
                    return bool(inproc_verdict(c, o, oracle_case(c, o["walk"], req)))
                if fails(payload):
                    small = shrink_case(payload, fails)
                    o = real_inproc(small, wd2)
                    orc = oracle_case(small, o["walk"], req)
                    why = inproc_verdict(small, o, orc)
                else:       # pinned corpus expectation broken while the oracle agrees with the code: report as is
                    small = json.loads(json.dumps(payload, default=lambda x: None))
                    o = real_inproc(small, wd2)
                    orc = oracle_case(small, o["walk"], req)
                fid = match_known(ctx, kind, small, why)
                if fid:
                    ctx.known(fid, "; ".join(why)[:300])
                else:
                    ctx.violation({"kind": "inproc", "what": "; ".join(why), "case": jsonable(small), "real": o, "oracle": orc,
                                   "failing_inputs_in_run": len(failing)})
            elif kind == "union":
                singles = payload["singles"]
                ents, w2 = shrink_union(payload, singles, root, req)
                why = w2 or why
                fid = match_known(ctx, kind, payload, why)
                if fid:
                    ctx.known(fid, "; ".join(why)[:300])
                else:
                    ctx.violation({"kind": "union", "what": "; ".join(why)[:2500], "proj": payload["proj"], "entries": ents,
                                   "single_runs": {e: singles[e] for e in ents},
                                   "failing_inputs_in_run": len(failing)})
            elif kind == "default":
                sdir = os.path.join(common.REPO, "default_settings")
                wd2 = os.path.join(root, "shrink")

                def fails_u(us):
                    c = {"files": payload["files"], "units": us}
                    o = real_inproc(c, wd2, settings_dir=sdir)
                    return bool(inproc_verdict(c, o, oracle_case(c, o["walk"], req)))
                us = common.shrink_list(payload["units"], fails_u)
                c = {"files": payload["files"], "units": us}
                o = real_inproc(c, wd2, settings_dir=sdir)
                why = inproc_verdict(c, o, oracle_case(c, o["walk"], req))
                ctx.violation({"kind": "default", "what": "; ".join(why)[:2000], "units": us,
                               "settings": "the repository's default_settings directory", "real": {k: o.get(k) for k in ("selected", "exported", "exception")}})
            else:
                payload, why = shrink_full(payload, why, root, req)
                fid = match_known(ctx, kind, payload, why)
                if fid:
                    ctx.known(fid, "; ".join(why)[:300])
                else:
                    ctx.violation({"kind": "full", "what": "; ".join(why)[:2000], "proj": payload["proj"],
                                   "ruleset": payload["ruleset"], "failing_inputs_in_run": len(failing)})
        elif corr_breaks or not proofs_ok:
            ctx.violation({"what": "proof obligation or correspondence broken; the oracle passed on every input of this run",
                           "broken_theorems": ctx.audit["failures"], "correspondence": corr_breaks[:3],
                           "correspondence_differences": len(corr_breaks)}, no_input=True)
    finally:
        shutil.rmtree(root, ignore_errors=True)


def replay(rp):
    L_ = L()
    req = L_.REQ
    root = scratch_root()
    try:
        if rp.get("kind") == "inproc":
            c = unjson(rp["case"])
            o = real_inproc(c, os.path.join(root, "rp"))
            orc = oracle_case(c, o["walk"], req)
            why = inproc_verdict(c, o, orc)
            print(json.dumps({"real": o, "oracle": orc, "violates": bool(why), "why": why}, default=str))
            return 1 if why else 0
        if rp.get("kind") == "default":
            sdir = os.path.join(common.REPO, "default_settings")
            walk = walk_order(sdir)
            files = [[p, L_.yaml.safe_load(open(os.path.join(sdir, p))) if o_file_loaded(os.path.basename(p), req) else None]
                     for p in walk]
            c = {"files": files, "units": rp["units"]}
            o = real_inproc(c, os.path.join(root, "rp"), settings_dir=sdir)
            why = inproc_verdict(c, o, oracle_case(c, walk, req))
            print(json.dumps({"selected": o.get("selected"), "violates": bool(why), "why": why}, default=str))
            return 1 if why else 0
        if rp.get("kind") == "union":
            why, obs = replay_union(rp, root, req)
            print(json.dumps({"joint_flows": sorted(flow_set(obs[0])), "starts": obs[0].get("starts"),
                              "violates": bool(why), "why": why}, default=str))
            return 1 if why else 0
        if rp.get("kind") == "full":
            job = {"proj": rp["proj"], "ruleset": rp["ruleset"], "dir": os.path.join(root, "rp")}
            o = full_run(job)
            why, soft, st = full_verdict(job, o, req)
            print(json.dumps({"entry_file": o.get("entry_file"), "roots": o.get("roots"), "violates": bool(why), "why": why}, default=str))
            return 1 if why else 0
        print(json.dumps({"violates": False, "note": "replay without concrete input (no-failing-input-found): re-run ./check C20"}))
        return 0
    finally:
        shutil.rmtree(root, ignore_errors=True)
