"""Typed random generator of terminating, non-raising Python programs over the grammar of C01's
quantifier, a renderer to Python source, a *defect simulator* (renders the same program the way a
known lian lowering defect makes it behave, so that CPython can predict the defective output), and
shape detectors used by the known-finding matchers.

AST (plain tuples/lists, JSON-serialisable after `to_json`):
  expr: ("int", n) ("bool", b) ("str", s) ("none",) ("name", x)
        ("bin", op, l, r) ("neg", e) ("not", e)
        ("cmp", [op...], [operand...])            chain; len(operands) = len(ops)+1
        ("boolop", "and"|"or", l, r)
        ("ifexp", then, cond, else)
        ("call", fname, [args], [(kw, arg)...])   fname may be a builtin (len/abs/min/max/range)
        ("mcall", recv_expr, method, [args], [(kw, arg)...])
        ("list", [e...]) ("tuple", [e...]) ("dict", [(k_expr, v_expr)...])
        ("sub", e, idx) ("slice", e, lo|None, hi|None, step|None) ("attr", e, name)
  stmt: ("assign", target, e)    target: ("name", x) | ("sub", e, i) | ("attr", e, f)
        ("chain_assign", [names], e)
        ("aug", op, target, e)
        ("unpack", [targets], e, style)  style: "bare" | "paren" | "bracket"
        ("if", [(cond, body)...], else_body|None)
        ("while", cond, body, else_body|None)
        ("for", [names], iter_expr, body, else_body|None)
        ("break",) ("continue",) ("pass",)
        ("return", e|None) ("expr", e) ("print", [e...])
        ("global", [names]) ("nonlocal", [names])
        ("def", name, [(pname, default_expr|None, kwonly)...], body)
        ("class", name, base|None, [(field, const_expr)...], [def...])
        ("import", dotted_name)
  program: {"body": [stmt...], "entry": "entry", "argvs": [[v...]...]}
"""
import json, random, re

INT, BOOL, STR, LIST, DICT, TUP = "int", "bool", "str", "list", "dict", "tup"
KEYS = ["k", "a", "b", "zz"]
WORDS = ["", "a", "ab", "xy", "hello", "q r", "lian", "z9", "abc"]
ARITH = ["+", "-", "*", "//", "%", "**"]
CMPS = ["<", "<=", ">", ">=", "==", "!="]


class Var:
    def __init__(self, name, ty, min_len=0, keys=(), cls=None, frozen=False):
        self.name, self.ty, self.min_len, self.keys, self.cls, self.frozen = name, ty, min_len, set(keys), cls, frozen


class Func:
    def __init__(self, name, params, ret, heavy, effectful, writes=()):
        self.name, self.params, self.ret, self.heavy, self.effectful = name, params, ret, heavy, effectful
        self.writes = set(writes)     # module-level names the function assigns (via `global`)


class Cls:
    def __init__(self, name, consts, fields, init_params, methods, base=None):
        self.name, self.consts, self.fields, self.init_params, self.methods = name, consts, fields, init_params, methods
        self.base = base
        self.fluent = []          # methods that return self: Func with ret == "self"
        self.helpers = []         # module-level functions taking an instance as first parameter

    def isa(self, other):
        c = self
        while c is not None:
            if c is other:
                return True
            c = c.base
        return False


def objty(c):
    """static type of expressions denoting an instance of class c (or a subclass)."""
    return ("obj", c)


class Scope:
    """What is definitely assigned at the current program point of one function body."""
    def __init__(self, gen, kind, parent=None, loop_depth=0, in_loop=False, fn=None):
        self.gen, self.kind, self.parent = gen, kind, parent   # kind: "module" | "func"
        self.vars = {}
        self.loop_depth, self.in_loop = loop_depth, in_loop
        self.fn = fn                      # dict: {"heavy": bool, "globals": set, "nonlocals": set, "name": str}
        self.frozen = set()
        self.fn_loop_kind = None          # kind of the innermost enclosing loop: "while" | "for"

    def child(self, in_loop=None, loop_inc=0):
        s = Scope(self.gen, self.kind, self.parent, self.loop_depth + loop_inc,
                  self.in_loop if in_loop is None else in_loop, self.fn)
        s.vars = dict(self.vars)
        s.frozen = set(self.frozen)
        s.fn_loop_kind = self.fn_loop_kind
        return s

    def of_type(self, ty, writable=False):
        return [v for v in self.vars.values() if v.ty == ty and not (writable and v.name in self.frozen)]

    def readable_outer(self, ty):
        """names readable (not assignable) from enclosing scopes: module globals / enclosing function locals."""
        res = []
        p = self.parent
        blocked = (self.fn or {}).get("blocked", ())
        while p is not None:
            for v in p.vars.values():
                if v.ty == ty and v.name not in self.vars and v.name not in blocked and all(v.name != r.name for r in res):
                    res.append(v)
            p = p.parent
        return res


class Gen:
    def __init__(self, seed, size="normal", features=None):
        self.rng = random.Random(seed)
        self.size = size
        self.n = 0
        self.funcs = []
        self.classes = []
        self.features = features        # None = everything; else a set of enabled feature names
        self.stmt_budget = 0
        self.tr = None                  # name of the tracing helper `def tr(v): print("tr", v); return v` (if defined)
        self.probes = []                # evaluation-order / evaluation-time probes generated (position classes)

    def on(self, feat):
        return self.features is None or feat in self.features

    # ---------------------------------------------------------------- names
    def fresh(self, prefix="v"):
        self.n += 1
        return f"{prefix}{self.n}"

    def chance(self, p):
        return self.rng.random() < p

    def pick(self, xs):
        return xs[self.rng.randrange(len(xs))]

    # ---------------------------------------------------------------- expressions
    def lit(self, ty):
        r = self.rng
        if ty == INT:
            return ("int", r.choice([0, 1, 2, 3, 4, 5, 7, 10, 12, 20, 100]) if r.random() < 0.8 else r.randint(0, 50))
        if ty == BOOL:
            return ("bool", r.random() < 0.5)
        if ty == STR:
            return ("str", r.choice(WORDS))
        if ty == LIST:
            return ("list", [self.lit(INT) for _ in range(r.randint(1, 4))])
        if ty == DICT:
            ks = r.sample(KEYS, r.randint(1, 3))
            return ("dict", [(("str", k), self.lit(INT)) for k in ks])
        if ty == TUP:
            return ("tuple", [self.lit(INT), self.lit(INT)])
        raise ValueError(ty)

    def var_of(self, sc, ty):
        cands = sc.of_type(ty) + sc.readable_outer(ty)
        return self.pick(cands) if cands else None

    def atom(self, sc, ty):
        v = self.var_of(sc, ty)
        if v is not None and self.chance(0.7):
            return ("name", v.name)
        if ty == INT and self.chance(0.15):
            return ("neg", self.lit(INT))
        return self.lit(ty)

    def expr(self, sc, ty, d=0):
        """expression of static type `ty` that cannot raise."""
        if isinstance(ty, tuple) and ty[0] == "obj":
            return self.e_obj(sc, ty[1], d)
        maxd = 3 if self.size != "small" else 2
        if d >= maxd or self.chance(0.25 + 0.1 * d):
            return self.atom(sc, ty)
        f = getattr(self, "e_" + ty)
        return f(sc, d)

    def objs_in(self, sc, c=None, outer=True):
        """object variables visible in the scope (optionally: instances of c), own scope first."""
        res = [v for v in sc.vars.values() if v.ty == "obj" and (c is None or v.cls.isa(c))]
        if outer:
            blocked = (sc.fn or {}).get("blocked", ())
            p = sc.parent
            while p is not None:
                for v in p.vars.values():
                    if v.ty == "obj" and (c is None or v.cls.isa(c)) and v.name not in sc.vars and v.name not in blocked \
                            and all(v.name != x.name for x in res):
                        res.append(v)
                p = p.parent
        return res

    def e_obj(self, sc, c, d):
        """expression denoting an instance of c: a variable (self, a parameter, a local, a module-level object),
        a fluent call on one, an element of a literal container holding one, or a fresh instance."""
        r = self.rng
        vs = self.objs_in(sc, c)
        if vs:
            v = self.pick(vs)
            k = r.random()
            nm = ("name", v.name)
            if k < 0.55 or d >= 2:
                return nm
            fl = [m for m in v.cls.fluent if not (m.heavy and sc.in_loop)]
            if k < 0.80 and fl and not sc.fn.get("no_fluent_on_self") if sc.fn else False:
                m = self.pick(fl)
                args, kws = self.call_args(sc, m, d + 1)
                return ("mcall", nm, m.name, args, kws)
            if k < 0.87 and self.on("containers"):
                return ("sub", ("list", [nm, nm]), ("int", r.choice([0, 1, -1])))
            if k < 0.93 and self.on("containers"):
                return ("sub", ("dict", [(("str", "k"), nm)]), ("str", "k"))
            if k < 0.97 and self.on("containers"):
                return ("sub", ("tuple", [nm, self.lit(INT)]), ("int", 0))
            return nm
        f = Func(c.name, c.init_params, "obj", False, False)
        args, kws = self.call_args(sc, f, d + 1)
        return ("call", c.name, args, kws)

    def small_int(self, sc, d):
        """an int expression bounded in absolute value (used as exponent base / repetition)."""
        return ("bin", "%", self.expr(sc, INT, d + 1), ("int", self.rng.choice([3, 5, 7])))

    def e_int(self, sc, d):
        r = self.rng
        if self.on("classes") and self.classes and self.chance(0.22) and self.objs_in(sc):
            c = self.obj_read(sc, d)
            if c is not None:
                return c
        k = r.random()
        if k < 0.30:
            op = r.choice(["+", "-", "+", "-", "*"])
            if op == "*":
                l = self.expr(sc, INT, d + 1)
                rr = ("int", r.choice([0, 1, 2, 3, -1, -2, 5]))
                if self.chance(0.3):
                    return ("bin", "%", ("bin", "*", l, self.expr(sc, INT, d + 1)), ("int", r.choice([97, 1000, 13])))
                return ("bin", "*", l, rr) if self.chance(0.5) else ("bin", "*", rr, l)
            return ("bin", op, self.expr(sc, INT, d + 1), self.expr(sc, INT, d + 1))
        if k < 0.40:
            op = r.choice(["//", "%"])
            dv = r.choice([2, 3, 4, 5, 7, -2, -3, 10])
            if self.chance(0.2) and self.on("builtins"):
                return ("bin", op, self.expr(sc, INT, d + 1),
                        ("bin", "+", ("call", "abs", [self.expr(sc, INT, d + 1)], []), ("int", 1)))
            return ("bin", op, self.expr(sc, INT, d + 1), ("int", dv) if dv > 0 else ("neg", ("int", -dv)))
        if k < 0.44:
            return ("bin", "**", self.small_int(sc, d), ("int", r.choice([0, 1, 2, 3])))
        if k < 0.49:
            return ("neg", self.expr(sc, INT, d + 1))
        if k < 0.56 and self.on("ifexp"):
            return ("ifexp", self.expr(sc, INT, d + 1), self.expr(sc, BOOL, d + 1), self.expr(sc, INT, d + 1))
        if k < 0.66 and self.on("calls"):
            c = self.call_expr(sc, INT, d)
            if c is not None:
                return c
        if k < 0.74 and self.on("containers"):
            c = self.container_read(sc, d)
            if c is not None:
                return c
        if k < 0.79 and self.on("builtins"):
            which = r.random()
            if which < 0.4 and self.on("containers"):
                ty = r.choice([LIST, STR, DICT])
                return ("call", "len", [self.expr(sc, ty, d + 1)], [])
            if which < 0.6:
                return ("call", "abs", [self.expr(sc, INT, d + 1)], [])
            return ("call", r.choice(["min", "max"]), [self.expr(sc, INT, d + 1), self.expr(sc, INT, d + 1)], [])
        if k < 0.84 and self.on("boolop"):
            # value semantics of and/or on ints
            return ("boolop", r.choice(["and", "or"]), self.expr(sc, INT, d + 1), self.expr(sc, INT, d + 1))
        if k < 0.90 and self.on("classes"):
            c = self.obj_read(sc, d)
            if c is not None:
                return c
        return ("bin", r.choice(["+", "-"]), self.atom(sc, INT), self.atom(sc, INT))

    def e_bool(self, sc, d):
        r = self.rng
        k = r.random()
        if k < 0.45:
            ty = INT if self.chance(0.8) else STR
            n = 1
            if self.on("chain") and self.chance(0.12):
                n = r.choice([2, 2, 3])
            ops = [r.choice(CMPS) for _ in range(n)]
            if ty == STR:
                ops = [r.choice(["==", "!=", "<", ">="]) for _ in range(n)]
            return ("cmp", ops, [self.expr(sc, ty, d + 1) for _ in range(n + 1)])
        if k < 0.65 and self.on("boolop"):
            l = self.expr(sc, BOOL, d + 1)
            rr = self.expr(sc, BOOL, d + 1)
            if self.on("calls") and self.chance(0.25):
                c = self.call_expr(sc, BOOL, d, want_effect=True)
                if c is not None:
                    rr = c
            return ("boolop", r.choice(["and", "or"]), l, rr)
        if k < 0.75:
            return ("not", self.expr(sc, BOOL, d + 1))
        if k < 0.83 and self.on("containers"):
            which = r.random()
            if which < 0.4:
                return ("cmp", [r.choice(["in", "not in"])], [self.expr(sc, INT, d + 1), self.expr(sc, LIST, d + 1)])
            if which < 0.7:
                return ("cmp", [r.choice(["in", "not in"])], [("str", r.choice(KEYS)), self.expr(sc, DICT, d + 1)])
            return ("cmp", [r.choice(["in", "not in"])], [("str", r.choice(["a", "b", "x", "el"])), self.expr(sc, STR, d + 1)])
        if k < 0.88 and self.on("calls"):
            c = self.call_expr(sc, BOOL, d)
            if c is not None:
                return c
        if k < 0.92 and self.on("ifexp"):
            return ("ifexp", self.expr(sc, BOOL, d + 1), self.expr(sc, BOOL, d + 1), self.expr(sc, BOOL, d + 1))
        if k < 0.95:
            v = self.var_of(sc, r.choice([INT, STR, LIST]))
            return ("cmp", [r.choice(["is", "is not"])], [("name", v.name) if v is not None else ("none",), ("none",)])
        return ("cmp", [r.choice(CMPS)], [self.atom(sc, INT), self.atom(sc, INT)])

    def e_str(self, sc, d):
        r = self.rng
        k = r.random()
        if k < 0.35:
            l, rr = self.expr(sc, STR, d + 1), self.lit(STR)
            return ("bin", "+", l, rr) if self.chance(0.6) else ("bin", "+", rr, l)
        if k < 0.50 and self.on("slices"):
            e = ("bin", "+", self.expr(sc, STR, d + 1), self.expr(sc, STR, d + 1)) if self.chance(0.6) else \
                ("bin", "*", self.expr(sc, STR, d + 1), ("int", r.choice([0, 1, 2, 3])))
            return ("slice", e, None, ("int", r.choice([4, 6, 8, 12])), None)
        if k < 0.60 and self.on("slices"):
            return self.slice_of(sc, self.expr(sc, STR, d + 1), d)
        if k < 0.72 and self.on("ifexp"):
            return ("ifexp", self.expr(sc, STR, d + 1), self.expr(sc, BOOL, d + 1), self.expr(sc, STR, d + 1))
        if k < 0.85 and self.on("calls"):
            c = self.call_expr(sc, STR, d)
            if c is not None:
                return c
        if k < 0.90 and self.on("boolop"):
            return ("boolop", r.choice(["and", "or"]), self.expr(sc, STR, d + 1), self.expr(sc, STR, d + 1))
        return self.atom(sc, STR)

    def slice_of(self, sc, e, d):
        r = self.rng
        def bound():
            k = r.random()
            if k < 0.25:
                return None
            if k < 0.65:
                return ("int", r.randint(0, 5))
            if k < 0.8 and self.on("slice_expr"):
                return ("neg", ("int", r.randint(1, 3)))
            if k < 0.9 and self.on("slice_expr"):
                return ("bin", "+", self.atom(sc, INT), ("int", 1))
            v = self.var_of(sc, INT)
            return ("name", v.name) if v is not None else ("int", r.randint(0, 3))
        step = None
        if self.chance(0.15):
            step = ("int", r.choice([1, 2, 3])) if self.chance(0.7) or not self.on("slice_expr") else ("neg", ("int", r.choice([1, 2])))
        return ("slice", e, bound(), bound(), step)

    def e_list(self, sc, d):
        r = self.rng
        k = r.random()
        if k < 0.35:
            return ("list", [self.expr(sc, INT, d + 1) for _ in range(r.randint(1, 4))])
        if k < 0.50:
            return ("bin", "+", self.expr(sc, LIST, d + 1), ("list", [self.expr(sc, INT, d + 1)]))
        if k < 0.62 and self.on("slices"):
            e = ("bin", "+", self.expr(sc, LIST, d + 1), self.expr(sc, LIST, d + 1)) if self.chance(0.6) else \
                ("bin", "*", self.expr(sc, LIST, d + 1), ("int", r.choice([0, 1, 2])))
            return ("slice", e, None, ("int", r.choice([4, 6, 8])), None)
        if k < 0.72 and self.on("slices"):
            return self.slice_of(sc, self.expr(sc, LIST, d + 1), d)
        if k < 0.85 and self.on("calls"):
            c = self.call_expr(sc, LIST, d)
            if c is not None:
                return c
        return self.atom(sc, LIST)

    def e_dict(self, sc, d):
        if self.chance(0.6):
            ks = self.rng.sample(KEYS, self.rng.randint(1, 3))
            return ("dict", [(("str", k), self.expr(sc, INT, d + 1)) for k in ks])
        return self.atom(sc, DICT)

    def e_tup(self, sc, d):
        if self.chance(0.6):
            return ("tuple", [self.expr(sc, INT, d + 1), self.expr(sc, INT, d + 1)])
        if self.on("calls"):
            c = self.call_expr(sc, TUP, d)
            if c is not None:
                return c
        return self.atom(sc, TUP)

    def container_read(self, sc, d):
        """int-valued read of a list / tuple / dict variable that cannot raise."""
        r = self.rng
        cands = []
        for v in sc.of_type(LIST) + sc.readable_outer(LIST):
            if v.min_len >= 1:
                cands.append(v)
        for v in sc.of_type(TUP) + sc.readable_outer(TUP):
            cands.append(v)
        for v in sc.of_type(DICT) + sc.readable_outer(DICT):
            cands.append(v)
        if not cands:
            return None
        v = self.pick(cands)
        nm = ("name", v.name)
        if v.ty == LIST:
            k = r.random()
            if k < 0.5:
                i = r.randrange(v.min_len)
                return ("sub", nm, ("int", i))
            if k < 0.7:
                i = r.randint(1, v.min_len)
                return ("sub", nm, ("neg", ("int", i)))
            return ("sub", nm, ("bin", "%", self.expr(sc, INT, d + 1), ("call", "len", [nm], [])))
        if v.ty == TUP:
            return ("sub", nm, ("int", r.choice([0, 1])))
        if v.keys and self.chance(0.6):
            return ("sub", nm, ("str", self.pick(sorted(v.keys))))
        if self.on("methods_builtin"):
            return ("mcall", nm, "get", [("str", r.choice(KEYS)), self.lit(INT)], [])
        if v.keys:
            return ("sub", nm, ("str", self.pick(sorted(v.keys))))
        return None

    def obj_read(self, sc, d):
        """int-valued read through an object: field, class constant, method call, fluent chain, helper call."""
        r = self.rng
        objs = self.objs_in(sc)
        if not objs:
            return None
        v = self.pick(objs)
        c = v.cls
        base = ("name", v.name)
        k = r.random()
        # receiver: the variable itself, or a fluent chain on it (receiver is then a temporary)
        fl = [m for m in c.fluent if not (m.heavy and sc.in_loop)]
        if fl and d < 2 and self.chance(0.35):
            for _ in range(r.randint(1, 2)):
                m = self.pick(fl)
                args, kws = self.call_args(sc, m, d + 1)
                base = ("mcall", base, m.name, args, kws)
        if k < 0.35 and c.fields:
            return ("attr", base, self.pick(c.fields))
        if k < 0.47 and c.consts:
            return ("attr", base if self.chance(0.6) else ("name", c.name), self.pick(c.consts))
        if k < 0.60 and c.helpers and base[0] == "name":
            hs = [h for h in c.helpers if h.ret == INT]
            if hs:
                h = self.pick(hs)
                args, kws = self.call_args(sc, h, d + 1)
                return ("call", h.name, args, kws)
        ms = [m for m in c.methods if m.ret == INT and not (sc.in_loop and m.heavy)
              and not (sc.fn and sc.fn.get("method_index") is not None and v.name == "self"
                       and m.index >= sc.fn["method_index"])]
        if ms:
            m = self.pick(ms)
            args, kws = self.call_args(sc, m, d + 1)
            return ("mcall", base, m.name, args, kws)
        if c.fields:
            return ("attr", base, self.pick(c.fields))
        return None

    def call_args(self, sc, f, d):
        """positional / keyword / defaulted arguments for signature f.params [(name, ty, default, kwonly)]."""
        args, kws = [], []
        n = len(f.params)
        # choose first index passed by keyword
        first_kw = n
        for i, (pn, ty, dflt, kwonly) in enumerate(f.params):
            if kwonly:
                first_kw = min(first_kw, i)
        if self.on("kwargs") and self.chance(0.35):
            first_kw = min(first_kw, self.rng.randint(0, n))
        for i, (pn, ty, dflt, kwonly) in enumerate(f.params):
            if dflt is not None and self.chance(0.45):
                if i < first_kw:
                    first_kw = i       # everything after an omitted positional must go by keyword
                continue
            e = self.expr(sc, ty, d + 1)
            if i < first_kw:
                args.append(e)
            else:
                kws.append((pn, e))
        if len(kws) > 1 and self.chance(0.4):
            self.rng.shuffle(kws)
        return args, kws

    def call_expr(self, sc, ty, d, want_effect=False):
        cands = [f for f in self.funcs if f.ret == ty and not (f.heavy and sc.in_loop)
                 and not (sc.fn and f.name == sc.fn.get("name"))]
        cands = [f for f in cands if sc.fn is None or f.name not in sc.fn.get("forbidden_calls", ())]
        # an instance argument must be available: a visible object, or a class whose definition is complete
        cands = [f for f in cands if all(not isinstance(pt[1], tuple) or getattr(pt[1][1], "complete", False)
                                         or self.objs_in(sc, pt[1][1]) for pt in f.params)]
        if want_effect:
            eff = [f for f in cands if f.effectful]
            if eff:
                cands = eff
        # local (nested) functions visible in this scope
        for v in sc.vars.values():
            if v.ty == "func" and v.cls.ret == ty and not (v.cls.heavy and sc.in_loop):
                cands.append(v.cls)
        if not cands:
            return None
        f = self.pick(cands)
        args, kws = self.call_args(sc, f, d)
        return ("call", f.name, args, kws)

    # ---------------------------------------------------------------- statements
    def block(self, sc, n, allow_ctl=False, fn_ret=None):
        body = []
        for _ in range(n):
            if self.stmt_budget <= 0:
                break
            st = self.stmt(sc, allow_ctl, fn_ret)
            if st is None:
                continue
            body.extend(st)
        if not body:
            body = [("pass",)]
        return body

    def new_var_stmt(self, sc, ty=None):
        r = self.rng
        if ty is None:
            tys = [INT, INT, INT, BOOL, STR]
            if self.on("containers"):
                tys += [LIST, LIST, DICT, TUP]
            ty = r.choice(tys)
        name = self.fresh()
        pool = (sc.fn or {}).get("shadow_pool")
        if pool and self.chance(0.6):
            name = pool.pop()          # a local that shadows a variable of an enclosing scope
        e = self.expr(sc, ty)
        v = Var(name, ty)
        if ty == LIST:
            v.min_len = self.list_min_len(sc, e)
        if ty == DICT and e[0] == "dict":
            v.keys = {k[1] for k, _ in e[1]}
        if ty == DICT and e[0] == "name":
            src = sc.vars.get(e[1])
            v.keys = set(src.keys) if src else set()
            if src is None:
                v.keys = set()
        sc.vars[name] = v
        return ("assign", ("name", name), e)

    def list_min_len(self, sc, e):
        if e[0] == "list":
            return len(e[1])
        if e[0] == "name":
            v = sc.vars.get(e[1])
            if v is None:
                p = sc.parent
                while p is not None and v is None:
                    v = p.vars.get(e[1])
                    p = p.parent
            return v.min_len if v else 0
        if e[0] == "bin" and e[1] == "+":
            return self.list_min_len(sc, e[2]) + self.list_min_len(sc, e[3])
        return 0

    def stmt(self, sc, allow_ctl, fn_ret):
        r = self.rng
        self.stmt_budget -= 1
        k = r.random()
        writable = lambda ty: sc.of_type(ty, writable=True)
        if self.tr and self.on("probes") and self.chance(0.13):
            st = self.probe_stmt(sc)
            if st:
                return st
        if self.on("classes") and self.classes and self.chance(0.22):
            st = self.obj_stmt(sc)
            if st:
                return st
        if k < 0.20 or len(sc.vars) < 2:
            return [self.new_var_stmt(sc)]
        if k < 0.30:
            # re-assignment keeping the type
            ty = r.choice([INT, INT, BOOL, STR])
            vs = writable(ty)
            if not vs:
                return [self.new_var_stmt(sc, ty)]
            v = self.pick(vs)
            return [("assign", ("name", v.name), self.expr(sc, ty))]
        if k < 0.40 and self.on("aug"):
            return self.aug_stmt(sc)
        if k < 0.47 and self.on("unpack"):
            return self.unpack_stmt(sc)
        if k < 0.55 and self.on("containers"):
            return self.container_write(sc)
        if k < 0.66:
            return self.if_stmt(sc, allow_ctl, fn_ret)
        if k < 0.73 and self.on("while") and sc.loop_depth < 2 and (sc.fn is None or sc.fn["heavy"]):
            return self.while_stmt(sc, fn_ret)
        if k < 0.81 and self.on("for") and sc.loop_depth < 2 and (sc.fn is None or sc.fn["heavy"]):
            return self.for_stmt(sc, fn_ret)
        if k < 0.89:
            return [self.print_stmt(sc)]
        if k < 0.93 and self.on("calls"):
            fs = [f for f in self.funcs if not (f.heavy and sc.in_loop) and not (sc.fn and f.name == sc.fn.get("name"))
                  and (sc.fn is None or f.name not in sc.fn.get("forbidden_calls", ()))]
            fs = [f for f in fs if all(not isinstance(pt[1], tuple) or getattr(pt[1][1], "complete", False)
                                       or self.objs_in(sc, pt[1][1]) for pt in f.params)]
            if fs:
                f = self.pick(fs)
                args, kws = self.call_args(sc, f, 1)
                return [("expr", ("call", f.name, args, kws))]
        if k < 0.96 and self.on("classes"):
            st = self.obj_stmt(sc)
            if st:
                return st
        if allow_ctl and sc.in_loop:
            ctl = "break" if (self.chance(0.6) or sc.fn_loop_kind == "while") else "continue"
            return [("if", [(self.expr(sc, BOOL, 1), [(ctl,)])], None)]
        if self.on("chain_assign") and self.chance(0.3):
            a, b = self.fresh(), self.fresh()
            e = self.expr(sc, INT)
            sc.vars[a] = Var(a, INT)
            sc.vars[b] = Var(b, INT)
            return [("chain_assign", [a, b], e)]
        return [self.new_var_stmt(sc)]

    # ---------------------------------------------------------------- evaluation-order probes
    def probe_stmt(self, sc):
        """one statement (plus a print of its result) in which at least TWO sub-expressions have a visible
        effect (the tracing helper), placed in distinct operand positions of one construct."""
        r = self.rng
        T = self.T
        a = lambda ty=INT: T(self.atom(sc, ty))
        kinds = ["call_pos_kw", "call_kw_kw", "call_pos_pos", "callee_expr", "binop", "boolop", "chain", "ifexp", "list_lit",
                 "tuple_lit", "dict_lit", "print_args", "unpack_bare", "sub_read", "sub_store", "sub_aug", "slice", "slice_step",
                 "method_args", "attr_store", "attr_aug", "for_iter", "default_def", "default_rebind", "closure_rebind",
                 "nested_call_args", "return_like_tuple"]
        kinds += ["sub_read", "sub_store", "sub_aug", "slice", "slice_step", "attr_store", "attr_aug", "method_args",
                  "call_pos_kw", "call_kw_kw", "callee_expr"] * 3
        lists = [v for v in sc.of_type(LIST, writable=True) if v.min_len >= 1]
        objs = [v for v in self.objs_in(sc, outer=False) if v.cls.fields and v.name not in sc.frozen]
        fn2 = [f for f in self.funcs if len(f.params) >= 2 and not f.heavy and not any(isinstance(p[1], tuple) for p in f.params)
               and not any(p[3] for p in f.params[:1]) and not (sc.fn and f.name == sc.fn.get("name"))
               and (sc.fn is None or f.name not in sc.fn.get("forbidden_calls", ()))]
        fn1 = [f for f in self.funcs if len(f.params) >= 1 and not f.heavy and not any(isinstance(p[1], tuple) for p in f.params)
               and not f.params[0][3] and not (sc.fn and f.name == sc.fn.get("name"))
               and (sc.fn is None or f.name not in sc.fn.get("forbidden_calls", ()))]
        in_method = bool(sc.fn and sc.fn.get("method_index") is not None)
        for _ in range(6):
            k = r.choice(kinds)
            res = self.fresh()
            out = None
            if k in ("call_pos_kw", "call_kw_kw", "nested_call_args") and fn2:
                f = self.pick(fn2)
                n = len(f.params)
                first_kw = 0 if k == "call_kw_kw" else r.randint(1, n - 1)
                for i, pp in enumerate(f.params):
                    if pp[3]:
                        first_kw = min(first_kw, i)
                if k != "call_kw_kw" and first_kw == 0:
                    continue
                pos = [T(self.atom(sc, pp[1])) for pp in f.params[:first_kw]]
                if k == "nested_call_args" and f.params[0][1] == INT:
                    pos[0] = T(("bin", "+", a(), a()))
                kws = [(pp[0], T(self.atom(sc, pp[1]))) for pp in f.params[first_kw:]]
                if len(kws) > 1 and self.chance(0.5):
                    r.shuffle(kws)
                out = [("assign", ("name", res), ("call", f.name, pos, kws))]
                sc.vars[res] = Var(res, "any")
            elif k == "call_pos_pos":
                out = [("assign", ("name", res), ("call", r.choice(["min", "max"]), [a(), a(), a()], []))]
                sc.vars[res] = Var(res, INT)
            elif k == "callee_expr" and fn1:
                f = self.pick(fn1)
                npos = 0
                while npos < len(f.params) and not f.params[npos][3]:
                    npos += 1
                if any(pp[2] is None for pp in f.params[npos:]):
                    continue
                args = [T(self.atom(sc, pp[1])) for pp in f.params[:npos]]
                out = [("assign", ("name", res), ("callx", T(("name", f.name)), args, []))]
                sc.vars[res] = Var(res, "any")
            elif k == "binop":
                out = [("assign", ("name", res), ("bin", r.choice(["+", "-", "*"]), a(), ("bin", r.choice(["+", "-"]), a(), a())))]
                sc.vars[res] = Var(res, INT)
            elif k == "boolop" and self.on("boolop"):
                out = [("assign", ("name", res), ("boolop", r.choice(["and", "or"]), a(BOOL), a(BOOL)))]
                sc.vars[res] = Var(res, BOOL)
            elif k == "chain" and self.on("chain"):
                out = [("assign", ("name", res), ("cmp", [r.choice(CMPS), r.choice(CMPS)], [a(), a(), a()]))]
                sc.vars[res] = Var(res, BOOL)
            elif k == "ifexp" and self.on("ifexp"):
                out = [("assign", ("name", res), ("ifexp", a(), a(BOOL), a()))]
                sc.vars[res] = Var(res, INT)
            elif k == "list_lit" and self.on("containers"):
                out = [("assign", ("name", res), ("list", [a(), a(), a()]))]
                sc.vars[res] = Var(res, LIST, min_len=3)
            elif k == "tuple_lit" and self.on("containers"):
                out = [("assign", ("name", res), ("tuple", [a(), a()]))]
                sc.vars[res] = Var(res, TUP)
            elif k == "dict_lit" and self.on("containers"):
                k1, k2 = r.sample(KEYS, 2)
                out = [("assign", ("name", res), ("dict", [(T(("str", k1)), a()), (T(("str", k2)), a())]))]
                sc.vars[res] = Var(res, DICT, keys=(k1, k2))
            elif k == "print_args":
                return self._probe(k, [("print", [a(), a(r.choice([INT, STR, BOOL])), a()])])
            elif k == "unpack_bare" and self.on("unpack"):
                n1, n2 = self.fresh(), self.fresh()
                e1, e2 = a(), a()
                sc.vars[n1] = Var(n1, INT)
                sc.vars[n2] = Var(n2, INT)
                return self._probe(k, [("unpack", [("name", n1), ("name", n2)], ("tuple", [e1, e2]), "bare"),
                                       ("print", [("name", n1), ("name", n2)])])
            elif k == "return_like_tuple" and self.on("containers"):
                out = [("assign", ("name", res), ("tuple", [a(), ("list", [a(), a()]), a(STR)]))]
                sc.vars[res] = Var(res, "any")
            elif k == "sub_read" and lists:
                v = self.pick(lists)
                out = [("assign", ("name", res), ("sub", T(("name", v.name)), T(("int", r.randrange(v.min_len)))))]
                sc.vars[res] = Var(res, INT)
            elif k == "sub_store" and lists:
                v = self.pick(lists)
                return self._probe(k, [("assign", ("sub", T(("name", v.name)), T(("int", r.randrange(v.min_len)))), a()),
                                       ("print", [("name", v.name)])])
            elif k == "sub_aug" and lists and self.on("aug"):
                v = self.pick(lists)
                return self._probe(k, [("aug", r.choice(["+", "-"]), ("sub", T(("name", v.name)), T(("int", r.randrange(v.min_len)))), a()),
                                       ("print", [("name", v.name)])])
            elif k in ("slice", "slice_step") and lists and self.on("slices"):
                v = self.pick(lists)
                step = T(("int", r.choice([1, 2]))) if k == "slice_step" else None
                out = [("assign", ("name", res), ("slice", T(("name", v.name)), T(("int", r.randint(0, 1))), T(("int", r.randint(1, 3))), step))]
                sc.vars[res] = Var(res, LIST)
            elif k == "method_args" and objs:
                v = self.pick(objs)
                ms = [m for m in v.cls.methods + v.cls.fluent if len(m.params) >= 1 and not m.heavy
                      and not any(isinstance(p[1], tuple) for p in m.params)
                      and not (in_method and v.name == "self")]
                if not ms:
                    continue
                m = self.pick(ms)
                first_kw = r.randint(0, len(m.params))
                for i, pp in enumerate(m.params):
                    if pp[3]:
                        first_kw = min(first_kw, i)
                pos = [T(self.atom(sc, pp[1])) for pp in m.params[:first_kw]]
                kws = [(pp[0], T(self.atom(sc, pp[1]))) for pp in m.params[first_kw:]]
                return self._probe(k, [("expr", ("mcall", T(("name", v.name)), m.name, pos, kws)), ("print", [("name", v.name)])])
            elif k == "attr_store" and objs:
                v = self.pick(objs)
                return self._probe(k, [("assign", ("attr", T(("name", v.name)), self.pick(v.cls.fields)), a()),
                                       ("print", [("name", v.name)])])
            elif k == "attr_aug" and objs and self.on("aug"):
                v = self.pick(objs)
                return self._probe(k, [("aug", "+", ("attr", T(("name", v.name)), self.pick(v.cls.fields)), a()),
                                       ("print", [("name", v.name)])])
            elif k == "for_iter" and self.on("for") and sc.loop_depth < 2 and self.on("containers"):
                j = self.fresh("j")
                return self._probe(k, [("for", [j], T(("list", [a(), a()])), [("print", [T(("name", j))])], None)])
            elif k in ("default_def", "default_rebind", "closure_rebind") and self.on("nested") and not in_method \
                    and sc.kind == "func" and not sc.in_loop:
                ints = [v for v in sc.of_type(INT, writable=True)]
                if k != "default_def" and not ints:
                    continue
                iname = self.fresh("inner")
                if k == "default_def":
                    p1, p2 = self.fresh("p"), self.fresh("p")
                    d = ("def", iname, [(p1, a(), False), (p2, T(("bin", "+", a(), ("int", 1))), False)],
                         [("return", ("bin", "-", ("name", p1), ("name", p2)))])
                    call = ("call", iname, [], []) if self.chance(0.5) else ("call", iname, [a()], [])
                    out = [d, ("assign", ("name", res), call)]
                elif k == "default_rebind":
                    v = self.pick(ints)
                    p1 = self.fresh("p")
                    d = ("def", iname, [(p1, ("name", v.name), False)], [("return", ("bin", "*", ("name", p1), ("int", 2)))])
                    out = [d, ("assign", ("name", v.name), ("bin", "+", ("name", v.name), ("int", r.choice([1, 7])))),
                           ("assign", ("name", res), ("call", iname, [], []))]
                else:
                    v = self.pick(ints)
                    d = ("def", iname, [], [("return", ("bin", "*", ("name", v.name), ("int", 3)))])
                    out = [d, ("assign", ("name", v.name), ("bin", "+", ("name", v.name), ("int", r.choice([1, 7])))),
                           ("assign", ("name", res), ("call", iname, [], []))]
                sc.vars[res] = Var(res, INT)
            if out is not None:
                return self._probe(k, out + [("print", [("name", res)])])
        return None

    def _probe(self, kind, stmts):
        self.probes.append(kind)
        return stmts

    def print_stmt(self, sc):
        r = self.rng
        vs = [v for v in sc.vars.values() if v.ty in (INT, BOOL, STR, LIST, DICT, TUP)]
        args = []
        for _ in range(r.randint(1, 3)):
            if vs and self.chance(0.7):
                args.append(("name", self.pick(vs).name))
            else:
                args.append(self.expr(sc, r.choice([INT, BOOL, STR]), 1))
        return ("print", args)

    def aug_stmt(self, sc):
        r = self.rng
        k = r.random()
        if k < 0.15 and self.on("containers"):
            ls = [v for v in sc.of_type(LIST, writable=True) if v.min_len >= 1]
            if ls:
                v = self.pick(ls)
                i = r.randrange(v.min_len)
                return [("aug", r.choice(["+", "-", "*"]), ("sub", ("name", v.name), ("int", i)), self.aug_rhs(sc, INT, v.name))]
            ds = [v for v in sc.of_type(DICT, writable=True) if v.keys]
            if ds:
                v = self.pick(ds)
                return [("aug", r.choice(["+", "-"]), ("sub", ("name", v.name), ("str", self.pick(sorted(v.keys)))), self.aug_rhs(sc, INT, v.name))]
        if k < 0.30:
            vs = sc.of_type(STR, writable=True)
            if vs:
                return [("aug", "+", ("name", self.pick(vs).name), self.lit(STR))]
        vs = sc.of_type(INT, writable=True)
        if not vs:
            return [self.new_var_stmt(sc, INT)]
        v = self.pick(vs)
        op = r.choice(["+", "-", "+", "-", "*", "//", "%"])
        if op == "*":
            return [("aug", op, ("name", v.name), ("int", r.choice([2, 3, -1])))]
        if op in ("//", "%"):
            return [("aug", op, ("name", v.name), ("int", r.choice([2, 3, 5])))]
        return [("aug", op, ("name", v.name), self.aug_rhs(sc, INT, v.name))]

    def aug_rhs(self, sc, ty, target_name):
        # favour calls of functions that write the target (evaluation-order sensitive)
        if self.on("calls"):
            fs = [f for f in self.funcs if f.ret == ty and target_name in f.writes and not (f.heavy and sc.in_loop)
                  and (sc.fn is None or f.name not in sc.fn.get("forbidden_calls", ()))]
            if fs and self.chance(0.8):
                f = self.pick(fs)
                args, kws = self.call_args(sc, f, 1)
                return ("call", f.name, args, kws)
        return self.expr(sc, ty, 1)

    def unpack_stmt(self, sc):
        r = self.rng
        style = r.choice(["bare", "bare", "bare", "paren", "bracket"])
        k = r.random()
        ints = sc.of_type(INT, writable=True)
        if k < 0.3 and len(ints) >= 2:
            a, b = r.sample(ints, 2)
            return [("unpack", [("name", a.name), ("name", b.name)], ("tuple", [("name", b.name), ("name", a.name)]), style)]
        if k < 0.4 and self.on("unpack_sub"):
            ls = [v for v in sc.of_type(LIST, writable=True) if v.min_len >= 2]
            if ls:
                v = self.pick(ls)
                i, j = r.sample(range(v.min_len), 2)
                return [("unpack", [("sub", ("name", v.name), ("int", i)), ("sub", ("name", v.name), ("int", j))],
                         ("tuple", [self.expr(sc, INT, 1), self.expr(sc, INT, 1)]), "bare")]
        n = r.choice([2, 2, 3])
        names = [self.fresh() for _ in range(n)]
        if n == 2 and self.chance(0.4):
            e = self.expr(sc, TUP, 1)
        elif self.chance(0.5):
            e = ("tuple", [self.expr(sc, INT, 1) for _ in range(n)])
        else:
            e = ("list", [self.expr(sc, INT, 1) for _ in range(n)])
        for nm in names:
            sc.vars[nm] = Var(nm, INT)
        return [("unpack", [("name", nm) for nm in names], e, style)]

    def container_write(self, sc):
        r = self.rng
        k = r.random()
        ls = sc.of_type(LIST, writable=True)
        ds = sc.of_type(DICT, writable=True)
        if k < 0.35 and ls:
            v = self.pick(ls)
            if v.min_len >= 1 and self.chance(0.6):
                return [("assign", ("sub", ("name", v.name), ("int", r.randrange(v.min_len))), self.expr(sc, INT, 1))]
            if self.on("methods_builtin"):
                v.min_len += 0          # append inside a branch must not raise the static bound
                return [("expr", ("mcall", ("name", v.name), "append", [self.expr(sc, INT, 1)], []))]
        if k < 0.7 and ds:
            v = self.pick(ds)
            key = r.choice(KEYS)
            st = ("assign", ("sub", ("name", v.name), ("str", key)), self.expr(sc, INT, 1))
            return [st]
        if ls:
            v = self.pick(ls)
            if v.min_len >= 1:
                return [("assign", ("sub", ("name", v.name), ("neg", ("int", r.randint(1, v.min_len)))), self.expr(sc, INT, 1))]
        return [self.new_var_stmt(sc, r.choice([LIST, DICT]))]

    def if_stmt(self, sc, allow_ctl, fn_ret):
        r = self.rng
        if allow_ctl and sc.in_loop and self.chance(0.2):
            ctl = "break" if (self.chance(0.5) or sc.fn_loop_kind == "while") else "continue"
            return [("if", [(self.expr(sc, BOOL, 1), [(ctl,)])], None)]
        arms = []
        n = 1 if self.chance(0.7) else r.choice([2, 3])
        for _ in range(n):
            c = self.expr(sc, BOOL, 0 if self.chance(0.5) else 1)
            if self.chance(0.1):
                c = self.atom(sc, r.choice([INT, STR, BOOL]))     # truthiness of a non-bool
            inner = sc.child()
            body = self.block(inner, r.randint(1, 3), allow_ctl, fn_ret)
            if fn_ret is not None and self.chance(0.12):
                body.append(("return", self.ret_expr(inner, fn_ret)))
            arms.append((c, body))
        els = None
        if self.chance(0.5):
            inner = sc.child()
            els = self.block(inner, r.randint(1, 3), allow_ctl, fn_ret)
        return [("if", arms, els)]

    def ret_expr(self, sc, ty):
        return self.expr(sc, ty, 1)

    def while_stmt(self, sc, fn_ret):
        r = self.rng
        cnt = self.fresh("i")
        bound = r.randint(1, 4)
        sc.vars[cnt] = Var(cnt, INT)
        pre = ("assign", ("name", cnt), ("int", 0))
        base = ("cmp", ["<"], [("name", cnt), ("int", bound)])
        k = r.random()
        if k < 0.55:
            cond = base
        elif k < 0.75 and self.on("boolop"):
            cond = ("boolop", "and", base, self.expr(sc, BOOL, 1))
        elif k < 0.85 and self.on("boolop"):
            cond = ("boolop", "and", self.expr(sc, BOOL, 1), base)
        elif k < 0.92:
            cond = ("cmp", [">"], [("bin", "-", ("int", bound), ("name", cnt)), ("int", 0)])
        else:
            # atomic condition: a flag variable recomputed in the body
            flag = self.fresh("go")
            sc.vars[flag] = Var(flag, BOOL)
            inner = sc.child(in_loop=True, loop_inc=1)
            inner.fn_loop_kind = "while"
            inner.frozen |= {cnt, flag}
            body = [("aug", "+", ("name", cnt), ("int", 1))]
            body += self.block(inner, r.randint(1, 3), True, fn_ret)
            body.append(("assign", ("name", flag), base))
            return [pre, ("assign", ("name", flag), ("bool", True)), ("while", ("name", flag), body, None)]
        inner = sc.child(in_loop=True, loop_inc=1)
        inner.fn_loop_kind = "while"
        inner.frozen.add(cnt)
        before = sc.child(in_loop=True, loop_inc=1)
        body = [("aug", "+", ("name", cnt), ("int", 1))]
        body += self.block(inner, r.randint(1, 4), True, fn_ret)
        if self.on("continue") and self.chance(0.12):
            pos = r.randint(1, len(body))
            body.insert(pos, ("if", [(self.expr(before, BOOL, 1), [("continue",)])], None))
        els = None
        if self.chance(0.15):
            els = self.block(sc.child(), 1, False, fn_ret)
        return [pre, ("while", cond, body, els)]

    def for_stmt(self, sc, fn_ret):
        r = self.rng
        k = r.random()
        inner = sc.child(in_loop=True, loop_inc=1)
        inner.fn_loop_kind = "for"
        names = [self.fresh("j")]
        if k < 0.35:
            it = ("call", "range", [("int", r.randint(0, 4))], []) if self.chance(0.6) else \
                 ("call", "range", [("int", r.randint(0, 2)), ("int", r.randint(2, 5))] +
                  ([("int", r.choice([1, 2]))] if self.chance(0.3) else []), [])
            inner.vars[names[0]] = Var(names[0], INT)
        elif k < 0.55 and self.on("containers"):
            it = ("list", [self.expr(sc, INT, 2) for _ in range(r.randint(1, 4))])
            inner.vars[names[0]] = Var(names[0], INT)
        elif k < 0.70 and self.on("containers") and sc.of_type(LIST):
            v = self.pick(sc.of_type(LIST))
            it = ("name", v.name)
            inner.frozen.add(v.name)
            inner.vars[names[0]] = Var(names[0], INT)
        elif k < 0.80 and self.on("containers") and sc.of_type(DICT):
            v = self.pick(sc.of_type(DICT))
            it = ("name", v.name)
            inner.frozen.add(v.name)
            inner.vars[names[0]] = Var(names[0], STR)
        elif k < 0.88:
            it = self.atom(sc, STR)
            if it[0] == "name":
                inner.frozen.add(it[1])
            inner.vars[names[0]] = Var(names[0], STR)
        elif self.on("containers") and self.on("unpack"):
            names = [self.fresh("j"), self.fresh("j")]
            it = ("list", [("tuple", [self.expr(sc, INT, 2), self.expr(sc, INT, 2)]) for _ in range(r.randint(1, 3))])
            for nm in names:
                inner.vars[nm] = Var(nm, INT)
        else:
            it = ("call", "range", [("int", r.randint(1, 3))], [])
            inner.vars[names[0]] = Var(names[0], INT)
        inner.frozen |= set(names)
        body = self.block(inner, r.randint(1, 4), True, fn_ret)
        els = None
        if self.chance(0.08):
            els = self.block(sc.child(), 1, False, fn_ret)
        return [("for", names, it, body, els)]

    def new_obj(self, sc, c=None):
        c = c or self.pick(self.classes)
        name = self.fresh("o")
        f = Func(c.name, c.init_params, "obj", False, False)
        args, kws = self.call_args(sc, f, 1)
        v = Var(name, "obj", cls=c)
        v.root = name
        v.order = self.n
        sc.vars[name] = v
        return [("assign", ("name", name), ("call", c.name, args, kws))]

    def obj_stmt(self, sc):
        r = self.rng
        if not self.classes:
            return None
        objs = [v for v in self.objs_in(sc, outer=False) if v.name not in sc.frozen or v.name == "self"]
        own = [v for v in objs if v.name != "self"]
        if (not objs or self.chance(0.2)) and not (sc.fn and sc.fn.get("method_index") is not None):
            return self.new_obj(sc)
        if not objs:
            return None
        v = self.pick(objs)
        c = v.cls
        nm = ("name", v.name)
        in_method = bool(sc.fn and sc.fn.get("method_index") is not None)
        k = r.random()
        if k < 0.18 and c.fields:
            return [("assign", ("attr", nm, self.pick(c.fields)), self.expr(sc, INT, 1))]
        if k < 0.30 and c.fields and self.on("aug"):
            fld = self.pick(c.fields)
            rhs = self.expr(sc, INT, 1)
            ms = [m for m in c.methods if m.ret == INT and fld in m.writes and not m.heavy and not in_method]
            if ms and self.chance(0.6):
                m = self.pick(ms)
                args, kws = self.call_args(sc, m, 1)
                rhs = ("mcall", nm, m.name, args, kws)
            return [("aug", r.choice(["+", "-"]), ("attr", nm, fld), rhs)]
        fl = [m for m in c.fluent if not (m.heavy and sc.in_loop)]
        if k < 0.45 and fl and not in_method:
            # fluent chain as a statement, or bound to a new name (an alias of the same object)
            e = nm
            for _ in range(r.randint(1, 3)):
                m = self.pick(fl)
                args, kws = self.call_args(sc, m, 1)
                e = ("mcall", e, m.name, args, kws)
            if self.chance(0.5):
                return [("expr", e)]
            al = self.fresh("o")
            av = Var(al, "obj", cls=c)
            av.root = getattr(v, "root", v.name)
            av.order = getattr(v, "order", 0)
            sc.vars[al] = av
            return [("assign", ("name", al), e)]
        if k < 0.53 and c.consts:
            # instance attribute shadowing the class attribute / class attribute write
            kk = self.pick(c.consts)
            tgt = nm if self.chance(0.6) else ("name", c.name)
            return [("assign", ("attr", tgt, kk), self.expr(sc, INT, 1)),
                    ("print", [("attr", nm, kk), ("attr", ("name", c.name), kk)])]
        if k < 0.62 and len(own) >= 2 and not in_method:
            # store one object in a field of another (never cyclic: only towards later-created roots)
            a, b = r.sample(own, 2)
            if getattr(a, "order", 0) > getattr(b, "order", 0):
                a, b = b, a
            if getattr(a, "root", a.name) != getattr(b, "root", b.name) and getattr(a, "order", 0) < getattr(b, "order", 0) \
                    and b.cls.fields and not getattr(b, "linked_from", False):
                a.linked_from = True          # a now refers to b; b must never refer (transitively) to a
                return [("assign", ("attr", ("name", a.name), "lnk"), ("name", b.name)),
                        ("print", [("attr", ("attr", ("name", a.name), "lnk"), self.pick(b.cls.fields))])]
        if k < 0.72 and self.on("containers"):
            # objects stored in containers and used through them
            o2 = self.pick(objs)
            ln = self.fresh()
            sc.vars[ln] = Var(ln, "objlist")
            st = [("assign", ("name", ln), ("list", [nm, ("name", o2.name)]))]
            if c.fields:
                st.append(("print", [("attr", ("sub", ("name", ln), ("int", 0)), self.pick(c.fields)),
                                     ("call", "len", [("name", ln)], [])]))
            return st
        if k < 0.80:
            return [("print", [nm])]
        ms = [m for m in c.methods if not (m.heavy and sc.in_loop)
              and not (in_method and v.name == "self" and m.index >= sc.fn["method_index"])]
        if ms:
            m = self.pick(ms)
            args, kws = self.call_args(sc, m, 1)
            return [("expr", ("mcall", nm, m.name, args, kws))]
        return None

    # ---------------------------------------------------------------- functions / classes / program
    def gen_params(self, scope_for_defaults, n=None, allow_kwonly=True):
        r = self.rng
        n = r.randint(0, 3) if n is None else n
        params = []
        seen_default = False
        kwonly = False
        for i in range(n):
            ty = r.choice([INT, INT, INT, STR, BOOL] + ([LIST] if self.on("containers") else []))
            name = self.fresh("p")
            dflt = None
            if allow_kwonly and self.on("kwonly") and not kwonly and i > 0 and self.chance(0.15):
                kwonly = True
            if self.on("defaults") and (seen_default or self.chance(0.3)) and ty != LIST:
                v = self.var_of(scope_for_defaults, ty) if scope_for_defaults is not None else None
                k = self.rng.random()
                if k < 0.30 and v is not None and self.on("default_expr"):
                    dflt = ("name", v.name)               # bare name: its value at DEFINITION time is the default
                    self.probes.append("default_bare_name")
                elif k < 0.40 and ty == INT and scope_for_defaults is not None and self.on("default_expr") and self.default_attr(scope_for_defaults):
                    dflt = self.default_attr(scope_for_defaults)
                    self.probes.append("default_attribute_read")
                elif k < 0.50 and self.tr and self.on("default_expr"):
                    dflt = self.T(self.lit(ty))
                    self.probes.append("default_effectful")
                elif k < 0.70 and scope_for_defaults is not None and self.on("default_expr"):
                    dflt = self.expr(scope_for_defaults, ty, 2)
                else:
                    dflt = self.lit(ty) if not (ty == INT and self.chance(0.2)) else ("neg", self.lit(INT))
                seen_default = True
            if kwonly and dflt is None and self.chance(0.5):
                dflt = self.lit(ty)
            if not kwonly and seen_default and dflt is None:
                dflt = self.lit(ty)
            params.append((name, ty, dflt, kwonly))
        return params

    def default_attr(self, sc):
        """an int-valued attribute read usable as a default: field of a visible object or a class constant."""
        objs = [v for v in self.objs_in(sc) if v.cls.fields and v.name != "self"]
        if objs:
            v = objs[0]
            return ("attr", ("name", v.name), v.cls.fields[0])
        cs = [c for c in self.classes if c.consts and getattr(c, "complete", False)]
        if cs:
            return ("attr", ("name", cs[0].name), cs[0].consts[0])
        return None

    def T(self, e):
        """e wrapped in the tracing helper (identity with a visible effect)."""
        return ("call", self.tr, [e], [])

    def rebind_stmts(self, sc, names=None):
        """rebind variables between a definition and its use (definition-time vs call-time observability)."""
        out = []
        cands = [v for v in sc.vars.values() if v.ty in (INT, STR, BOOL) and v.name not in sc.frozen
                 and (names is None or v.name in names)]
        self.rng.shuffle(cands)
        for v in cands[:self.rng.randint(1, 2)]:
            if v.ty == INT:
                out.append(("assign", ("name", v.name), ("bin", "+", ("name", v.name), ("int", self.rng.choice([1, 5, 10])))))
            elif v.ty == STR:
                out.append(("assign", ("name", v.name), ("bin", "+", ("name", v.name), ("str", "R"))))
            else:
                out.append(("assign", ("name", v.name), ("not", ("name", v.name))))
        return out

    def gen_func(self, outer, name, heavy, nested=False, method_of=None):
        """returns (def stmt, Func)."""
        r = self.rng
        params = self.gen_params(outer)
        ret = r.choice([INT, INT, INT, BOOL, STR] + ([LIST, TUP] if self.on("containers") else []))
        fninfo = {"heavy": heavy, "name": name, "globals": set(), "nonlocals": set(), "forbidden_calls": set()}
        self.pick_shadows(outer, fninfo)
        sc = Scope(self, "func", parent=outer, fn=fninfo)
        for (pn, ty, dflt, kwonly) in params:
            sc.vars[pn] = Var(pn, ty, frozen=False)
        body = []
        writes = set()
        effectful = False
        if method_of is not None:
            sc.vars["self"] = Var("self", "obj", cls=method_of)
            sc.frozen.add("self")
            fninfo["method_index"] = len(method_of.methods) + len(method_of.fluent)
        # writes to enclosing variables
        if not nested and method_of is None and self.on("global") and self.chance(0.3):
            gs = [v for v in outer.vars.values() if v.ty in (INT, STR) and outer.kind == "module" and v.name not in fninfo["blocked"]]
            if gs:
                g = self.pick(gs)
                body.append(("global", [g.name]))
                fninfo["globals"].add(g.name)
                sc.vars[g.name] = Var(g.name, g.ty)
                writes.add(g.name)
                if g.ty == INT:
                    body.append(("assign", ("name", g.name), ("bin", "+", ("name", g.name), self.expr(sc, INT, 2))))
                else:
                    body.append(("aug", "+", ("name", g.name), self.lit(STR)))
                effectful = True
        if nested and self.on("nonlocal") and self.chance(0.5):
            cands = [v for v in outer.vars.values() if v.ty == INT and v.name not in outer.frozen
                     and v.name not in (outer.fn or {}).get("globals", ()) and v.name not in fninfo["blocked"]]
            if cands:
                k = 2 if (len(cands) >= 2 and self.on("nonlocal2") and self.chance(0.3)) else 1
                chosen = r.sample(cands, k)
                body.append(("nonlocal", [v.name for v in chosen]))
                for v in chosen:
                    sc.vars[v.name] = Var(v.name, INT)
                    writes.add(v.name)
                    body.append(("assign", ("name", v.name), ("bin", "+", ("name", v.name), self.expr(sc, INT, 2))))
                effectful = True
        if method_of is not None and method_of.fields and self.chance(0.5):
            fld = self.pick(method_of.fields)
            writes.add(fld)
            body.append(("aug" if self.on("aug") else "assign", "+", ("attr", ("name", "self"), fld), self.expr(sc, INT, 2))
                        if self.on("aug") else
                        ("assign", ("attr", ("name", "self"), fld), self.expr(sc, INT, 2)))
            effectful = True
        if self.chance(0.3):
            body.append(("print", [("str", name)] + [("name", p[0]) for p in params[:2]]))
            effectful = True
        saved = self.stmt_budget
        self.stmt_budget = r.randint(2, 7) if self.size != "small" else r.randint(1, 4)
        # nested function
        if not nested and method_of is None and self.on("nested") and self.chance(0.3):
            pre = self.block(sc, 2, False, ret)
            body += pre
            iname = self.fresh("inner")
            istmt, ifn = self.gen_func(sc, iname, False, nested=True)
            body.append(istmt)
            sc.vars[iname] = Var(iname, "func", cls=ifn)
            if self.chance(0.6):
                rb = self.rebind_stmts(sc)
                if rb:
                    body += rb
                    self.probes.append("closure_or_default_rebound_before_call")
            args, kws = self.call_args(sc, ifn, 1)
            call = ("call", iname, args, kws)
            if ifn.ret in (INT, BOOL, STR, LIST, TUP):
                nm = self.fresh()
                v = Var(nm, ifn.ret)
                sc.vars[nm] = v
                body.append(("assign", ("name", nm), call))
            else:
                body.append(("expr", call))
            effectful = effectful or ifn.effectful
        body += self.block(sc, self.stmt_budget, False, ret)
        self.stmt_budget = saved
        body.append(("return", self.ret_expr(sc, ret)))
        f = Func(name, params, ret, heavy, effectful, writes)
        f.index = fninfo.get("method_index", 0)
        return ("def", name, [(pn, dflt, kw) for (pn, ty, dflt, kw) in params], body), f

    def pick_shadows(self, outer, fninfo):
        """names of enclosing scopes that this function will (re)use for its own locals: they are never read
        as outer variables inside the function (Python would make every use local)."""
        fninfo["blocked"] = set((outer.fn or {}).get("blocked", ())) if outer is not None else set()
        fninfo["shadow_pool"] = []
        if not self.on("shadow") or not self.chance(0.35):
            return
        names = []
        p = outer
        while p is not None:
            names += [v.name for v in p.vars.values() if v.ty in (INT, BOOL, STR, LIST, DICT, TUP)]
            p = p.parent
        names = [n for n in dict.fromkeys(names)]
        self.rng.shuffle(names)
        chosen = names[:self.rng.randint(1, 2)]
        fninfo["blocked"] |= set(chosen)
        fninfo["shadow_pool"] = list(chosen)

    def method_scope(self, outer, c, name, params):
        fninfo = {"heavy": False, "name": name, "globals": set(), "nonlocals": set(), "forbidden_calls": set(),
                  "blocked": set(), "shadow_pool": [], "method_index": len(c.methods) + len(c.fluent)}
        sc = Scope(self, "func", parent=outer, fn=fninfo)
        for (pn, ty, dflt, kw) in params:
            sc.vars[pn] = Var(pn, ty)
        sc.vars["self"] = Var("self", "obj", cls=c)
        sc.frozen.add("self")
        return sc

    def sig(self, params):
        return [(pn, dflt, kw) for (pn, ty, dflt, kw) in params]

    def gen_fluent(self, outer, c, name=None, params=None, index=None):
        """def m(self, p=…): <update a field>; return self"""
        r = self.rng
        name = name or self.fresh("m")
        if params is None:
            params = [(self.fresh("p"), INT, (self.lit(INT) if self.chance(0.5) else None), False)]
            if self.chance(0.3):
                params.append((self.fresh("p"), INT, self.lit(INT), self.chance(0.5)))
        sc = self.method_scope(outer, c, name, params)
        if index is not None:
            sc.fn["method_index"] = index        # an override may only call what the overridden method could call
        fld = self.pick(c.fields)
        body = []
        if self.chance(0.6) and self.on("aug"):
            body.append(("aug", r.choice(["+", "-", "*"]) if self.chance(0.8) else "+", ("attr", ("name", "self"), fld),
                         ("name", params[0][0]) if self.chance(0.6) else ("int", r.choice([1, 2, 3]))))
        else:
            body.append(("assign", ("attr", ("name", "self"), fld), self.expr(sc, INT, 1)))
        if self.chance(0.3):
            body.append(("print", [("str", name), ("attr", ("name", "self"), fld)]))
        if self.chance(0.25):
            body.append(("if", [(self.expr(sc, BOOL, 1), [("return", ("name", "self"))])], None))
            body.append(("assign", ("attr", ("name", "self"), fld), self.expr(sc, INT, 2)))
        body.append(("return", ("name", "self")))
        f = Func(name, params, "self", False, True, {fld})
        f.index = sc.fn["method_index"]
        return ("def", name, self.sig(params), body), f

    def gen_selfuse(self, outer, c, name=None):
        """a method that uses its receiver in every operand position: argument (positional / keyword), container
        element, alias, comparison operand, truth test, receiver of calls to other methods."""
        r = self.rng
        name = name or self.fresh("m")
        params = [(self.fresh("p"), INT, (self.lit(INT) if self.chance(0.4) else None), False)]
        sc = self.method_scope(outer, c, name, params)
        slf = ("name", "self")
        body = []
        al = self.fresh()
        body.append(("assign", ("name", al), slf))
        sc.vars[al] = Var(al, "obj", cls=c)
        terms = [("attr", ("name", al), self.pick(c.fields))]
        if self.on("containers"):
            ln, dn = self.fresh(), self.fresh()
            body.append(("assign", ("name", ln), ("list", [slf, ("name", al)])))
            body.append(("assign", ("name", dn), ("dict", [(("str", "k"), slf)])))
            terms.append(("attr", ("sub", ("name", ln), ("int", r.choice([0, 1]))), self.pick(c.fields)))
            terms.append(("attr", ("sub", ("name", dn), ("str", "k")), self.pick(c.fields)))
            if self.chance(0.5):
                body.append(("expr", ("mcall", ("name", ln), "append", [slf], [])))
                terms.append(("call", "len", [("name", ln)], []))
        for h in c.helpers:
            if h.ret == INT and self.chance(0.8):
                args, kws = self.call_args(sc, h, 1)
                terms.append(("call", h.name, args, kws))
        earlier = [m for m in c.methods if m.ret == INT and not m.heavy]
        if earlier:
            m = self.pick(earlier)
            args, kws = self.call_args(sc, m, 1)
            terms.append(("mcall", slf, m.name, args, kws))
        if c.fluent:
            m = self.pick(c.fluent)
            args, kws = self.call_args(sc, m, 1)
            terms.append(("attr", ("mcall", slf, m.name, args, kws), self.pick(c.fields)))
        bn = self.fresh()
        body.append(("assign", ("name", bn), ("boolop", "and", ("cmp", ["is"], [("name", al), slf]),
                                               ("cmp", ["=="], [slf, ("name", al)]))))
        body.append(("if", [(slf, [("print", [("str", name), ("name", bn)])])], [("print", [("str", "falsy")])]))
        e = terms[0]
        for t in terms[1:]:
            e = ("bin", r.choice(["+", "-"]), e, t)
        body.append(("return", ("bin", "+", e, ("name", params[0][0]))))
        f = Func(name, params, INT, False, True, set())
        f.index = sc.fn["method_index"]
        return ("def", name, self.sig(params), body), f

    def gen_helper(self, c):
        """module-level function whose first parameter is an instance of c."""
        r = self.rng
        name = self.fresh("h")
        po = self.fresh("p")
        params = [(po, objty(c), None, False), (self.fresh("p"), INT, self.lit(INT), self.chance(0.3))]
        body = []
        fld = self.pick(c.fields)
        if self.chance(0.4):
            body.append(("aug", "+", ("attr", ("name", po), fld), ("name", params[1][0])))
        if self.chance(0.3):
            body.append(("print", [("str", name), ("attr", ("name", po), fld)]))
        body.append(("return", ("bin", "+", ("attr", ("name", po), self.pick(c.fields)), ("name", params[1][0]))))
        f = Func(name, params, INT, False, True, set())
        return ("def", name, self.sig(params), body), f

    def gen_class(self, outer, name, base=None):
        """returns ([statements: helpers + class def], Cls)."""
        r = self.rng
        if base is None:
            consts = [self.fresh("K") for _ in range(r.randint(0, 2))]
            fields = [self.fresh("f") for _ in range(r.randint(1, 3))]
            init_params = self.gen_params(outer, n=r.randint(0, 2), allow_kwonly=False)
            init_params = [(pn, INT, (dflt if ty == INT else (self.lit(INT) if dflt is not None else None)), kw)
                           for (pn, ty, dflt, kw) in init_params]
            if init_params and self.chance(0.3):
                pn, ty, dflt, kw = init_params[-1]
                init_params[-1] = (pn, ty, dflt if dflt is not None else self.lit(INT), True)   # keyword-only
        else:
            consts = list(base.consts)
            fields = list(base.fields)
            init_params = list(base.init_params)
        c = Cls(name, consts, fields, init_params, [], base=base)
        pre = []
        members = []
        own_consts = []
        if base is None:
            own_consts = [(k, self.lit(INT)) for k in consts]
            gints = [v for v in outer.vars.values() if v.ty == INT] if outer.kind == "module" else []
            if own_consts and gints and self.on("class_attr_name") and self.chance(0.04):
                # class attribute initialised from a module variable: evaluated when the class statement runs
                own_consts[0] = (own_consts[0][0], ("name", self.pick(gints).name))
                self.probes.append("class_attribute_from_module_name")
        else:
            c.methods = list(base.methods)
            c.fluent = list(base.fluent)
            c.helpers = list(base.helpers)
            if base.consts and self.chance(0.5):
                own_consts = [(self.pick(base.consts), self.lit(INT))]          # class attribute overridden in the subclass
        # __init__ (a subclass either inherits it or defines its own, without calling the base one)
        if base is None or self.chance(0.5):
            sc0 = Scope(self, "func", parent=outer, fn={"heavy": False, "name": "__init__", "forbidden_calls": set()})
            for (pn, ty, dflt, kw) in init_params:
                sc0.vars[pn] = Var(pn, INT)
            init_body = [("assign", ("attr", ("name", "self"), fld), self.expr(sc0, INT, 1)) for fld in fields]
            members.append(("def", "__init__", self.sig(init_params), init_body))
        if base is None:
            for _ in range(r.randint(1, 2)):
                hdef, hf = self.gen_helper(c)
                pre.append(hdef)
                c.helpers.append(hf)
                self.funcs.append(hf)
            n_plain = r.randint(1, 2)
            for _ in range(n_plain):
                mdef, mf = self.gen_func(outer, self.fresh("m"), False, method_of=c)
                members.append(mdef)
                c.methods.append(mf)
            for _ in range(r.randint(1, 2)):
                mdef, mf = self.gen_fluent(outer, c)
                members.append(mdef)
                c.fluent.append(mf)
            if self.chance(0.8):
                mdef, mf = self.gen_selfuse(outer, c)
                members.append(mdef)
                c.methods.append(mf)
        else:
            # overrides (same name and parameters), then a new method that calls inherited ones
            if c.fluent and self.chance(0.8):
                i = r.randrange(len(c.fluent))
                old = c.fluent[i]
                mdef, mf = self.gen_fluent(outer, c, name=old.name, params=old.params, index=old.index)
                mf.index = old.index
                members.append(mdef)
                c.fluent[i] = mf
            ints = [i for i, m in enumerate(c.methods) if m.ret == INT and len(m.params) <= 1
                    and all(p[1] == INT for p in m.params)]
            if ints and self.chance(0.7):
                i = self.pick(ints)
                old = c.methods[i]
                sc = self.method_scope(outer, c, old.name, old.params)
                sc.fn["method_index"] = old.index
                val = ("attr", ("name", "self"), self.pick(fields))
                if self.on("basecall") and self.chance(0.25) and all(p[2] is None for p in old.params):
                    val = ("basecall", base.name, old.name, [self.expr(sc, INT, 2) for _ in old.params])
                body = [("print", [("str", name + "." + old.name)]),
                        ("return", ("bin", "*", val, ("int", r.choice([2, 3, -1]))))]
                mf = Func(old.name, old.params, INT, False, True, set())
                mf.index = old.index
                members.append(("def", old.name, self.sig(old.params), body))
                c.methods[i] = mf
            mdef, mf = self.gen_selfuse(outer, c)
            members.append(mdef)
            c.methods.append(mf)
        cdef = ("class", name, base.name if base else None, own_consts, members)
        c.complete = True
        return pre + [cdef], c

    def program(self):
        r = self.rng
        mod = Scope(self, "module")
        body = []
        if self.on("imports") and self.chance(0.05):
            body.append(("import", "os.path"))
            nm = self.fresh("g")
            mod.vars[nm] = Var(nm, STR)
            body.append(("assign", ("name", nm), ("str", "see os.path docs")))
        # the tracing helper (identity with a visible effect), used by the evaluation-order probes
        if self.on("probes") and self.chance(0.75):
            self.tr = self.fresh("tr")
            body.append(("def", self.tr, [("v", None, False)], [("print", [("str", self.tr), ("name", "v")]), ("return", ("name", "v"))]))
        # module-level variables
        self.stmt_budget = 100
        for _ in range(r.randint(1, 3)):
            nm = self.fresh("g")
            ty = r.choice([INT, INT, STR] + ([LIST] if self.on("containers") else []))
            e = self.lit(ty)
            v = Var(nm, ty)
            if ty == LIST:
                v.min_len = len(e[1])
            mod.vars[nm] = v
            body.append(("assign", ("name", nm), e))
        nf = r.randint(1, 4) if self.size != "small" else r.randint(0, 2)
        if not self.on("calls"):
            nf = 0
        for i in range(nf):
            if self.on("classes") and self.chance(0.3) and len(self.classes) < 3:
                cname = self.fresh("C")
                base = self.pick(self.classes) if (self.classes and self.chance(0.5)) else None
                cdefs, c = self.gen_class(mod, cname, base)
                body += cdefs
                self.classes.append(c)
                continue
            name = self.fresh("fn")
            heavy = self.chance(0.4)
            st, f = self.gen_func(mod, name, heavy)
            body.append(st)
            self.funcs.append(f)
            if self.chance(0.15):
                body.append(self.print_stmt(mod))
            # rebind module-level names between this definition and the calls (defaults are definition-time values)
            dnames = {d[1] for (_, d, _) in st[2] if d is not None and d[0] == "name"}
            if dnames or self.chance(0.15):
                rb = self.rebind_stmts(mod, dnames or None)
                if rb:
                    body += rb
                    self.probes.append("module_name_rebound_after_def")
            if any(d is not None and d[0] == "attr" for (_, d, _) in st[2]):
                for (_, d, _) in st[2]:
                    if d is not None and d[0] == "attr":
                        body.append(("assign", d, ("bin", "+", d, ("int", 100))))
                        self.probes.append("attribute_rebound_after_def")
                        break
        # a module-level object (used from functions as a global name)
        if self.classes and self.chance(0.35):
            top = Scope(self, "module")
            top.vars = mod.vars
            body += self.new_obj(top, self.pick(self.classes))
        # some top-level code (goes to %unit_init)
        if self.chance(0.4):
            self.stmt_budget = r.randint(1, 4)
            top = Scope(self, "module")
            top.vars = mod.vars
            top.fn = None
            body += self.block(top, self.stmt_budget, False, None)
        # entry
        ptypes = [r.choice([INT, INT, BOOL, STR]) for _ in range(3)]
        pnames = [self.fresh("x") for _ in range(3)]
        fninfo = {"heavy": True, "name": "entry", "globals": set(), "nonlocals": set(), "forbidden_calls": set()}
        self.pick_shadows(mod, fninfo)
        sc = Scope(self, "func", parent=mod, fn=fninfo)
        for pn, ty in zip(pnames, ptypes):
            sc.vars[pn] = Var(pn, ty)
        self.stmt_budget = r.randint(5, 14) if self.size != "small" else r.randint(2, 6)
        ebody = []
        for c in self.classes:
            if self.chance(0.85):
                ebody += self.new_obj(sc, c)
        if self.on("nested") and self.on("calls") and self.chance(0.3):
            ebody += self.block(sc, 2, False, None)
            iname = self.fresh("inner")
            istmt, ifn = self.gen_func(sc, iname, False, nested=True)
            ebody.append(istmt)
            sc.vars[iname] = Var(iname, "func", cls=ifn)
        ebody += self.block(sc, self.stmt_budget, False, TUP)
        outs = [v for v in sc.vars.values() if v.ty in (INT, BOOL, STR, LIST, DICT, TUP)]
        r.shuffle(outs)
        ret = ("tuple", [("name", v.name) for v in outs[:6]])
        for v in sc.vars.values():
            if v.ty == "obj" and v.cls.fields:
                ret[1].append(("attr", ("name", v.name), self.pick(v.cls.fields)) if self.chance(0.4) else ("name", v.name))
        ebody.append(("return", ret))
        body.append(("def", "entry", [(pn, None, False) for pn in pnames], ebody))
        argvs = []
        for _ in range(3):
            av = []
            for ty in ptypes:
                if ty == INT:
                    av.append(r.choice([0, 1, 2, 3, 5, 8, -1, -4, 13]))
                elif ty == BOOL:
                    av.append(r.random() < 0.5)
                else:
                    av.append(r.choice(WORDS))
            argvs.append(av)
        return {"body": body, "entry": "entry", "argvs": argvs, "probes": list(self.probes)}


def generate(seed, size="normal", features=None):
    return Gen(seed, size, features).program()


# ======================================================================== rendering
PREC_ATOM = 100


def _q(s):
    return '"' + s + '"'


class Renderer:
    """sim: set of defect simulations to apply:
       "strict_bool"   a and b -> _sand(a, b)   (both operands always evaluated)
       "chain"         a < b < c -> a < c       (first operator, first and last operand)
       "while_stale"   non-atomic while condition evaluated before the loop and at the end of the body only
       "nonlocal_first" nonlocal a, b -> nonlocal a
       "aug_rhs_first" x op= e -> _t = e; x = x op _t
       "unpack_sub"    a[i], b[j] = e -> evaluate e and the targets, store nothing
       "slice_lost"    non-atomic slice bounds -> undefined name
       "late_name"     a bare-name operand is read when the consuming operation executes, i.e. after every
                       later operand that needs statements (calls) has been evaluated
       "for_else_dropped"  the else clause of a for loop is not emitted
       "import_rewrite"    `import a.b` rewrites the text a.b to a_b in string literals of later lines
       "class_attr_early"  a class attribute initialised from a module variable is evaluated before any module-level
                           statement has run (class_decl stays outside %unit_init): the variable is still unbound
       "base_call_shift"   Base.m(self, a…) passes the receiver as an ordinary argument to a method whose receiver
                           parameter was removed: one argument too many (only generated for methods without defaults)
    """
    def __init__(self, sim=()):
        self.sim = set(sim)
        self.tmp = 0
        self.imported = []

    def late(self, parts, build):
        """parts: operand ASTs (or None) in evaluation order; build(rendered operands) -> expression text."""
        if "late_name" in self.sim and late_hazard(parts):
            params, args, rendered = [], [], []
            for p in parts:
                if p is None:
                    rendered.append(None)
                elif is_atomic(p):
                    rendered.append(self.e(p))
                else:
                    t = self.t()
                    params.append(t)
                    args.append(self.e(p))
                    rendered.append(t)
            return f"(lambda {', '.join(params)}: {build(rendered)})({', '.join(args)})"
        return build([None if p is None else self.e(p) for p in parts])

    def t(self):
        self.tmp += 1
        return f"_s{self.tmp}"

    def e(self, x):
        k = x[0]
        if k == "int":
            return str(x[1])
        if k == "bool":
            return "True" if x[1] else "False"
        if k == "str":
            txt = x[1]
            if "import_rewrite" in self.sim:
                for old in self.imported:
                    txt = re.sub(rf"\b{re.escape(old)}\b", old.replace(".", "_"), txt)
            return _q(txt)
        if k == "none":
            return "None"
        if k == "name":
            return x[1]
        if k == "bin":
            return self.late([x[2], x[3]], lambda r: f"({r[0]} {x[1]} {r[1]})")
        if k == "neg":
            return f"(-{self.e(x[1])})" if x[1][0] != "int" else f"-{x[1][1]}"
        if k == "not":
            return f"(not {self.e(x[1])})"
        if k == "cmp":
            ops, xs = x[1], x[2]
            if len(ops) > 1 and "chain" in self.sim:
                return self.late([xs[0], xs[-1]], lambda r: f"({r[0]} {ops[0]} {r[1]})")
            if len(ops) == 1:
                return self.late([xs[0], xs[1]], lambda r: f"({r[0]} {ops[0]} {r[1]})")
            # chain: only the first operand can be read late (later ones are evaluated once, in order)
            def chain(r):
                s = f"{r[0]} {ops[0]} {r[1]}"
                for op, o in zip(ops[1:], xs[2:]):
                    s += f" {op} {self.e(o)}"
                return f"({s})"
            return self.late([xs[0], xs[1]], chain)
        if k == "boolop":
            if "strict_bool" in self.sim:
                return self.late([x[2], x[3]], lambda r: f"_s{x[1]}({r[0]}, {r[1]})")
            return f"({self.e(x[2])} {x[1]} {self.e(x[3])})"
        if k == "ifexp":
            return f"({self.e(x[1])} if {self.e(x[2])} else {self.e(x[3])})"
        if k == "call":
            kws = x[3]
            return self.late(list(x[2]) + [v for _, v in kws],
                             lambda r: f"{x[1]}({self.args_r(r, len(x[2]), kws)})")
        if k == "callx":
            kws = x[3]
            return self.late([x[1]] + list(x[2]) + [v for _, v in kws],
                             lambda r: f"{r[0]}({self.args_r(r[1:], len(x[2]), kws)})")
        if k == "basecall":
            # explicit base-class call  Base.m(self, args…)
            if "base_call_shift" in self.sim:
                return "_type_error()"
            return f"{x[1]}.{x[2]}({', '.join(['self'] + [self.e(a) for a in x[3]])})"
        if k == "mcall":
            kws = x[4]
            return self.late([x[1]] + list(x[3]) + [v for _, v in kws],
                             lambda r: f"{r[0]}.{x[2]}({self.args_r(r[1:], len(x[3]), kws)})")
        if k == "list":
            return "[" + ", ".join(self.e(a) for a in x[1]) + "]"
        if k == "tuple":
            if len(x[1]) == 1:
                return "(" + self.e(x[1][0]) + ",)"
            return "(" + ", ".join(self.e(a) for a in x[1]) + ")"
        if k == "dict":
            return "{" + ", ".join(f"{self.e(a)}: {self.e(b)}" for a, b in x[1]) + "}"
        if k == "sub":
            return self.late([x[1], x[2]], lambda r: f"{r[0]}[{r[1]}]")
        if k == "slice":
            if "slice_lost" in self.sim:
                def b(v):
                    if v is None:
                        return ""
                    if not is_atomic(v):
                        return "_undefined_slice_bound"
                    return self.e(v)
                s = f"{self.e(x[1])}[{b(x[2])}:{b(x[3])}"
                if x[4] is not None:
                    s += f":{b(x[4])}"
                return s + "]"
            def sl(r):
                s = f"{r[0]}[{r[1] or ''}:{r[2] or ''}"
                if x[4] is not None:
                    s += f":{r[3]}"
                return s + "]"
            return self.late([x[1], x[2], x[3], x[4]], sl)
        if k == "attr":
            return f"{self.e(x[1])}.{x[2]}"
        raise ValueError(x)

    def args(self, pos, kws):
        parts = [self.e(a) for a in pos] + [f"{k}={self.e(v)}" for k, v in kws]
        return ", ".join(parts)

    def args_r(self, rendered, npos, kws):
        parts = list(rendered[:npos]) + [f"{k}={v}" for (k, _), v in zip(kws, rendered[npos:])]
        return ", ".join(parts)

    def target(self, t):
        return self.e(t)

    def block(self, body, ind):
        out = []
        for s in body:
            out.extend(self.s(s, ind))
        if not out:
            out = [ind + "pass"]
        return out

    def s(self, x, ind):
        k = x[0]
        if k == "assign":
            return [f"{ind}{self.target(x[1])} = {self.e(x[2])}"]
        if k == "chain_assign":
            return [f"{ind}{' = '.join(x[1])} = {self.e(x[2])}"]
        if k == "aug":
            if "aug_rhs_first" in self.sim:
                t = self.t()
                tg = self.target(x[2])
                return [f"{ind}{t} = {self.e(x[3])}", f"{ind}{tg} = {tg} {x[1]} {t}"]
            return [f"{ind}{self.target(x[2])} {x[1]}= {self.e(x[3])}"]
        if k == "unpack":
            tg, e, style = x[1], x[2], x[3]
            if "unpack_sub" in self.sim and any(t[0] != "name" for t in tg):
                t = self.t()
                lines = [f"{ind}{t} = {self.e(e)}"]
                for i, tt in enumerate(tg):
                    lines.append(f"{ind}{t}[{i}]")
                    if tt[0] == "name":
                        lines.append(f"{ind}{tt[1]} = {t}[{i}]")
                    else:
                        lines.append(f"{ind}{self.e(tt)}")
                return lines
            ts = ", ".join(self.target(t) for t in tg)
            if style == "paren":
                ts = f"({ts})"
            elif style == "bracket":
                ts = f"[{ts}]"
            rhs = self.e(e)
            if e[0] == "tuple" and style == "bare" and len(e[1]) > 1:
                # a bare `x, y` is an expression_list: ALL elements are parsed before the first array_write
                rhs = self.late(list(e[1]), lambda r: ", ".join(r) if not late_hazard(e[1]) or "late_name" not in self.sim
                                else "(" + ", ".join(r) + ")")
            return [f"{ind}{ts} = {rhs}"]
        if k == "if":
            out = []
            for i, (c, body) in enumerate(x[1]):
                out.append(f"{ind}{'if' if i == 0 else 'elif'} {self.e(c)}:")
                out += self.block(body, ind + "    ")
            if x[2] is not None:
                out.append(f"{ind}else:")
                out += self.block(x[2], ind + "    ")
            return out
        if k == "while":
            cond, body, els = x[1], x[2], x[3]
            if "while_stale" in self.sim and not is_atomic(cond):
                t = self.t()
                out = [f"{ind}{t} = {self.e(cond)}", f"{ind}while {t}:"]
                out += self.block(body, ind + "    ")
                out.append(f"{ind}    {t} = {self.e(cond)}")
            else:
                out = [f"{ind}while {self.e(cond)}:"]
                out += self.block(body, ind + "    ")
            if els is not None:
                out.append(f"{ind}else:")
                out += self.block(els, ind + "    ")
            return out
        if k == "for":
            out = [f"{ind}for {', '.join(x[1])} in {self.e(x[2])}:"]
            out += self.block(x[3], ind + "    ")
            if x[4] is not None and "for_else_dropped" not in self.sim:
                out.append(f"{ind}else:")
                out += self.block(x[4], ind + "    ")
            return out
        if k in ("break", "continue", "pass"):
            return [ind + k]
        if k == "return":
            return [f"{ind}return" + ("" if x[1] is None else " " + self.e(x[1]))]
        if k == "expr":
            return [ind + self.e(x[1])]
        if k == "print":
            return [ind + self.late(list(x[1]), lambda r: f"print({', '.join(r)})")]
        if k == "global":
            return [f"{ind}global {', '.join(x[1])}"]
        if k == "nonlocal":
            names = x[1][:1] if "nonlocal_first" in self.sim else x[1]
            return [f"{ind}nonlocal {', '.join(names)}"]
        if k == "def":
            ps = []
            star = False
            for (pn, dflt, kwonly) in x[2]:
                if kwonly and not star:
                    ps.append("*")
                    star = True
                ps.append(pn if dflt is None else f"{pn}={self.e(dflt)}")
            out = [f"{ind}def {x[1]}({', '.join(ps)}):"]
            out += self.block(x[3], ind + "    ")
            return out
        if k == "class":
            out = [f"{ind}class {x[1]}" + (f"({x[2]})" if x[2] else "") + ":"]
            for (f, c) in x[3]:
                out.append(f"{ind}    {f} = {self.e(c)}")
            for m in x[4]:
                ps = ["self"]
                star = False
                for (pn, dflt, kwonly) in m[2]:
                    if kwonly and not star:
                        ps.append("*")
                        star = True
                    ps.append(pn if dflt is None else f"{pn}={self.e(dflt)}")
                out.append(f"{ind}    def {m[1]}({', '.join(ps)}):")
                out += self.block(m[3], ind + "        ")
            return out
        if k == "import":
            if "." in x[1]:
                self.imported.append(x[1])
            return [f"{ind}import {x[1]}"]
        raise ValueError(x)


def is_atomic(e):
    return e[0] in ("int", "bool", "str", "none", "name")


def late_hazard(parts):
    """a bare-name operand followed (in evaluation order) by an operand that contains a user call."""
    for i, p in enumerate(parts):
        if p is not None and p[0] == "name":
            if any(q is not None and contains_call(q) for q in parts[i + 1:]):
                return True
    return False


def render(prog, sim=()):
    r = Renderer(sim)
    text = "\n".join(r.block(prog["body"], "")) + "\n"
    if "class_attr_early" in r.sim and "class_attr_name" in shapes(prog):
        # the class (with its static initialiser) is declared before any module-level statement has run
        text = "raise NameError('class attribute initialiser runs before the module code')\n" + text
    return text


# ======================================================================== shapes (for known-finding matchers)
TAGS = {"int", "bool", "str", "none", "name", "bin", "neg", "not", "cmp", "boolop", "ifexp", "call", "mcall", "list",
        "tuple", "dict", "sub", "slice", "attr", "basecall", "callx", "assign", "chain_assign", "aug", "unpack", "if", "while", "for",
        "break", "continue", "pass", "return", "expr", "print", "global", "nonlocal", "def", "class", "import"}


def walk(x, f):
    """call f(node) on every tuple node (expression or statement) of the AST."""
    if isinstance(x, tuple) and x and isinstance(x[0], str) and x[0] in TAGS:
        f(x)
        for y in x[1:]:
            walk(y, f)
    elif isinstance(x, (list, tuple)):
        for y in x:
            walk(y, f)


def contains_call(e):
    found = []
    walk(e, lambda n: found.append(1) if n[0] in ("call", "mcall", "callx", "basecall") and not (n[0] == "call" and n[1] in ("len", "abs", "min", "max", "range")) else None)
    return bool(found)


def shapes(prog):
    """set of defect-relevant syntactic shapes present in the program."""
    res = set()

    def visit(n):
        k = n[0]
        if k == "boolop":
            res.add("boolop")
            if contains_call(n[3]):
                res.add("boolop_rhs_call")
        elif k == "cmp" and len(n[1]) >= 2:
            res.add("chain3")
        elif k == "while":
            cont = []
            def has_cont(b):
                for s in b:
                    if s[0] == "continue":
                        cont.append(1)
                    elif s[0] == "if":
                        for _, bb in s[1]:
                            has_cont(bb)
                        if s[2]:
                            has_cont(s[2])
                    # continue inside a nested loop belongs to that loop
            has_cont(n[2])
            if cont and not is_atomic(n[1]):
                res.add("while_continue_nonatomic")
        elif k == "aug":
            if contains_call(n[3]):
                res.add("aug_rhs_call")
        elif k == "nonlocal" and len(n[1]) >= 2:
            res.add("nonlocal2")
        elif k == "unpack" and any(t[0] != "name" for t in n[1]):
            res.add("unpack_sub")
        elif k == "slice":
            if any(b is not None and not is_atomic(b) for b in n[2:5]):
                res.add("slice_nonatomic")
        elif k == "import":
            if "." in n[1]:
                res.add("import_dotted")
        elif k == "for" and n[4] is not None:
            res.add("for_else")
        elif k == "basecall":
            res.add("base_call")
        elif k == "class" and any(not is_atomic(c) or c[0] == "name" for _, c in n[3]):
            res.add("class_attr_name")
        # operations whose bare-name operands lian reads late
        parts = None
        if k == "bin":
            parts = [n[2], n[3]]
        elif k == "cmp":
            parts = [n[2][0], n[2][1]]
        elif k == "boolop":
            parts = [n[2], n[3]]
        elif k == "call":
            parts = list(n[2]) + [v for _, v in n[3]]
        elif k == "mcall":
            parts = [n[1]] + list(n[3]) + [v for _, v in n[4]]
        elif k == "callx":
            parts = [n[1]] + list(n[2]) + [v for _, v in n[3]]
        elif k == "sub":
            parts = [n[1], n[2]]
        elif k == "slice":
            parts = [n[1], n[2], n[3], n[4]]
        elif k == "print":
            parts = list(n[1])
        elif k == "unpack" and n[3] == "bare" and n[2][0] == "tuple" and len(n[2][1]) > 1:
            parts = list(n[2][1])
        if parts is not None and late_hazard(parts):
            res.add("late_name")
    walk(prog["body"], visit)

    # consecutive statements of one block: `a, b = x, y` (bare expression list) followed by a line starting with `[`
    def blocks(stmts):
        for a, b in zip(stmts, stmts[1:]):
            if (a[0] == "unpack" and a[3] == "bare" and a[2][0] == "tuple" and len(a[2][1]) > 1
                    and b[0] == "unpack" and b[3] == "bracket"):
                res.add("exprlist_then_bracket")
        for st in stmts:
            k = st[0]
            if k == "if":
                for _, bb in st[1]:
                    blocks(bb)
                if st[2]:
                    blocks(st[2])
            elif k == "while":
                blocks(st[2])
                if st[3]:
                    blocks(st[3])
            elif k == "for":
                blocks(st[3])
                if st[4]:
                    blocks(st[4])
            elif k == "def":
                blocks(st[3])
            elif k == "class":
                for m in st[4]:
                    blocks(m[3])
    blocks(prog["body"])
    return res


def constructs(prog):
    """histogram of AST node kinds (coverage statistics)."""
    h = {}
    def visit(n):
        key = n[0]
        if key == "bin":
            key = "bin" + n[1]
        elif key == "cmp":
            for op in n[1]:
                h["cmp" + op] = h.get("cmp" + op, 0) + 1
            key = "cmp"
        elif key == "boolop":
            key = n[1]
        h[key] = h.get(key, 0) + 1
    walk(prog["body"], visit)
    return h


def count_stmts(body):
    n = [0]
    STM = {"assign", "chain_assign", "aug", "unpack", "if", "while", "for", "break", "continue", "pass", "return",
           "expr", "print", "global", "nonlocal", "def", "class", "import"}
    walk(body, lambda x: n.__setitem__(0, n[0] + 1) if x[0] in STM else None)
    return n[0]


def to_json(x):
    if isinstance(x, tuple):
        return [to_json(y) for y in x]
    if isinstance(x, list):
        return [to_json(y) for y in x]
    if isinstance(x, dict):
        return {k: to_json(v) for k, v in x.items()}
    return x


def from_json(x):
    """inverse of to_json for ASTs: lists whose head is a node tag become tuples."""
    if isinstance(x, list):
        if x and isinstance(x[0], str) and x[0] in TAGS:
            k = x[0]
            if k in ("list", "tuple") and len(x) == 2 and isinstance(x[1], list):
                return (k, [from_json(y) for y in x[1]])
            if k in ("str", "name") and len(x) == 2 and isinstance(x[1], str):
                return (k, x[1])
            return tuple([k] + [from_json(y) for y in x[1:]])
        conv = [from_json(y) for y in x]
        # pairs inside argument/dict/param lists were tuples
        return conv
    if isinstance(x, dict):
        return {k: from_json(v) for k, v in x.items()}
    return x
