"""C12 — base programs: generated Python / JavaScript projects with functions, classes, calls, imports across files
and taint source / sink sites, plus the custom taint settings directory.

Names mentioned in the taint / entry rules (`KEEP`) are never renamed by an edit.
One statement per line; every function is written so that each edit kind has candidates:
  * locals and parameters that are not captured by nested scopes          -> rename local / parameter
  * module-level functions / classes used by other functions and files   -> rename function / class
  * adjacent module-level defs that do not mention each other at definition time -> reorder
  * "leaf" functions that mention no other module-level name             -> move to a new file
"""

KEEP = {"tp", "req", "get", "sink", "main", "entry", "%unit_init", "self", "cls"}
EXTERNALS = {"sink", "req"}

SOURCE_YAML = """- lang: {lang}
  rules:
    - operation: parameter_decl
      name: tp
    - operation: object_call
      name: req.get
      tag: ["%target"]
"""
SINK_YAML = """- lang: {lang}
  rules:
    - operation: call_stmt
      name: sink
      target: [\\%arg0]
      vuln_type: generic_sink
"""
PROP_YAML = """- lang: {lang}
  rules:
  - operation: assign_stmt
    src: operand1
    dst:
      - [\\%target]
"""
# every method of every analysed unit is an entry point (rule without method_list; C20: "unconstrained rule")
ENTRY_YAML = """- unit_path: "/src/"
"""


def settings_files(langs):
    return {"source.yaml": "".join(SOURCE_YAML.format(lang=l) for l in langs),
            "sink.yaml": "".join(SINK_YAML.format(lang=l) for l in langs),
            "propagation.yaml": "".join(PROP_YAML.format(lang=l) for l in langs),
            "entry.yaml": ENTRY_YAML}


LOCALS = ["x", "y", "acc", "item", "res", "val", "tmp", "data", "buf", "cur"]
FUNCS = ["load", "parse", "clean", "merge", "route", "check", "emit", "store", "fetch", "apply", "scan", "build",
         "wrap", "split", "join_all", "visit", "render", "encode"]
CLASSES = ["Box", "Node", "Repo", "Task", "Pipe"]
METHODS = ["run", "step", "put", "take", "flush"]


class PyFile:
    def __init__(self, rng, rel, leafs_from=None, dotted=None):
        self.rng = rng
        self.rel = rel
        self.lines = []
        self.funcs = []          # module-level function names defined so far (callable from later bodies)
        self.classes = []
        self.imported = list(leafs_from or [])
        self.dotted = dotted
        self.uid = 0
        self.consts = []
        # functions of this file that bodies may call, INCLUDING ones defined further down (resolved at call time);
        # `rank` keeps the call relation acyclic: a function only calls functions of lower rank
        self.callable = []
        self.rank = {}
        self.cur_rank = None
        self.factories = []

    def emit(self, s):
        self.lines.append(s)

    def body(self, ind, params, depth, leaf, allow_nested=True):
        """statements of a function body; returns the name holding the 'result'"""
        rng = self.rng
        pad = "    " * ind
        pool = [v for v in LOCALS if v not in params]
        rng.shuffle(pool)
        mine = []
        cur = params[0] if params else "0"
        n = rng.randint(2, 6)
        for _ in range(n):
            r = rng.random()
            if r < 0.30 or not mine:
                v = pool.pop() if pool and (not mine or rng.random() < 0.7) else rng.choice(mine)
                e = rng.choice([cur, cur, "%s + 1" % cur, '"k"', "[%s]" % cur, "%s" % rng.randint(0, 9)])
                self.emit(pad + "%s = %s" % (v, e))
                if v not in mine:
                    mine.append(v)
                if e.startswith(cur):
                    cur = v
            elif r < 0.50 and not leaf and (self.callees() or self.imported):
                callee = rng.choice(self.callees() + self.imported)
                v = pool.pop() if pool else rng.choice(mine)
                self.emit(pad + "%s = %s(%s)" % (v, callee, cur))
                if v not in mine:
                    mine.append(v)
                cur = v
            elif r < 0.60:
                self.emit(pad + "sink(%s)" % cur)
            elif r < 0.72 and depth < 2:
                self.emit(pad + "if %s:" % rng.choice(mine))
                v = rng.choice(mine)
                self.emit(pad + "    %s = %s" % (v, cur))
                if rng.random() < 0.5:
                    self.emit(pad + "else:")
                    self.emit(pad + "    sink(%s)" % rng.choice(mine))
            elif r < 0.80 and depth < 2:
                it = pool.pop() if pool else None
                if it:
                    self.emit(pad + "for %s in %s:" % (it, cur))
                    self.emit(pad + "    sink(%s)" % it)
                    mine.append(it)
            elif r < 0.86 and not leaf and self.classes:
                k = rng.choice(self.classes)
                v = pool.pop() if pool else rng.choice(mine)
                self.emit(pad + "%s = %s" % (v, k[0]))
                if v not in mine:
                    mine.append(v)
                w = pool.pop() if pool else rng.choice(mine)
                self.emit(pad + "%s = %s.%s(%s)" % (w, v, rng.choice(k[1]), cur))
                if w not in mine:
                    mine.append(w)
                cur = w
            elif r < 0.92 and allow_nested and depth < 1:
                self.uid += 1
                inner = "inner%d" % self.uid
                self.emit(pad + "def %s(tp):" % inner)
                self.body(ind + 1, ["tp"], depth + 1, leaf, allow_nested=False)
                v = pool.pop() if pool else rng.choice(mine)
                self.emit(pad + "%s = %s(%s)" % (v, inner, cur))
                if v not in mine:
                    mine.append(v)
            elif r < 0.94:
                self.emit(pad + "try:")
                self.emit(pad + "    sink(%s)" % cur)
                self.emit(pad + "except Exception:")
                self.emit(pad + "    pass")
            elif r < 0.955 and pool:
                h = pool.pop()
                self.emit(pad + "with open(%s) as %s:" % (cur, h))
                self.emit(pad + "    sink(%s)" % h)
                mine.append(h)
            elif r < 0.97 and pool:
                v = pool.pop()
                self.emit(pad + "%s = [q for q in %s]" % (v, cur))
                mine.append(v)
            elif r < 0.98 and self.consts and not leaf:
                v = pool.pop() if pool else rng.choice(mine)
                self.emit(pad + "%s = %s + %s" % (v, cur, rng.choice(self.consts)))
                if v not in mine:
                    mine.append(v)
            elif r < 0.985 and self.dotted:
                v = pool.pop() if pool else rng.choice(mine)
                self.emit(pad + "%s = \"see %s docs\"  # %s" % (v, self.dotted, self.dotted))
                if v not in mine:
                    mine.append(v)
            elif self.dotted and not leaf:
                v = pool.pop() if pool else rng.choice(mine)
                self.emit(pad + "%s = %s.join(%s, %s)" % (v, self.dotted, cur, '"p"'))
                if v not in mine:
                    mine.append(v)
            else:
                self.emit(pad + "sink(%s)" % cur)
        self.emit(pad + "return %s" % cur)

    def callees(self):
        """functions the body being generated may call: defined above, or (forward reference) further down"""
        if self.cur_rank is None:
            return list(self.funcs)
        return [f for f in self.callable if self.rank.get(f, 1 << 30) < self.cur_rank]

    def plan(self, names):
        """announce the callable functions of the file before any body is generated"""
        self.callable = list(names)
        order = list(names)
        self.rng.shuffle(order)
        self.rank = {f: i for i, f in enumerate(order)}

    def func(self, name, leaf=False, nested=False):
        """`nested`: the body may define and call a nested function.  Only functions that nobody calls get one: a
        function that contains a nested definition and is analysed as a callee makes lian's reported flow set depend on
        unrelated statements (open finding C12/nested-def-param-source-flips-with-noop; kept as a corpus witness)"""
        rng = self.rng
        params = rng.choice([["tp"], ["tp"], ["tp", "flag"], ["count", "tp"], ["arg"]])
        sig = ", ".join(params)
        if self.consts and not leaf and rng.random() < 0.3:
            sig += ", lim=%s" % rng.choice(self.consts)
        self.emit("def %s(%s):" % (name, sig))
        self.cur_rank = self.rank.get(name, 1 << 30) if self.callable else None
        self.body(1, params, 0, leaf, allow_nested=nested)
        self.cur_rank = None if not self.callable else (1 << 30)
        self.emit("")
        if not nested:
            self.funcs.append(name)

    def klass(self, name, base=None, inherited=(), ind=0, register=True, n_methods=None, avoid=()):
        """a class (optionally a subclass of `base`, whose methods `inherited` its instances can be asked for);
        returns the list of methods callable on an instance"""
        rng = self.rng
        pad = "    " * ind
        self.emit(pad + ("class %s(%s):" % (name, base) if base else "class %s:" % name))
        if rng.random() < 0.5:
            self.emit(pad + "    limit = %d" % rng.randint(1, 9))
        avail = [m for m in METHODS if m not in inherited and m not in avoid]
        ms = rng.sample(avail, min(len(avail), n_methods or rng.randint(1, 3)))
        if not ms:
            self.emit(pad + "    pass")
        # methods call imported leaf helpers only: with forward references between the functions of the file a method
        # calling them could close a call cycle through a function that instantiates the class
        saved, self.cur_rank = self.cur_rank, (-1 if self.callable else self.cur_rank)
        for m in ms:
            if rng.random() < 0.2 and not base and ind == 0:
                self.emit(pad + "    @staticmethod")
                self.emit(pad + "    def %s(tp):" % m)
            else:
                self.emit(pad + "    def %s(self, tp):" % m)
            self.body(ind + 2, ["tp"], 1, False, allow_nested=False)
        self.cur_rank = saved
        if ind == 0:
            self.emit("")
        allm = list(inherited) + ms
        if register:
            # prefer asking an instance of a subclass for an INHERITED method
            self.classes.append((name + "()", list(inherited) * 2 + ms if inherited else ms))
        return allm

    def family(self, base, sub, subsub, factory, local, factory_first):
        """class `base`; a factory function whose body declares a local subclass of the module-level base and returns an
        instance (placed next to the base, before or after it: the two are independent top-level definitions); a
        top-level subclass; sometimes a second level"""
        rng = self.rng

        def emit_factory(inherited):
            self.emit("def %s():" % factory)
            self.klass(local, base=base, inherited=inherited, ind=1, register=False, n_methods=1)
            self.emit("    return %s()" % local)
            self.emit("")

        if factory_first:
            # methods of the base are not known yet: fix them first
            bm = rng.sample(METHODS, 2)
            emit_factory(bm)
            self.emit("class %s:" % base)
            saved, self.cur_rank = self.cur_rank, (-1 if self.callable else self.cur_rank)
            for m in bm:
                self.emit("    def %s(self, tp):" % m)
                self.body(2, ["tp"], 1, False, allow_nested=False)
            self.cur_rank = saved
            self.emit("")
            self.classes.append((base + "()", bm))
        else:
            bm = self.klass(base, n_methods=2)
            emit_factory(bm)
        self.classes.append((factory + "()", list(bm)))          # only inherited methods are asked for
        self.factories.append((factory + "()", list(bm)))
        later = []
        sm = None
        if sub:
            later.append(lambda: later_sub())
        def later_sub():
            nonlocal sm
            sm = self.klass(sub, base=base, inherited=bm)
            if subsub:
                self.klass(subsub, base=sub, inherited=sm)
        return later

    def toplevel(self):
        rng = self.rng
        self.emit("tv = req.get()")
        if self.funcs and rng.random() < 0.5:
            self.emit("if tv:")
            self.emit("    rc = %s(tv)" % rng.choice(self.funcs))
            self.emit("    sink(rc)")
        used = []
        for i in range(rng.randint(1, 3)):
            if self.funcs:
                f = rng.choice(self.funcs)
                self.emit("r%d = %s(tv)" % (i, f))
                self.emit("sink(r%d)" % i)
        for j, k in enumerate(self.factories):
            # an INHERITED method asked of the instance a factory returns (its class is local to the factory)
            self.emit("fo%d = %s" % (j, k[0]))
            self.emit("rf%d = fo%d.%s(tv)" % (j, j, rng.choice(k[1])))
            self.emit("sink(rf%d)" % j)
        if self.classes:
            for j, k in enumerate(rng.sample(self.classes, min(len(self.classes), rng.randint(1, 2)))):
                self.emit("ob%d = %s" % (j, k[0]))
                self.emit("rk%d = ob%d.%s(tv)" % (j, j, rng.choice(k[1])))
                self.emit("sink(rk%d)" % j)

    def text(self):
        return "\n".join(self.lines) + "\n"


UTIL_NAMES = ["util", "lib", "helpers", "kit", "zeta", "alpha", "common_u"]
SVC_NAMES = ["svc", "serv", "beta", "mid", "layer"]
MAIN_NAMES = ["main", "app", "run_all", "gamma", "omega", "cli"]
BASES = ["Base", "Core", "Root"]


def gen_py_project(rng, size=8):
    """2-3 Python files: <util>.py (leaf helpers), <svc>.py (uses util), <main>.py (uses both; top-level code).
    The file names vary from project to project: lian numbers the units in directory-listing order, and which of an
    importing / re-exporting / defining unit comes first matters to import resolution."""
    names = list(FUNCS)
    rng.shuffle(names)
    cls = list(CLASSES)
    rng.shuffle(cls)
    files = {}
    un, sn, mn = rng.choice(UTIL_NAMES), rng.choice(SVC_NAMES), rng.choice(MAIN_NAMES)
    dotted = rng.choice([None, "os.path", "os.path"])
    u = PyFile(rng, un + ".py")
    ufuncs = [names.pop() for _ in range(rng.randint(2, 3))]
    for f in ufuncs:
        u.func(f, leaf=True)
    u.func("entry", leaf=True, nested=True)
    files[un + ".py"] = u.text()
    three = rng.random() < 0.6
    sfuncs = []
    sclass = None
    if three:
        s = PyFile(rng, sn + ".py", leafs_from=ufuncs[:2])
        s.emit("from %s import %s" % (un, ", ".join(ufuncs[:2])))
        s.emit("")
        planned = [names.pop() for _ in range(rng.randint(1, 2))]
        s.plan(planned)
        for f in planned:
            s.func(f)
            sfuncs.append(f)
        if rng.random() < 0.6:
            sclass = cls.pop()
            smeth = s.klass(sclass)
        files[sn + ".py"] = s.text()
    m = PyFile(rng, mn + ".py", leafs_from=[ufuncs[-1]] + sfuncs[:1], dotted=dotted)
    m.emit("import os")
    if dotted:
        m.emit("import %s" % dotted)
    m.emit("from %s import %s" % (un, ufuncs[-1]))
    if sfuncs:
        m.emit("from %s import %s" % (sn, ", ".join(sfuncs[:1] + ([sclass] if sclass and rng.random() < 0.5 else []))))
    m.emit("")
    if rng.random() < 0.6:
        m.emit("LIMIT = %d" % rng.randint(1, 9))
        m.consts.append("LIMIT")
        m.emit("")
    # what will be defined, in which textual order
    items = []
    for i in range(size):
        r = rng.random()
        if r < 0.15 and cls:
            items.append(("class", cls.pop()))
        elif r < 0.40:
            items.append(("leaf", names.pop() if names else "fn%d" % i))
        else:
            items.append(("func", names.pop() if names else "fn%d" % i))
    m.plan([n for k, n in items if k in ("leaf", "func")])
    fam_later = []
    if rng.random() < 0.8:
        b = rng.choice(BASES)
        fam_at = rng.randint(0, len(items))
        items.insert(fam_at, ("family", b))
    for k, n in items:
        if k == "class":
            m.klass(n)
        elif k == "leaf":
            m.func(n, leaf=True)
        elif k == "func":
            m.func(n)
        else:
            fam_later = m.family(n, "Sub" + n if rng.random() < 0.8 else None,
                                 "Low" + n if rng.random() < 0.4 else None,
                                 "make_" + n.lower(), "Local" + n, rng.random() < 0.35)
            if fam_later and rng.random() < 0.5:
                fam_later.pop()()
        if fam_later and k != "family" and rng.random() < 0.4:
            fam_later.pop()()
    while fam_later:
        fam_later.pop()()
    if sclass and ("import %s, %s" % (sfuncs[0], sclass) if sfuncs else "") in m.text():
        # a subclass of a class imported from another file
        inh = m.klass("Far" + sclass, base=sclass, inherited=smeth)
    m.func("main", nested=True)
    m.toplevel()
    files[mn + ".py"] = m.text()
    return {"files": files}


# ------------------------------------------------------------------------------------------------ JavaScript

class JsFile:
    def __init__(self, rng, rel, imported=None):
        self.rng = rng
        self.rel = rel
        self.lines = []
        self.funcs = []
        self.imported = list(imported or [])
        self.uid = 0
        self.rank = {}          # function declarations are hoisted: a body may call a function declared further down
        self.cur_rank = None

    def emit(self, s):
        self.lines.append(s)

    def callees(self):
        if self.cur_rank is None or not self.rank:
            return list(self.funcs)
        return [f for f, r in self.rank.items() if r < self.cur_rank]

    def body(self, ind, params, depth, leaf):
        rng = self.rng
        pad = "    " * ind
        pool = [v for v in LOCALS if v not in params]
        rng.shuffle(pool)
        mine = []
        cur = params[0] if params else "0"
        for _ in range(rng.randint(2, 6)):
            r = rng.random()
            if r < 0.35 or not mine:
                if pool and (not mine or rng.random() < 0.7):
                    v = pool.pop()
                    e = rng.choice([cur, cur, "%s + 1" % cur, '"k"', "[%s]" % cur])
                    self.emit(pad + "%s %s = %s;" % (rng.choice(["var", "let", "var"]), v, e))
                    mine.append(v)
                else:
                    v = rng.choice(mine)
                    e = rng.choice([cur, "%s + 1" % cur])
                    self.emit(pad + "%s = %s;" % (v, e))
                if e.startswith(cur):
                    cur = v
            elif r < 0.55 and not leaf and (self.callees() or self.imported) and pool:
                callee = rng.choice(self.callees() + self.imported)
                v = pool.pop()
                self.emit(pad + "var %s = %s(%s);" % (v, callee, cur))
                mine.append(v)
                cur = v
            elif r < 0.68:
                self.emit(pad + "sink(%s);" % cur)
            elif r < 0.80 and depth < 2:
                self.emit(pad + "if (%s) {" % rng.choice(mine))
                self.emit(pad + "    %s = %s;" % (rng.choice(mine), cur))
                if rng.random() < 0.5:
                    self.emit(pad + "} else {")
                    self.emit(pad + "    sink(%s);" % rng.choice(mine))
                self.emit(pad + "}")
            elif r < 0.88 and depth < 2 and pool:
                it = pool.pop()
                self.emit(pad + "for (var %s of %s) {" % (it, cur))
                self.emit(pad + "    sink(%s);" % it)
                self.emit(pad + "}")
                mine.append(it)
            else:
                self.emit(pad + "sink(%s);" % cur)
        self.emit(pad + "return %s;" % cur)

    def func(self, name, leaf=False):
        params = self.rng.choice([["tp"], ["tp"], ["tp", "flag"], ["count", "tp"], ["arg"]])
        self.emit("function %s(%s) {" % (name, ", ".join(params)))
        self.cur_rank = self.rank.get(name)
        self.body(1, params, 0, leaf)
        self.cur_rank = None
        self.emit("}")
        self.funcs.append(name)

    def toplevel(self):
        rng = self.rng
        self.emit("var tv = req.get();")
        for i in range(rng.randint(1, 3)):
            f = rng.choice(self.funcs)
            self.emit("var r%d = %s(tv);" % (i, f))
            self.emit("sink(r%d);" % i)

    def text(self):
        return "\n".join(self.lines) + "\n"


def gen_js_project(rng, size=7):
    names = list(FUNCS)
    rng.shuffle(names)
    files = {}
    l = JsFile(rng, "lib.js")
    lf = [names.pop() for _ in range(rng.randint(2, 3))]
    for f in lf:
        l.func(f, leaf=True)
    l.emit("export { %s };" % ", ".join(lf))
    files["lib.js"] = l.text()
    a = JsFile(rng, "app.js", imported=lf[:2])
    a.emit('import { %s } from "./lib.js";' % ", ".join(lf[:2]))
    planned = [names.pop() if names else "fn%d" % i for i in range(size)]
    order = list(planned)
    rng.shuffle(order)
    a.rank = {f: i for i, f in enumerate(order)}
    for f in planned:
        a.func(f, leaf=rng.random() < 0.35)
    a.emit("function main(tp) {")
    a.body(1, ["tp"], 0, False)
    a.emit("}")
    a.toplevel()
    files["app.js"] = a.text()
    return {"files": files}
