"""C02 — typed random generator of core-language programs (the quantifier of C02; reference semantics
`evalCore`, LianVerif/Spec/Core.lean) and seven pretty-printers rendering one core program as Python,
JavaScript, TypeScript, Java, Go, C and PHP source.

Core AST = the JSON form the Lean driver decodes (Drv/Core.lean):
  ty:   "int" | "bool" | "str" | "arr" | ["rec", R]
  expr: ["int", n] ["bool", b] ["str", s] ["var", x] ["bin", op, l, r] ["un", op, e]
        ["and", l, r] ["or", l, r] ["call", f, [args]] ["idx", a, i] ["fld", r, f]
  stmt: ["decl", x, ty, e] ["assign", x, e] ["newarr", x, [e…]] ["newrec", x, R, [[f, e]…]]
        ["setidx", a, i, e] ["setfld", r, f, e] ["if", c, [thn], [els]] ["while", c, [body]]
        ["for", i, lo, hi, [body]] ["break"] ["continue"] ["ret", e] ["out", e] ["expr", e]
  fn:   {"name", "params": [[x, ty]…], "ret": ty, "body": [stmt…]}
  program: {"recs": [[R, [f…]]…], "fns": [fn…], "entry": "entry", "argvs": [[v…]…], "tier": 1|2|3}

Tiers: 1 = ints, locals, arithmetic, comparison, if/else, while, functions, calls, return, output;
2 = + counted for, break/continue, strings (literals, concat), booleans (and/or/not);
3 = + arrays of ints, records with int fields.

What the generator guarantees (the common subset where the seven languages agree, see Spec/Core.lean):
programs are well-typed, terminate (loops are bounded by literal counters, no recursion), keep values
small, use `%` only on expressions built to be non-negative with a positive literal divisor, never
compare strings, never alias / pass / return / print arrays and records, use loop bounds the body
cannot change, give every variable of a function a distinct name and use it only inside the block
that declares it, and put break/continue/return last in their block.
"""
import json, random

LANGS = ["python", "javascript", "typescript", "java", "go", "c", "php"]
EXT = {"python": ".py", "javascript": ".js", "typescript": ".ts", "java": ".java", "go": ".go", "c": ".c", "php": ".php"}
WORDS = ["", "a", "ab", "xy", "q r", "z9", "lian"]
# string constants with escape sequences and embedded quotes (rendered with \\n \\t \\" \\\\ in every language; a
# PHP double-quoted literal with an escape in the middle is a multi-part `encapsed_string`)
SPECIAL_WORDS = ["a\nb", "say \"hi\" now", "it's", "t\tu\\v", "x\ny\tz", "\"q\"", "a\\", "l1\nl2\nl3", "don't \"x\""]
SPECIAL_CHARS = set("\n\t\"'\\")
FIELDS = ["fa", "fb", "fc"]
ARITH = ["add", "sub", "mul", "mod"]
CMPS = ["lt", "le", "gt", "ge", "eq", "ne"]


# ============================================================================ generator
class Gen:
    def __init__(self, seed, tier=3, size="normal"):
        self.r = random.Random(seed)
        self.tier = tier
        self.size = size
        self.n = 0
        self.concat = self.r.random() < 0.6      # C has no concatenation operator: 40 % of the programs avoid it
        self.use_div = self.r.random() < 0.22    # integer division exists in Python, Java, Go, C only
        self.paren = "min" if self.r.random() < 0.5 else "full"   # minimal (precedence) vs full parenthesisation
        # 40 % of the programs use none of the renderings the lowering model does not cover (LEG 1 compares them row by row)
        self.rich = self.r.random() < 0.6
        self.special = self.rich and self.r.random() < 0.7     # string constants with escapes / quotes
        self.funcs = []     # dicts: name, ptypes, ret, effectful, heavy
        self.recs = []      # [name, [fields]]

    def fresh(self, p="v"):
        self.n += 1
        return f"{p}{self.n}"

    def types(self):
        return ["int", "int", "int", "bool", "str", "str"] if self.tier >= 2 else ["int"]

    # ---- expressions.  env: name -> {"ty":…, "nn": bool (int known non-negative), "ro": bool}
    def lit(self, ty):
        r = self.r
        if ty == "int":
            return ["int", r.choice([0, 1, 2, 3, 4, 5, 7, 10, 12])]
        if ty == "bool":
            return ["bool", r.random() < 0.5]
        if self.special and self.tier >= 2 and r.random() < 0.45:
            return ["str", r.choice(SPECIAL_WORDS)]
        return ["str", r.choice(WORDS)]

    # ---- literal-only expressions mixing several operators (constant folders of the frontends)
    def lit_tree(self, nn):
        """an int expression over 2-4 literals and >= 1 operators whose evaluation stays inside the common subset
        (checked here by evaluating it); `nn`: the value must be non-negative"""
        r = self.r
        ops = ["add", "sub", "mul", "mod"] + (["div"] if self.use_div else [])
        for _ in range(20):
            n = r.randint(2, 4)
            e = ["int", r.choice([0, 1, 2, 3, 4, 5, 7, 10, 12])]
            leaves = [e]
            for _ in range(n - 1):
                leaf = ["int", r.choice([1, 2, 3, 4, 5, 7, 10, 12])]
                op = r.choice(ops)
                # grow to the right (a op b) or nest the new operator below the last leaf's parent at random
                if r.random() < 0.5 or e[0] == "int":
                    e = ["bin", op, e, leaf]
                else:
                    e = ["bin", e[1], e[2], ["bin", op, e[3], leaf]]
            v = const_value(e)
            if v is not None and (not nn or v >= 0) and abs(v) < 100000:
                return e
        return ["int", 3]

    def atom(self, env, ty, nn=False):
        vs = [x for x, i in env.items() if i["ty"] == ty and (not nn or i.get("nn"))]
        if vs and self.r.random() < 0.7:
            return ["var", self.r.choice(vs)]
        return self.lit(ty)

    def expr(self, env, ty, d=0, nn=False, calls=True):
        r = self.r
        if d >= 3 or r.random() < 0.28 + 0.13 * d:
            return self.atom(env, ty, nn)
        k = r.random()
        if ty == "int":
            if self.rich and d <= 1 and r.random() < 0.09:
                return self.lit_tree(nn)
            if self.use_div and r.random() < 0.07:
                return ["bin", "div", self.expr(env, "int", d + 1, True, calls), ["int", r.choice([2, 3, 5])]]
            if self.tier >= 3 and not nn and r.random() < 0.25:
                e = self.elem(env, d, calls)
                if e is not None:
                    return e
            if k < 0.45:
                op = r.choice(["add", "add", "sub", "mul"]) if not nn else r.choice(["add", "add", "mul"])
                if op == "mul":
                    return ["bin", "mul", self.expr(env, "int", d + 1, nn, calls), ["int", r.choice([0, 1, 2, 3])]]
                return ["bin", op, self.expr(env, "int", d + 1, nn, calls), self.expr(env, "int", d + 1, nn, calls)]
            if k < 0.55:
                return ["bin", "mod", self.expr(env, "int", d + 1, True, calls), ["int", r.choice([2, 3, 5, 7])]]
            if k < 0.62 and not nn:
                return ["un", "neg", self.expr(env, "int", d + 1, False, calls)]
            if k < 0.72 and self.tier >= 3:
                e = self.elem(env, d, calls)
                if e is not None and not nn:
                    return e
            if calls:
                c = self.call(env, "int", d)
                if c is not None and not nn:
                    return c
            return self.atom(env, "int", nn)
        if ty == "bool":
            if self.rich and d <= 1 and r.random() < 0.06:
                return ["bin", r.choice(CMPS), self.lit_tree(False), self.lit_tree(False)]
            if k < 0.55 or self.tier < 2:
                return ["bin", r.choice(CMPS), self.expr(env, "int", d + 1, False, calls), self.expr(env, "int", d + 1, False, calls)]
            if k < 0.75:
                rhs = self.expr(env, "bool", d + 1, False, calls)
                if calls and r.random() < 0.25:
                    c = self.call(env, "bool", d, want_effect=True)
                    if c is not None:
                        rhs = c
                return [r.choice(["and", "or"]), self.expr(env, "bool", d + 1, False, calls), rhs]
            if k < 0.87:
                return ["un", "not", self.expr(env, "bool", d + 1, False, calls)]
            if calls:
                c = self.call(env, "bool", d)
                if c is not None:
                    return c
            return self.atom(env, "bool")
        # str
        if self.concat and d <= 1 and r.random() < 0.10:
            # 2-4 literal parts: folded by Java, a chain elsewhere
            e = self.lit("str")
            for _ in range(r.randint(1, 3)):
                e = ["bin", "concat", e, self.lit("str")]
            return e
        if self.rich and self.concat and r.random() < 0.30:
            it = self.interp(env)
            if it is not None:
                return it
        if k < 0.45 and self.concat:
            return ["bin", "concat", self.expr(env, "str", d + 1, False, calls), self.expr(env, "str", d + 2, False, calls)]
        if calls:
            c = self.call(env, "str", d)
            if c is not None:
                return c
        return self.atom(env, "str")

    def interp(self, env):
        """interpolated / template string: 2-4 parts, string variables and text (PHP "…$x…" / "…{$x}…", JS/TS `…${x}…`,
        a `+` chain elsewhere); semantics: concatenation"""
        r = self.r
        vs = [x for x, i in env.items() if i["ty"] == "str"]
        if not vs:
            return None
        texts = ["p", " q", "a b ", "-", ": ", "x1"] + (["a\nb", "say \"hi\" ", "it's ", "\t"] if self.special else [])
        n = r.randint(2, 4)
        parts = []
        for i in range(n):
            if (i % 2 == 0) == (r.random() < 0.8):
                parts.append(["s", r.choice(texts)])
            else:
                parts.append(["v", r.choice(vs), r.random() < 0.5])
        if not any(p[0] == "v" for p in parts):
            parts[r.randrange(n)] = ["v", r.choice(vs), r.random() < 0.5]
        return ["interp", parts]

    def elem(self, env, d, calls):
        arrs = [(x, i) for x, i in env.items() if i["ty"] == "arr"]
        recs = [(x, i) for x, i in env.items() if isinstance(i["ty"], list)]
        if arrs and (not recs or self.r.random() < 0.6):
            x, i = self.r.choice(arrs)
            return ["idx", x, self.index(env, i["len"], d, calls)]
        if recs:
            x, i = self.r.choice(recs)
            return ["fld", x, self.r.choice(i["fields"])]
        return None

    def index(self, env, n, d, calls):
        """an int expression with value in [0, n)"""
        if self.r.random() < 0.6:
            return ["int", self.r.randrange(n)]
        return ["bin", "mod", self.expr(env, "int", d + 2, True, calls), ["int", n]]

    def call(self, env, ty, d, want_effect=False):
        cands = [f for f in self.funcs if f["ret"] == ty and not (env.get("%loop") and f["heavy"])]
        if want_effect:
            cands = [f for f in cands if f["effectful"]] or cands
        if not cands:
            return None
        f = self.r.choice(cands)
        return ["call", f["name"], [self.expr(env, t, d + 1, t == "int") for t in f["ptypes"]]]

    # ---- statements
    def block(self, env, n, in_loop, ret_ty, depth, loop_kind=None):
        body = []
        for _ in range(n):
            body += self.stmt(env, in_loop, ret_ty, depth, loop_kind)
        if not body:
            body = [["out", self.atom(env, "int")]]
        return body

    def no_growth(self, env, ty):
        """inside a loop a string may not be built from string variables (`s = s + s` doubles it on every iteration — and
        a frontend defect that makes the loop run on would make it explode); only `s += literal` grows strings there"""
        if ty != "str" or "%loop" not in env:
            return env
        return {x: i for x, i in env.items() if i["ty"] != "str"}

    def writable(self, env, ty):
        return [x for x, i in env.items() if i["ty"] == ty and not i.get("ro")]

    def stmt(self, env, in_loop, ret_ty, depth, loop_kind):
        r = self.r
        k = r.random()
        nvars = sum(1 for x in env if not x.startswith("%"))
        if self.tier >= 3 and nvars >= 2 and r.random() < 0.16:
            return self.container_stmt(env)
        if k < 0.22 or nvars < 2:
            ty = r.choice(self.types())
            nn = ty == "int" and r.random() < 0.5
            e = self.expr(self.no_growth(env, ty), ty, 0, nn, calls=not (ty == "str" and "%loop" in env))
            x = self.fresh()
            env[x] = {"ty": ty, "nn": nn}
            return [["decl", x, ty, e]]
        if k < 0.40:
            ty = r.choice(self.types())
            vs = self.writable(env, ty)
            if vs:
                x = r.choice(vs)
                return [["assign", x, self.expr(self.no_growth(env, ty), ty, 0, env[x].get("nn", False),
                                                calls=not (ty == "str" and "%loop" in env))]]
        if k < 0.47 and self.tier >= 3:
            return self.container_stmt(env)
        if self.rich and (0.40 <= k < 0.47 or (self.tier < 3 and r.random() < 0.05)):
            st = self.aug_stmt(env)
            if st is not None:
                return st
        if k < 0.62 and depth < 3:
            c = self.expr(env, "bool", 0)
            thn = self.block(dict(env), r.randint(1, 3), in_loop, ret_ty, depth + 1, loop_kind)
            els = self.block(dict(env), r.randint(1, 2), in_loop, ret_ty, depth + 1, loop_kind) if r.random() < 0.5 else []
            if in_loop and self.tier >= 2 and r.random() < (0.30 if loop_kind == "for" else 0.12):
                thn.append([r.choice(["break", "continue"])])
            elif ret_ty and r.random() < 0.12:
                thn.append(["ret", self.expr(env, ret_ty, 1)])
            return [["if", c, thn, els]]
        if k < 0.72 and depth < 2:
            return self.while_loop(env, ret_ty, depth)
        if k < 0.80 and depth < 2 and self.tier >= 2:
            return self.for_loop(env, ret_ty, depth)
        if k < 0.93:
            ty = r.choice(self.types())
            return [["out", self.expr(env, ty, 1)]]
        fs = [f for f in self.funcs if not (in_loop and f["heavy"])]
        if fs:
            f = r.choice(fs)
            return [["expr", ["call", f["name"], [self.expr(env, t, 1, t == "int") for t in f["ptypes"]]]]]
        return [["out", self.atom(env, "int")]]

    def aug_rhs(self, env, target, nn):
        """(op, rhs, style) of a compound assignment / increment of an int location"""
        r = self.r
        if r.random() < 0.4:
            return (r.choice(["add", "sub"]) if not nn else "add"), ["int", 1], "inc"
        op = r.choice(["add", "mul"] if nn else ["add", "sub", "mul"])
        rhs = ["int", r.choice([0, 1, 2, 3])] if op == "mul" else self.expr(env, "int", 1, nn, calls=False)
        return op, rhs, "aug"

    def aug_stmt(self, env):
        """`x += e`, `x++`, `s += "t"`: an assignment whose right-hand side starts with its own target, rendered compound"""
        r = self.r
        ints = self.writable(env, "int")
        strs = self.writable(env, "str") if self.concat and self.tier >= 2 else []
        if strs and (not ints or r.random() < 0.25):
            x = r.choice(strs)
            return [["assign", x, ["bin", "concat", ["var", x], self.lit("str")], "aug"]]
        if not ints:
            return None
        x = r.choice(ints)
        op, rhs, style = self.aug_rhs(env, x, env[x].get("nn", False))
        return [["assign", x, ["bin", op, ["var", x], rhs], style]]

    def container_stmt(self, env):
        r = self.r
        arrs = [(x, i) for x, i in env.items() if i["ty"] == "arr"]
        recs = [(x, i) for x, i in env.items() if isinstance(i["ty"], list)]
        k = r.random()
        if k < 0.3 or not (arrs or recs):
            if r.random() < 0.6 or not self.recs:
                n = r.randint(1, 4)
                x = self.fresh("a")
                st = ["newarr", x, [self.expr(env, "int", 1) for _ in range(n)]]
                env[x] = {"ty": "arr", "len": n, "ro": True}
                return [st]
            name, fields = r.choice(self.recs)
            x = self.fresh("r")
            st = ["newrec", x, name, [[f, self.expr(env, "int", 1)] for f in fields]]
            env[x] = {"ty": ["rec", name], "fields": fields, "ro": True}
            return [st]
        if arrs and (not recs or r.random() < 0.6):
            x, i = r.choice(arrs)
            if self.rich and r.random() < 0.35:
                # a[i] op= e / a[i]++ : the index is a pure expression (it is read twice by the reference semantics)
                ix = self.index(env, i["len"], 1, False)
                op, rhs, style = self.aug_rhs(env, x, False)
                return [["setidx", x, ix, ["bin", op, ["idx", x, ix], rhs], style]]
            return [["setidx", x, self.index(env, i["len"], 1, True), self.expr(env, "int", 1)]]
        x, i = r.choice(recs)
        f = r.choice(i["fields"])
        if self.rich and r.random() < 0.35:
            op, rhs, style = self.aug_rhs(env, x, False)
            return [["setfld", x, f, ["bin", op, ["fld", x, f], rhs], style]]
        return [["setfld", x, f, self.expr(env, "int", 1)]]

    def while_loop(self, env, ret_ty, depth):
        r = self.r
        i = self.fresh("i")
        bound = r.randint(1, 4)
        base = ["bin", "lt", ["var", i], ["int", bound]]
        cond = base
        if self.tier >= 2 and r.random() < 0.25:
            cond = ["and", base, self.expr(env, "bool", 1, False, calls=False)]
        env[i] = {"ty": "int", "nn": True, "ro": True}
        inner = dict(env)
        inner["%loop"] = {"ty": "%"}
        body = [["assign", i, ["bin", "add", ["var", i], ["int", 1]]]] + \
            self.block(inner, r.randint(1, 3), True, ret_ty, depth + 1, "while")
        return [["decl", i, "int", ["int", 0]], ["while", cond, body]]

    def for_loop(self, env, ret_ty, depth):
        r = self.r
        i = self.fresh("i")
        lo = ["int", r.choice([0, 0, 1, 2])]
        his = [x for x, inf in env.items() if inf["ty"] == "int" and inf.get("small")]
        if his and r.random() < 0.4:
            hv = r.choice(his)
            hi = ["var", hv]
        else:
            hv = None
            hi = ["int", r.randint(0, 5)]
        inner = dict(env)
        inner[i] = {"ty": "int", "nn": True, "ro": True}
        if hv:
            inner[hv] = dict(inner[hv], ro=True)
        inner["%loop"] = {"ty": "%"}
        body = self.block(inner, r.randint(1, 3), True, ret_ty, depth + 1, "for")
        return [["for", i, lo, hi, body]]

    # ---- functions, program
    def func(self, name, ptypes, ret_ty, nst):
        env = {}
        params = []
        first_int = True
        for t in ptypes:
            p = self.fresh("p")
            env[p] = {"ty": t, "nn": t == "int"}
            if t == "int" and first_int:
                # a small read-only parameter: usable as the bound of a counted loop
                env[p].update(small=True, ro=True)
                first_int = False
            params.append([p, t])
        body = []
        eff = False
        if self.r.random() < 0.45:
            body.append(["out", ["var", params[0][0]] if params else ["int", self.r.randint(0, 9)]])
            eff = True
        body += self.block(env, nst, False, ret_ty, 0)
        heavy = any(s in json.dumps(body) for s in ('"while"', '"for"'))
        eff = eff or '"out"' in json.dumps(body) or any(f["effectful"] and json.dumps(f["name"]) in json.dumps(body) for f in self.funcs)
        body.append(["ret", self.expr(env, ret_ty, 1)])
        return {"name": name, "params": params, "ret": ret_ty, "body": body}, eff, heavy

    def program(self):
        r = self.r
        if self.tier >= 3:
            for _ in range(r.randint(0, 2)):
                self.recs.append([self.fresh("R"), FIELDS[:r.randint(1, 3)]])
        fns = []
        small = self.size == "small"
        for _ in range(r.randint(0, 1 if small else 3)):
            name = self.fresh("f")
            ptypes = [r.choice(self.types()) for _ in range(r.randint(0, 3))]
            ret = r.choice(self.types())
            d, eff, heavy = self.func(name, ptypes, ret, r.randint(1, 2 if small else 5))
            fns.append(d)
            self.funcs.append({"name": name, "ptypes": ptypes, "ret": ret, "effectful": eff, "heavy": heavy})
        ptypes = ["int", "int"] + ([r.choice(["bool", "str"])] if self.tier >= 2 else [])
        ret = r.choice(self.types())
        d, _, _ = self.func("entry", ptypes, ret, r.randint(2, 4) if small else r.randint(4, 10))
        # print a few of the entry's top-level variables before returning
        fns.append(d)
        argvs = []
        for _ in range(3):
            av = []
            for t in ptypes:
                av.append(r.choice([0, 1, 2, 3, 5, 9]) if t == "int" else (r.random() < 0.5 if t == "bool" else r.choice(WORDS)))
            argvs.append(av)
        return {"recs": self.recs, "fns": fns, "entry": "entry", "argvs": argvs, "tier": self.tier,
                "style": {"paren": self.paren}}


def generate(seed, tier=3, size="normal"):
    return Gen(seed, tier, size).program()


def const_value(e):
    """value of a literal-only int expression under the reference semantics, None if it leaves the common subset"""
    if e[0] == "int":
        return e[1]
    if e[0] != "bin":
        return None
    a, b = const_value(e[2]), const_value(e[3])
    if a is None or b is None:
        return None
    op = e[1]
    if op == "add":
        return a + b
    if op == "sub":
        return a - b
    if op == "mul":
        return a * b
    if op in ("div", "mod"):
        if a < 0 or b <= 0:
            return None
        return a // b if op == "div" else a % b
    return None


def plain_expr(e):
    """core expression without rendering hints: an interpolated string is the left-nested concatenation of its parts"""
    k = e[0]
    if k == "interp":
        parts = [["str", p[1]] if p[0] == "s" else ["var", p[1]] for p in e[1]]
        acc = parts[0]
        for q in parts[1:]:
            acc = ["bin", "concat", acc, q]
        return acc
    if k == "bin":
        return ["bin", e[1], plain_expr(e[2]), plain_expr(e[3])]
    if k == "un":
        return ["un", e[1], plain_expr(e[2])]
    if k in ("and", "or"):
        return [k, plain_expr(e[1]), plain_expr(e[2])]
    if k == "call":
        return ["call", e[1], [plain_expr(a) for a in e[2]]]
    if k == "idx":
        return ["idx", e[1], plain_expr(e[2])]
    return e


def plain_stmts(stmts):
    out = []
    for s in stmts:
        k = s[0]
        if k == "decl":
            out.append(["decl", s[1], s[2], plain_expr(s[3])])
        elif k == "assign":
            out.append(["assign", s[1], plain_expr(s[2])])
        elif k == "newarr":
            out.append(["newarr", s[1], [plain_expr(a) for a in s[2]]])
        elif k == "newrec":
            out.append(["newrec", s[1], s[2], [[f, plain_expr(a)] for f, a in s[3]]])
        elif k == "setidx":
            out.append(["setidx", s[1], plain_expr(s[2]), plain_expr(s[3])])
        elif k == "setfld":
            out.append(["setfld", s[1], s[2], plain_expr(s[3])])
        elif k == "if":
            out.append(["if", plain_expr(s[1]), plain_stmts(s[2]), plain_stmts(s[3])])
        elif k == "while":
            out.append(["while", plain_expr(s[1]), plain_stmts(s[2])])
        elif k == "for":
            out.append(["for", s[1], plain_expr(s[2]), plain_expr(s[3]), plain_stmts(s[4])])
        elif k in ("ret", "out", "expr"):
            out.append([k, plain_expr(s[1])])
        else:
            out.append(list(s))
    return out


def core_json(prog):
    """the program as the Lean driver decodes it: rendering hints (compound-assignment / increment style of a statement,
    interpolated strings, parenthesisation) removed"""
    return {"recs": prog["recs"], "fns": [dict(f, body=plain_stmts(f["body"])) for f in prog["fns"]]}


def stmt_style(s):
    n = {"assign": 3, "setidx": 4, "setfld": 4}.get(s[0])
    return s[n] if n is not None and len(s) > n else None


# ============================================================================ inspection
def walk_stmts(stmts):
    for s in stmts:
        yield s
        k = s[0]
        if k == "if":
            yield from walk_stmts(s[2])
            yield from walk_stmts(s[3])
        elif k == "while":
            yield from walk_stmts(s[2])
        elif k == "for":
            yield from walk_stmts(s[4])


def walk_exprs_of(e):
    yield e
    k = e[0]
    if k == "bin":
        yield from walk_exprs_of(e[2]); yield from walk_exprs_of(e[3])
    elif k == "un":
        yield from walk_exprs_of(e[2])
    elif k in ("and", "or"):
        yield from walk_exprs_of(e[1]); yield from walk_exprs_of(e[2])
    elif k == "call":
        for a in e[2]:
            yield from walk_exprs_of(a)
    elif k == "idx":
        yield from walk_exprs_of(e[2])
    elif k == "interp":
        for p in e[1]:
            if p[0] == "v":
                yield ["var", p[1]]


def stmt_exprs(s):
    k = s[0]
    if k == "decl":
        return [s[3]]
    if k == "assign":
        return [s[2]]
    if k == "newarr":
        return list(s[2])
    if k == "newrec":
        return [f[1] for f in s[3]]
    if k == "setidx":
        return [s[2], s[3]]
    if k == "setfld":
        return [s[3]]
    if k in ("if", "while"):
        return [s[1]]
    if k == "for":
        return [s[2], s[3]]
    if k in ("ret", "out", "expr"):
        return [s[1]]
    return []


def all_exprs(prog):
    for f in prog["fns"]:
        for s in walk_stmts(f["body"]):
            for e in stmt_exprs(s):
                yield from walk_exprs_of(e)


def count_stmts(prog):
    return sum(1 for f in prog["fns"] for _ in walk_stmts(f["body"]))


def constructs(prog):
    c = {}
    for f in prog["fns"]:
        c["fn"] = c.get("fn", 0) + 1
        for s in walk_stmts(f["body"]):
            c[s[0]] = c.get(s[0], 0) + 1
    for e in all_exprs(prog):
        key = e[0] if e[0] not in ("bin", "un") else e[0] + ":" + e[1]
        c[key] = c.get(key, 0) + 1
    return c


def has_continue_in_while(stmts, in_while=False):
    for s in stmts:
        k = s[0]
        if k == "continue" and in_while:
            return True
        if k == "if" and (has_continue_in_while(s[2], in_while) or has_continue_in_while(s[3], in_while)):
            return True
        if k == "while" and has_continue_in_while(s[2], True):
            return True
        if k == "for" and has_continue_in_while(s[4], False):
            return True
    return False


def const_like(e):
    return e[0] in ("int", "str", "bool") or (e[0] == "bin" and const_like(e[2]) and const_like(e[3]))


def shapes(prog):
    """shapes the known-finding matchers refer to."""
    sh = set()
    if any(e[0] in ("and", "or") for e in all_exprs(prog)):
        sh.add("boolop")
    if any(has_continue_in_while(f["body"]) for f in prog["fns"]):
        sh.add("while_continue")
    kinds = {s[0] for f in prog["fns"] for s in walk_stmts(f["body"])}
    if "newrec" in kinds:
        sh.add("record")
    if "newarr" in kinds:
        sh.add("array")
    if any((e[0] == "bin" and e[1] == "concat") or e[0] == "interp" for e in all_exprs(prog)):
        sh.add("concat")
    if any(e[0] == "interp" for e in all_exprs(prog)):
        sh.add("interp")
    if any(e[0] == "bin" and e[1] == "div" for e in all_exprs(prog)):
        sh.add("div")
    if any((e[0] == "str" and set(e[1]) & SPECIAL_CHARS) or
           (e[0] == "interp" and any(p[0] == "s" and set(p[1]) & SPECIAL_CHARS for p in e[1])) for e in all_exprs(prog)):
        sh.add("special_str")
    if any(stmt_style(s) for f in prog["fns"] for s in walk_stmts(f["body"])):
        sh.add("aug")
    # a binary node over literal-only operands one of which is itself a binary node: multi-level constant folding
    if any(e[0] == "bin" and const_like(e) and (e[2][0] == "bin" or e[3][0] == "bin") for e in all_exprs(prog)):
        sh.add("lit_tree")
    # `x < (-5)`, `x < ((-5) + y)`: the shipped tree-sitter TypeScript grammar reads `<(-5)…` as type arguments
    def starts_with_neg_literal(e):
        while e[0] == "bin":
            e = e[2]
        return e[0] == "un" and e[1] == "neg" and e[2][0] == "int"
    if any(e[0] == "bin" and e[1] == "lt" and starts_with_neg_literal(e[3]) for e in all_exprs(prog)):
        sh.add("lt_neg_literal")
    return sh


def supported(prog, lang):
    """can `prog` be rendered in `lang` inside the common subset?  (reason or None)"""
    sh = shapes(prog)
    if lang in ("javascript", "typescript", "php") and "div" in sh:
        return "no integer division operator in this language"
    if lang == "c" and "concat" in sh:
        return "C has no string concatenation operator"
    if lang == "c" and "record" in sh:
        return "C struct variables are values without an allocation statement (not rendered)"
    if lang == "go" and "record" in sh:
        return "Go struct literals are outside the vocabulary (finding C02/go-composite-literal); not rendered"
    if lang == "typescript" and "record" in sh:
        return "TypeScript object literals are mis-lowered (finding C02/ts-object-literal); not rendered"
    return None


# ============================================================================ renderers
class Render:
    """base: C-family syntax; subclasses override the differences."""
    lang = None
    ind = "    "
    AND, OR, NOT = "&&", "||", "!"
    TRUE, FALSE = "true", "false"
    OPS = {"add": "+", "sub": "-", "mul": "*", "div": "/", "mod": "%", "lt": "<", "le": "<=", "gt": ">", "ge": ">=",
           "eq": "==", "ne": "!=", "concat": "+"}
    OUT = "output"
    # precedence levels shared by the seven languages for these operators
    PREC = {"or": 1, "and": 2, "lt": 4, "le": 4, "gt": 4, "ge": 4, "eq": 4, "ne": 4,
            "add": 6, "sub": 6, "concat": 6, "mul": 7, "div": 7, "mod": 7}

    def __init__(self, prog, sim=()):
        self.p = prog
        self.sim = set(sim)
        self.tmpn = 0
        self.min_paren = (prog.get("style") or {}).get("paren") == "min"

    def v(self, x):
        return x

    def recs(self):
        """record types are declared only by programs that create a record"""
        used = {s[2] for f in self.p["fns"] for s in walk_stmts(f["body"]) if s[0] == "newrec"}
        return [(R, fs) for R, fs in self.p["recs"] if R in used]

    def esc(self, s):
        """the text of a string constant between double quotes"""
        return s.replace("\\", "\\\\").replace('"', '\\"').replace("\n", "\\n").replace("\t", "\\t")

    def strlit(self, s):
        return '"' + self.esc(s) + '"'

    def interp(self, parts):
        """default: a `+` chain (left-nested), like the reference semantics reads it"""
        return self.e(plain_expr(["interp", parts]), True)

    def needs_paren(self, x, ctx):
        """minimal parenthesisation: ctx = (precedence of the parent operator, side) or None at top level"""
        if ctx is None:
            return False
        k = x[1] if x[0] == "bin" else x[0]
        p, (pp, side) = self.PREC[k], ctx
        if p < pp:
            return True
        if p == pp:
            # comparisons do not associate (Python would chain them); equal precedence on the right needs parentheses
            return p == 4 or side == "R"
        return False

    def e(self, x, top=False, ctx=None):
        k = x[0]
        if k == "int":
            return str(x[1])
        if k == "bool":
            return self.TRUE if x[1] else self.FALSE
        if k == "str":
            return self.strlit(x[1])
        if k == "var":
            return self.v(x[1])
        if k == "interp":
            t = self.interp(x[1])
            return t if top or not (t.startswith('"') is False and " + " in t) else f"({t})"
        if k == "bin" or k in ("and", "or"):
            if k == "bin":
                opk, l, r, tok = x[1], x[2], x[3], self.OPS[x[1]]
            else:
                opk, l, r, tok = k, x[1], x[2], (self.AND if k == "and" else self.OR)
            if self.min_paren:
                pr = self.PREC[opk]
                s = f"{self.e(l, False, (pr, 'L'))} {tok} {self.e(r, False, (pr, 'R'))}"
                return f"({s})" if self.needs_paren(x, ctx) else s
            s = f"{self.e(l)} {tok} {self.e(r)}"
            return s if top else f"({s})"
        if k == "un":
            if x[1] == "neg":
                if self.min_paren:
                    a = x[2]
                    inner = self.e(a, False, (8, "R"))
                    if a[0] in ("bin", "and", "or", "interp") or (a[0] == "un" and a[1] == "neg"):
                        inner = inner if inner.startswith("(") and a[0] != "un" else f"({inner})"
                    t = "-" + inner
                    # `a - -b` is fine with the space; as an operand of a tighter operator keep it bare too
                    return t
                return f"(-{self.e(x[2])})"
            return self.e_not(x[2])
        if k == "call":
            return f"{x[1]}({', '.join(self.e(a, True) for a in x[2])})"
        if k == "idx":
            return f"{self.v(x[1])}[{self.e(x[2], True)}]"
        if k == "fld":
            return self.fld(x[1], x[2])
        raise ValueError(x)

    def e_not(self, a):
        if self.min_paren:
            inner = self.e(a, True)
            if a[0] in ("bin", "and", "or"):
                inner = f"({inner})"
            return f"{self.NOT}{inner}"
        return f"({self.NOT}{self.e(a)})"

    AUG = {"add": "+=", "sub": "-=", "mul": "*=", "concat": "+="}

    def compound(self, target, s, e, style, d):
        """`target op= rhs` / `target++` for a statement whose right-hand side is `target op rhs`"""
        op, rhs = e[1], e[3]
        if style == "inc":
            return self.inc(target, op, d)
        return self.semi(f"{target} {self.AUG[op]} {self.e(rhs, True)}", d)

    def inc(self, target, op, d):
        return self.semi(target + ("++" if op == "add" else "--"), d)

    def fld(self, r, f):
        return f"{self.v(r)}.{f}"

    # statements -> list of lines
    def block(self, stmts, d):
        out = []
        for s in stmts:
            out += self.s(s, d)
        return out

    def semi(self, text, d):
        return [self.ind * d + text + ";"]

    def s(self, s, d):
        k = s[0]
        I = self.ind * d
        if k == "decl":
            return self.decl(s[1], s[2], self.e(s[3], True), d)
        if stmt_style(s):
            target = self.v(s[1]) if k == "assign" else \
                (f"{self.v(s[1])}[{self.e(s[2], True)}]" if k == "setidx" else self.fld(s[1], s[2]))
            return self.compound(target, s, s[2] if k == "assign" else s[3], stmt_style(s), d)
        if k == "assign":
            return self.semi(f"{self.v(s[1])} = {self.e(s[2], True)}", d)
        if k == "newarr":
            return self.newarr(s[1], [self.e(a, True) for a in s[2]], d)
        if k == "newrec":
            return self.newrec(s[1], s[2], [(f, self.e(a, True)) for f, a in s[3]], d)
        if k == "setidx":
            return self.semi(f"{self.v(s[1])}[{self.e(s[2], True)}] = {self.e(s[3], True)}", d)
        if k == "setfld":
            return self.semi(f"{self.fld(s[1], s[2])} = {self.e(s[3], True)}", d)
        if k == "if":
            out = [I + self.if_head(self.e(s[1], True))] + self.block(s[2], d + 1)
            if s[3]:
                out += [I + "} else {"] + self.block(s[3], d + 1)
            return out + [I + "}"]
        if k == "while":
            return [I + self.while_head(self.e(s[1], True))] + self.block(s[2], d + 1) + [I + "}"]
        if k == "for":
            return [I + self.for_head(s[1], self.e(s[2], True), self.e(s[3], True))] + self.block(s[4], d + 1) + [I + "}"]
        if k == "break":
            return self.semi("break", d)
        if k == "continue":
            return self.semi("continue", d)
        if k == "ret":
            return self.semi(f"return {self.e(s[1], True)}", d)
        if k == "out":
            return self.semi(f"{self.OUT}({self.e(s[1], True)})", d)
        if k == "expr":
            return self.semi(self.e(s[1], True), d)
        raise ValueError(s)

    def if_head(self, c):
        return f"if ({c}) {{"

    def while_head(self, c):
        return f"while ({c}) {{"

    def render(self):
        raise NotImplementedError


class RenderJS(Render):
    lang = "javascript"

    def interp(self, parts):
        t = "".join(self.esc(p[1]).replace('\\"', '"').replace("`", "\\`") if p[0] == "s" else "${" + p[1] + "}" for p in parts)
        return "`" + t + "`"

    def decl(self, x, ty, e, d):
        return self.semi(f"let {x} = {e}", d)

    def newarr(self, x, es, d):
        return self.semi(f"let {x} = [{', '.join(es)}]", d)

    def newrec(self, x, R, fs, d):
        return self.semi(f"let {x} = {{{', '.join(f'{f}: {e}' for f, e in fs)}}}", d)

    def for_head(self, i, lo, hi):
        return f"for (let {i} = {lo}; {i} < {hi}; {i} = {i} + 1) {{"

    def fn_head(self, f):
        return f"function {f['name']}({', '.join(p for p, _ in f['params'])}) {{"

    def render(self):
        out = []
        for f in self.p["fns"]:
            out += [self.fn_head(f)] + self.block(f["body"], 1) + ["}", ""]
        return "\n".join(out)


class RenderTS(RenderJS):
    lang = "typescript"
    T = {"int": "number", "bool": "boolean", "str": "string", "arr": "number[]"}

    def ty(self, t):
        return self.T[t] if isinstance(t, str) else "any"

    def decl(self, x, ty, e, d):
        return self.semi(f"let {x}: {self.ty(ty)} = {e}", d)

    def newarr(self, x, es, d):
        return self.semi(f"let {x}: number[] = [{', '.join(es)}]", d)

    def fn_head(self, f):
        ps = ", ".join(f"{p}: {self.ty(t)}" for p, t in f["params"])
        return f"function {f['name']}({ps}): {self.ty(f['ret'])} {{"


class RenderJava(Render):
    lang = "java"
    T = {"int": "int", "bool": "boolean", "str": "String", "arr": "int[]"}

    def ty(self, t):
        return self.T[t] if isinstance(t, str) else t[1]

    def decl(self, x, ty, e, d):
        return self.semi(f"{self.ty(ty)} {x} = {e}", d)

    def newarr(self, x, es, d):
        return self.semi(f"int[] {x} = {{{', '.join(es)}}}", d)

    def newrec(self, x, R, fs, d):
        out = self.semi(f"{R} {x} = new {R}()", d)
        for f, e in fs:
            out += self.semi(f"{x}.{f} = {e}", d)
        return out

    def for_head(self, i, lo, hi):
        return f"for (int {i} = {lo}; {i} < {hi}; {i} = {i} + 1) {{"

    def render(self):
        out = []
        for R, fields in self.recs():
            out += [f"class {R} {{"] + [f"    int {f};" for f in fields] + ["}", ""]
        out += ["class Main {"]
        for f in self.p["fns"]:
            ps = ", ".join(f"{self.ty(t)} {p}" for p, t in f["params"])
            out += [f"    static {self.ty(f['ret'])} {f['name']}({ps}) {{"] + self.block(f["body"], 2) + ["    }", ""]
        out += ["}", ""]
        return "\n".join(out)


class RenderGo(Render):
    lang = "go"
    T = {"int": "int", "bool": "bool", "str": "string", "arr": "[]int"}

    def ty(self, t):
        return self.T[t] if isinstance(t, str) else t[1]

    def semi(self, text, d):
        return [self.ind * d + text]

    def decl(self, x, ty, e, d):
        return self.semi(f"{x} := {e}", d)

    def newarr(self, x, es, d):
        return self.semi(f"{x} := []int{{{', '.join(es)}}}", d)

    def newrec(self, x, R, fs, d):
        return self.semi(f"{x} := {R}{{{', '.join(f'{f}: {e}' for f, e in fs)}}}", d)

    def if_head(self, c):
        return f"if {c} {{"

    def while_head(self, c):
        return f"for {c} {{"

    def for_head(self, i, lo, hi):
        return f"for {i} := {lo}; {i} < {hi}; {i} = {i} + 1 {{"

    def render(self):
        out = ["package main", ""]
        for R, fields in self.recs():           # (programs using records are not rendered for Go: see supported())
            out += [f"type {R} struct {{"] + [f"    {f} int" for f in fields] + ["}", ""]
        for f in self.p["fns"]:
            ps = ", ".join(f"{p} {self.ty(t)}" for p, t in f["params"])
            out += [f"func {f['name']}({ps}) {self.ty(f['ret'])} {{"] + self.block(f["body"], 1) + ["}", ""]
        return "\n".join(out)


class RenderC(Render):
    lang = "c"
    T = {"int": "int", "bool": "bool", "str": "char *"}

    def ty(self, t):
        return self.T[t]

    def decl(self, x, ty, e, d):
        t = self.ty(ty)
        return self.semi(f"{t}{'' if t.endswith('*') else ' '}{x} = {e}", d)

    def newarr(self, x, es, d):
        return self.semi(f"int {x}[{len(es)}] = {{{', '.join(es)}}}", d)

    def for_head(self, i, lo, hi):
        return f"for (int {i} = {lo}; {i} < {hi}; {i} = {i} + 1) {{"

    def render(self):
        out = []
        for f in self.p["fns"]:
            ps = ", ".join(f"{self.ty(t)}{'' if self.ty(t).endswith('*') else ' '}{p}" for p, t in f["params"])
            rt = self.ty(f["ret"])
            out += [f"{rt}{'' if rt.endswith('*') else ' '}{f['name']}({ps}) {{"] + self.block(f["body"], 1) + ["}", ""]
        return "\n".join(out)


class RenderPHP(Render):
    lang = "php"
    OPS = dict(Render.OPS, concat=".")
    AUG = dict(Render.AUG, concat=".=")

    def interp(self, parts):
        out = ""
        for i, p in enumerate(parts):
            if p[0] == "s":
                out += self.esc(p[1])
            else:
                nxt = parts[i + 1] if i + 1 < len(parts) else None
                glued = nxt is not None and nxt[0] == "s" and nxt[1][:1] and (nxt[1][0].isalnum() or nxt[1][0] in "_[-")
                out += ("{$" + p[1] + "}") if (p[2] or glued) else ("$" + p[1])
        return '"' + out + '"'

    def v(self, x):
        return "$" + x

    def fld(self, r, f):
        return f"${r}->{f}"

    def decl(self, x, ty, e, d):
        return self.semi(f"${x} = {e}", d)

    def newarr(self, x, es, d):
        return self.semi(f"${x} = [{', '.join(es)}]", d)

    def newrec(self, x, R, fs, d):
        out = self.semi(f"${x} = new {R}()", d)
        for f, e in fs:
            out += self.semi(f"${x}->{f} = {e}", d)
        return out

    def for_head(self, i, lo, hi):
        return f"for (${i} = {lo}; ${i} < {hi}; ${i} = ${i} + 1) {{"

    def render(self):
        out = ["<?php"]
        for R, fields in self.recs():
            out += [f"class {R} {{"] + [f"    public ${f};" for f in fields] + ["}", ""]
        for f in self.p["fns"]:
            out += [f"function {f['name']}({', '.join('$' + p for p, _ in f['params'])}) {{"] + self.block(f["body"], 1) + ["}", ""]
        return "\n".join(out)


class RenderPy(Render):
    """Python; `sim` ⊆ {"strict_bool", "while_stale"} renders the program the way the recorded open
    lowering defects make it behave (used ONLY to classify a mismatch as a known finding)."""
    lang = "python"
    AND, OR, NOT = "and", "or", "not "
    TRUE, FALSE = "True", "False"
    OUT = "print"
    OPS = dict(Render.OPS, div="//")

    def inc(self, target, op, d):
        return self.semi(f"{target} {'+=' if op == 'add' else '-='} 1", d)

    def e(self, x, top=False, ctx=None):
        if x[0] in ("and", "or") and "strict_bool" in self.sim:
            return f"_s{x[0]}({self.e(x[1], True)}, {self.e(x[2], True)})"
        return super().e(x, top, ctx)

    def e_not(self, a):
        inner = self.e(a, True)
        if a[0] in ("bin", "and", "or"):
            inner = f"({inner})"
        return f"(not {inner})"

    def semi(self, text, d):
        return [self.ind * d + text]

    def decl(self, x, ty, e, d):
        return self.semi(f"{x} = {e}", d)

    def newarr(self, x, es, d):
        return self.semi(f"{x} = [{', '.join(es)}]", d)

    def newrec(self, x, R, fs, d):
        out = self.semi(f"{x} = {R}()", d)
        for f, e in fs:
            out += self.semi(f"{x}.{f} = {e}", d)
        return out

    def s(self, s, d):
        k = s[0]
        I = self.ind * d
        if k == "if":
            out = [I + f"if {self.e(s[1], True)}:"] + self.block(s[2], d + 1)
            if s[3]:
                out += [I + "else:"] + self.block(s[3], d + 1)
            return out
        if k == "while":
            if "while_stale" in self.sim:
                # lian: the statements computing the condition sit before the loop and at the END of the
                # body; `continue` jumps to the test of the (stale) condition variable
                self.tmpn += 1
                c = f"_c{self.tmpn}"
                return [I + f"{c} = {self.e(s[1], True)}", I + f"while {c}:"] + self.block(s[2], d + 1) + \
                    [self.ind * (d + 1) + f"{c} = {self.e(s[1], True)}"]
            return [I + f"while {self.e(s[1], True)}:"] + self.block(s[2], d + 1)
        if k == "for":
            return [I + f"for {s[1]} in range({self.e(s[2], True)}, {self.e(s[3], True)}):"] + self.block(s[4], d + 1)
        return super().s(s, d)

    def render(self):
        out = []
        if "strict_bool" in self.sim:
            out += ["def _sand(a, b):", "    return b if a else a", "", "def _sor(a, b):", "    return a if a else b", ""]
        for R, fields in self.recs():
            out += [f"class {R}:", "    pass", ""]
        for f in self.p["fns"]:
            out += [f"def {f['name']}({', '.join(p for p, _ in f['params'])}):"] + self.block(f["body"], 1) + [""]
        return "\n".join(out)


RENDERERS = {"python": RenderPy, "javascript": RenderJS, "typescript": RenderTS, "java": RenderJava,
             "go": RenderGo, "c": RenderC, "php": RenderPHP}


def render(prog, lang, sim=()):
    return RENDERERS[lang](prog, sim).render() + "\n"


def file_name(lang, i, prefix="p"):
    """one file per program (Java: the class inside is always Main; file names need not match)."""
    return f"{prefix}{i}{EXT[lang]}"


# ============================================================================ shrinking
def shrink_candidates(prog):
    """programs obtained by deleting one statement / one helper function / two argument vectors."""
    cands = []

    def paths(stmts, prefix):
        for i, s in enumerate(stmts):
            yield prefix + [i]
            k = s[0]
            if k == "if":
                yield from paths(s[2], prefix + [i, 2])
                yield from paths(s[3], prefix + [i, 3])
            elif k == "while":
                yield from paths(s[2], prefix + [i, 2])
            elif k == "for":
                yield from paths(s[4], prefix + [i, 4])

    def delete(stmts, path):
        i = path[0]
        if len(path) == 1:
            return stmts[:i] + stmts[i + 1:]
        s = list(stmts[i])
        s[path[1]] = delete(s[path[1]], path[2:])
        return stmts[:i] + [s] + stmts[i + 1:]

    def uses_ok(p):
        """every variable used is declared before in an enclosing block; every called function exists;
        every function body ends with ret."""
        names = {f["name"] for f in p["fns"]}
        for f in p["fns"]:
            if not f["body"] or f["body"][-1][0] != "ret":
                return False

            def chk(stmts, env):
                env = set(env)
                for s in stmts:
                    for e in stmt_exprs(s):
                        for x in walk_exprs_of(e):
                            if x[0] == "var" and x[1] not in env:
                                return False
                            if x[0] in ("idx", "fld") and x[1] not in env:
                                return False
                            if x[0] == "call" and x[1] not in names:
                                return False
                    k = s[0]
                    if k in ("assign", "setidx", "setfld") and s[1] not in env:
                        return False
                    if k in ("decl", "newarr", "newrec"):
                        env.add(s[1])
                    if k == "if" and not (chk(s[2], env) and chk(s[3], env)):
                        return False
                    if k == "while" and not chk(s[2], env):
                        return False
                    if k == "for" and not chk(s[4], env | {s[1]}):
                        return False
                return True
            if not chk(f["body"], {p for p, _ in f["params"]}):
                return False
        return True

    for fi, f in enumerate(prog["fns"]):
        for path in paths(f["body"], []):
            nb = delete(f["body"], path)
            fns = prog["fns"][:fi] + [dict(f, body=nb)] + prog["fns"][fi + 1:]
            c = dict(prog, fns=fns)
            if uses_ok(c):
                cands.append(c)
        if f["name"] != prog["entry"]:
            c = dict(prog, fns=prog["fns"][:fi] + prog["fns"][fi + 1:])
            if uses_ok(c):
                cands.append(c)
    if len(prog["argvs"]) > 1:
        for av in prog["argvs"]:
            cands.append(dict(prog, argvs=[av]))
    return cands


if __name__ == "__main__":
    import sys
    p = generate(int(sys.argv[1]) if len(sys.argv) > 1 else 1, int(sys.argv[2]) if len(sys.argv) > 2 else 3)
    for l in (sys.argv[3:] or LANGS):
        print("=" * 30, l)
        print(render(p, l))
