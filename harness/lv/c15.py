"""C15 — every result saved through the loader is what later reads and the files return.

Layers (all run on every invocation, corpus first):
  lru        real util.LRUCache            vs Lean `Lru.step`        + independent OrderedDict oracle
  loader     real GeneralLoader subclasses vs Lean `Loader.step`     + independent dict oracle ("latest save wins",
             (one per family of c15_items)                             files contain every item, reopen returns it)
  maploader  real OneToManyMapLoader       vs Lean `MapLoader.step`  + independent oracle
  facade     every sub-loader of lian.util.loader.Loader that has export() is reached by Loader.export()
  roundtrip  items harvested from a real analysis (every GeneralLoader.save of an in-process lian run) pushed through
             save → get (active) → export → fresh loader → get (disk) and compared canonically  [RoundTrip hypothesis]

Verdicts follow DESIGN §2.5: the oracles decide violations; model≠real with the oracles silent, or a broken proof
obligation, is reported with `no_input=True`.
"""
import contextlib, copy, hashlib, io, itertools, json, os, random, shutil, subprocess, sys, time, traceback
import multiprocessing as mp
import common
from common import drv_batch, drv_ok

PROP = "C15"
KF_SFG = "C15/sfg-p3-not-persisted"
KF_FACADE = "C15/summary-instance-not-exported"
KF_VALUE = "C15/state-value-read-back-as-string"


def diff_leaves(a, b, path=()):
    """leaf-level differences between two canonical (JSON) values: [(path, a_leaf, b_leaf)]"""
    if isinstance(a, dict) and isinstance(b, dict) and set(a) == set(b):
        out = []
        for k in a:
            out += diff_leaves(a[k], b[k], path + (k,))
        return out
    if isinstance(a, list) and isinstance(b, list) and len(a) == len(b):
        out = []
        for i, (x, y) in enumerate(zip(a, b)):
            out += diff_leaves(x, y, path + (i,))
        return out
    return [] if a == b else [(path, a, b)]


def only_state_value_stringified(cls, saved_json, got_json):
    """matcher of C15/state-value-read-back-as-string: SymbolStateSpaceLoader, and every difference is the `value` field of a
    state whose saved value is not a string and whose read value is exactly str(saved value)."""
    if cls != "SymbolStateSpaceLoader":
        return False
    d = diff_leaves(json.loads(saved_json), json.loads(got_json))
    return bool(d) and all(p and p[-1] == "value" and isinstance(a, dict) and list(a) == ["nonstr"] and a["nonstr"] == b for p, a, b in d)


# =====================================================================================================
# LRU layer
# =====================================================================================================
def _walk(cache, limit=10000):
    """entries of a util.LRUCache from least to most recently used; bounded so that a corrupted list cannot hang the harness"""
    order = []
    n = cache.head.next
    while n is not cache.tail and n is not None and len(order) < limit:
        order.append([n._id, n._data]); n = n.next
    return order


def lru_real(cap, ops):
    from lian.util import util
    c = util.LRUCache(cap)
    out = []
    for op in ops:
        k = op[0]
        try:
            if k == "get":
                r = c.get(op[1]); o = [] if r is None else [r]
            elif k == "contain":
                o = bool(c.contain(op[1]))
            elif k == "put":
                c.put(op[1], op[2]); o = None
            else:
                c.remove(op[1]); o = None
            order = _walk(c)
            # the dict and the linked list must describe the same entries
            consistent = sorted(c.cache.keys()) == sorted(x[0] for x in order) and len(order) == len(c.cache)
        except Exception as e:        # the code under test raised: an outcome, not a harness failure
            o, order, consistent = ["exception", type(e).__name__], [], False
        out.append([o, order, consistent])
    return out


def lru_oracle(cap, ops):
    """Textbook LRU over an OrderedDict: the property the loaders rely on."""
    from collections import OrderedDict
    d = OrderedDict()
    out = []
    for op in ops:
        k = op[0]
        if k == "get":
            if op[1] in d:
                d.move_to_end(op[1]); o = [d[op[1]]]
            else:
                o = []
        elif k == "contain":
            o = op[1] in d
        elif k == "put":
            d[op[1]] = op[2]; d.move_to_end(op[1])
            while len(d) > cap:
                d.popitem(last=False)
            o = None
        else:
            d.pop(op[1], None); o = None
        out.append([o, [[a, b] for a, b in d.items()]])
    return out


def lru_histories(tier, rng):
    keys, vals = [1, 2, 3], [10, 20]
    alpha = [["get", k] for k in keys] + [["contain", k] for k in keys] + [["remove", k] for k in keys] + \
            [["put", k, v] for k in keys for v in vals]
    hs = []
    maxlen = 3 if tier == "quick" else 4
    for cap in (0, 1, 2, 3):
        for n in range(1, maxlen + 1):
            for h in itertools.product(alpha, repeat=n):
                hs.append((cap, list(h)))
    n_exh = len(hs)
    for _ in range(2000 if tier == "quick" else 20000):
        cap = rng.randint(0, 4)
        ks = list(range(1, rng.randint(2, 6)))
        h = []
        for _ in range(rng.randint(5, 40)):
            r = rng.random()
            k = rng.choice(ks)
            if r < 0.45: h.append(["put", k, rng.randint(1, 99)])
            elif r < 0.8: h.append(["get", k])
            elif r < 0.9: h.append(["contain", k])
            else: h.append(["remove", k])
        hs.append((cap, h))
    return hs, n_exh


def lru_layer(ctx, corpus):
    hs = [(c["cap"], c["ops"]) for c in corpus if c.get("kind") == "lru"]
    gen, n_exh = lru_histories(ctx.tier, random.Random(ctx.rng.getrandbits(64)))
    hs += gen
    model = drv_ok(drv_batch([{"m": "lru", "cap": cap, "ops": ops} for cap, ops in hs]))
    breaks, failing = [], []
    stats = {"hit": 0, "miss": 0, "evicting_put": 0, "replacing_put": 0}
    nontriv = set()
    for (cap, ops), m in zip(hs, model):
        r = lru_real(cap, ops)
        o = lru_oracle(cap, ops)
        ev = rp = False
        prev, prev_items = 0, []
        for op, x in zip(ops, o):
            if op[0] == "get":
                stats["hit" if x[0] else "miss"] += 1
            if op[0] == "put":
                if len(x[1]) <= prev and not any(p[0] == op[1] for p in prev_items):
                    stats["evicting_put"] += 1; ev = True
                if any(p[0] == op[1] for p in prev_items):
                    stats["replacing_put"] += 1; rp = True
            prev, prev_items = len(x[1]), x[1]
        if ev or rp:
            nontriv.add(json.dumps([cap, ops]))
        if [x[:2] for x in r] != o or any(not x[2] for x in r):
            failing.append({"kind": "lru", "cap": cap, "ops": ops})
        if [x[:2] for x in r] != m:
            breaks.append({"kind": "lru", "cap": cap, "ops": ops, "real": r, "model": m})
    return {"evaluations": len(hs), "exhaustive_histories": n_exh, "distinct_nontrivial": len(nontriv), "stats": stats,
            "failing": failing, "breaks": breaks}


def lru_violates(case):
    r = lru_real(case["cap"], case["ops"])
    return [x[:2] for x in r] != lru_oracle(case["cap"], case["ops"]) or any(not x[2] for x in r)


# =====================================================================================================
# loader layer (runs inside worker processes; one family per job)
# =====================================================================================================
class FamCtx:
    """Per-process state for one family: the Family, the measured row counts, canonical-form tables."""
    def __init__(self, fam, root):
        self.fam = fam
        self.ws = os.path.join(root, "ws_" + fam.name)
        os.makedirs(self.ws, exist_ok=True)
        probe = fam.make(self.ws, 1, 1)
        self.has_schema = probe.item_schema is not None and len(probe.item_schema) != 0
        self.nrows, self.canon = {}, {}
        self.by_canon = [dict() for _ in fam.keys]
        for ki, key in enumerate(fam.keys):
            for j in range(fam.npool):
                item = fam.build(j, key)
                with contextlib.redirect_stdout(io.StringIO()):
                    self.nrows[(ki, j)] = len(probe.flatten_item_when_saving(key, item))
                c = json.dumps(fam.canon_saved(key, item), sort_keys=True)
                self.canon[(ki, j)] = c
                if self.nrows[(ki, j)] > 0:
                    assert c not in self.by_canon[ki], f"pool values of {fam.name} not distinguishable"
                    self.by_canon[ki][c] = j

    def rows(self, ki, j):
        return [1000 * (ki + 1) + 100 * j + i for i in range(self.nrows[(ki, j)])]

    def poison(self):
        """row values the model must treat as unwritable (state flow graph: every row)."""
        if self.fam.name != "state_flow_graph":
            return []
        return [r for ki in range(len(self.fam.keys)) for j in range(self.fam.npool) for r in self.rows(ki, j)]

    def clean(self):
        for e in os.scandir(self.ws):
            if e.is_dir():
                shutil.rmtree(e.path)
            else:
                os.unlink(e.path)

    def kidx(self, x):
        for i, k in enumerate(self.fam.all_keys):
            try:
                if type(x).__name__ == type(k).__name__ or not hasattr(k, "to_tuple"):
                    if k == x:
                        return i
            except Exception:
                pass
        return "?" + type(x).__name__ + ":" + repr(x)[:40]


LOAD_ERRORS = ("FileNotFoundError", "ArrowInvalid", "ArrowIOError", "OSError")


def _bundle_ids(fc, ld):
    base = os.path.basename(ld.bundle_path_summary) + ".bundle"
    ids = []
    for e in os.scandir(os.path.dirname(ld.bundle_path_summary)):
        if e.name.startswith(base) and e.name[len(base):].isdigit():
            ids.append(int(e.name[len(base):]))
    return sorted(ids)


def _state(fc, ld, printed):
    from lian.util.data_model import DataModel
    ic = []
    for _id, d in _walk(ld.item_cache):
        ic.append([fc.kidx(_id), len(d) if isinstance(d, DataModel) else ("notfound" if isinstance(d, list) and not d else "?" + type(d).__name__)])
    bc = [int(_id) for _id, _ in _walk(ld.bundle_cache)]
    return {"ic": ic, "bc": bc, "active": [fc.kidx(k) for k in ld.active_bundle.keys()], "alen": int(ld.active_bundle_length),
            "index": [[fc.kidx(k), int(b)] for k, b in ld.item_id_to_bundle_id.items()], "bcount": int(ld.bundle_count),
            "disk": _bundle_ids(fc, ld), "dindex": os.path.exists(ld.loader_indexing_path), "log": printed}


def _spy_get(ld, key):
    """get_item_by_id(key), also reporting what get_raw_item_by_id handed to the unflattening step (needed to tell the
    `[]` of "no row in the bundle" from an item whose unflattened form happens to be an empty list)."""
    rec = {}
    orig = ld.get_raw_item_by_id
    def spy(_id):
        rec["raw"] = orig(_id)
        return rec["raw"]
    ld.get_raw_item_by_id = spy
    try:
        x = ld.get_item_by_id(key)
    finally:
        del ld.get_raw_item_by_id
    return x, rec.get("raw", x)


def _got(fc, ki, x, raw):
    """classify the result of get_item_by_id for key index ki"""
    from lian.util.data_model import DataModel
    if x is None:
        return ["none"], None
    if ki >= len(fc.fam.keys):          # a probe id: nothing was ever saved under it
        if not isinstance(raw, DataModel) and isinstance(x, list) and len(x) == 0:
            return ["notfound"], None
        return ["item", "unknown"], "probe:" + repr(x)[:80]
    if not isinstance(raw, DataModel):
        if isinstance(x, list) and len(x) == 0:
            return ["notfound"], None
        return ["item", "unknown"], "raw:" + repr(x)[:80]
    c = json.dumps(fc.fam.canon_got(fc.fam.keys[ki], x), sort_keys=True)
    if len(raw) == 0:
        zero = [j for j in range(fc.fam.npool) if fc.nrows[(ki, j)] == 0 and fc.canon[(ki, j)] == c]
        return (["item", []] if zero else ["item", "unknown"]), c
    j = fc.by_canon[ki].get(c)
    if j is None:
        return ["item", "unknown"], c
    return ["item", fc.rows(ki, j)], c


def loader_real(fc, cfg, ops):
    """Run one history on the real loader. Returns per op [output, state, canon-of-got-or-None]."""
    from lian.config import config
    fam = fc.fam
    fc.clean()
    config.MAX_ROWS = cfg["maxRows"]
    ld = fam.make(fc.ws, cfg["itemCap"], cfg["bundleCap"])
    printed = 0
    out = []
    for step, op in enumerate(ops):
        buf = io.StringIO()
        canon = None
        with contextlib.redirect_stdout(buf), contextlib.redirect_stderr(io.StringIO()):
            try:
                kind = op[0]
                if kind == "save":
                    ld.save(fam.spell(op[1], step), fam.build(op[2], fam.keys[op[1]])); o = None
                elif kind == "get":
                    o, canon = _got(fc, op[1], *_spy_get(ld, fam.spell(op[1], step)))
                elif kind == "contain":
                    o = bool(ld.contain(fam.spell(op[1], step)))
                elif kind == "export":
                    ld.export(); o = None
                elif kind == "export_indexing":
                    ld.export_indexing(); o = None
                elif kind == "remove":
                    ld.remove_unit_id(fam.spell(op[1], step)); o = "ok"
                elif kind == "restore":
                    ld = fam.make(fc.ws, cfg["itemCap"], cfg["bundleCap"]); ld.restore_indexing(); o = None
                elif kind == "reopen":
                    ld.export(); ld.export_indexing()
                    ld = fam.make(fc.ws, cfg["itemCap"], cfg["bundleCap"]); ld.restore_indexing(); o = None
                else:
                    raise ValueError(kind)
            except SystemExit:
                o = ["quit"] if op[0] == "get" else "quit"
            except Exception as e:
                name = type(e).__name__
                if op[0] == "get":
                    o = ["loaderror"] if name in LOAD_ERRORS else ["exception", name, str(e)[:120]]
                elif op[0] == "remove":
                    o = "keyerror" if name == "KeyError" else ("loaderror" if name in LOAD_ERRORS else "exception:" + name)
                else:
                    o = "exception:" + name + ":" + str(e)[:120]
        printed += len([l for l in buf.getvalue().split("\n") if l.strip()])
        try:
            st = _state(fc, ld, printed)
        except Exception as e:
            st = {"ic": [], "bc": [], "active": [], "alen": -1, "index": [], "bcount": -1, "disk": [], "dindex": False, "log": printed,
                  "state_unreadable": type(e).__name__}
            if not (isinstance(o, str) and o.startswith("exception")):
                o = "exception:state:" + type(e).__name__
        out.append([o, st, canon])
    return out, ld


def model_requests(fc, cfg, ops, variant="current"):
    mops = []
    for op in ops:
        if op[0] == "save":
            mops.append(["save", op[1], fc.rows(op[1], op[2])])
        else:
            mops.append(list(op))
    c = dict(cfg)
    c["cachesExported"] = fc.fam.exports_cached
    c["queryOk"] = True
    c["hasSchema"] = fc.has_schema
    c["poison"] = fc.poison()
    return {"m": "loader", "variant": variant, "cfg": c, "ops": mops, "states": True}


def model_view(mtrace):
    """reduce the model's per-op [out, state] to what is observed on the real side"""
    out = []
    for o, s in mtrace:
        out.append([o, {"ic": [[k, ("notfound" if v == "notfound" else len(v))] for k, v in s["ic"]], "bc": s["bc"],
                        "active": s["active"], "alen": s["alen"], "index": s["index"], "bcount": s["bcount"],
                        "disk": sorted(d[0] for d in s["disk"]), "dindex": s["dindex"] is not None, "log": s["log"]}])
    return out


def loader_oracle(fc, cfg, ops, real):
    """Independent statement of C15 over one history: a dict `key -> pool value` (latest save wins).
    Returns list of problems: (op index, what, known-finding id or None)."""
    fam = fc.fam
    spec = {}
    problems = []
    judged = True
    reopened_zero = set()
    log_seen = 0
    for i, (op, (o, st, canon)) in enumerate(zip(ops, real)):
        kind = op[0]
        new_log = st["log"] - log_seen
        log_seen = st["log"]
        if isinstance(o, str) and o.startswith("exception"):
            problems.append((i, f"{kind} raised {o}", None))
        if kind == "save":
            spec[op[1]] = op[2]
            reopened_zero.discard(op[1])
        elif kind == "remove":
            spec.pop(op[1], None)
            if o != "ok":
                problems.append((i, f"remove_unit_id -> {o}", None))
        elif kind == "restore":
            judged = False        # a bare restore may legitimately see an older index; only correspondence is checked afterwards
        elif kind == "reopen":
            for k, j in spec.items():
                if fc.nrows[(k, j)] == 0:
                    reopened_zero.add(k)
        elif kind == "contain" and judged:
            if o != (op[1] in spec):
                problems.append((i, f"contain({op[1]}) -> {o}, spec says {op[1] in spec}", None))
        elif kind == "get" and judged:
            k = op[1]
            if k not in spec:
                if o != ["none"]:
                    problems.append((i, f"get of a never-saved id -> {o}", None))
            else:
                j = spec[k]
                want = fc.canon[(k, j)]
                if o[0] in ("quit", "loaderror", "exception"):
                    kf = KF_SFG if (fam.name == "state_flow_graph" and o[0] == "loaderror") else None
                    problems.append((i, f"get({k}) -> {o}: saved item {j} is unreadable", kf))
                elif fc.nrows[(k, j)] == 0:
                    # zero-row corner (DESIGN C15_zero_rows): empty item may read as empty / [] / (after reopen) None
                    ok = o == ["notfound"] or (o[0] == "item" and canon == want) or (o == ["none"] and k in reopened_zero)
                    if not ok:
                        problems.append((i, f"get({k}) of an empty item -> {o}", None))
                elif o[0] != "item" or canon != want:
                    problems.append((i, f"get({k}) -> {o} but the latest save was pool item {j}", None))
        if new_log > 0 and kind in ("export", "reopen", "save", "remove"):
            kf = KF_SFG if fam.name == "state_flow_graph" else None
            problems.append((i, f"{kind}: DataModel.save reported {new_log} failed write(s); the bundle is not on disk", kf))
        elif new_log > 0:
            problems.append((i, f"{kind}: unexpected console report", None))
    return problems, spec, judged


def files_check(fc, cfg, spec, ld):
    """After a final export(): the files contain every saved item and a fresh loader returns it."""
    import pandas as pd
    fam = fc.fam
    problems = []
    buf = io.StringIO()
    with contextlib.redirect_stdout(buf):
        ld.export(); ld.export_indexing()
    failed = len([l for l in buf.getvalue().split("\n") if l.strip()])
    if failed:
        problems.append((-1, f"final export: DataModel.save reported {failed} failed write(s)",
                         KF_SFG if fam.name == "state_flow_graph" else None))
    index = {fc.kidx(k): int(b) for k, b in ld.item_id_to_bundle_id.items()}
    fresh = fam.make(fc.ws, cfg["itemCap"], cfg["bundleCap"])
    with contextlib.redirect_stdout(io.StringIO()), contextlib.redirect_stderr(io.StringIO()):
        fresh.restore_indexing()
    for k, j in spec.items():
        n = fc.nrows[(k, j)]
        if k not in index:
            problems.append((-1, f"saved id {k} missing from the index", None)); continue
        b = index[k]
        if n == 0:
            continue
        if b < 0:
            problems.append((-1, f"id {k} still marked active after export", None)); continue
        path = ld.get_bundle_path(b)
        try:
            df = pd.read_feather(path)
        except Exception as e:
            problems.append((-1, f"bundle file {os.path.basename(path)} unreadable ({type(e).__name__})",
                             KF_SFG if fam.name == "state_flow_graph" else None))
            continue
        with contextlib.redirect_stdout(io.StringIO()), contextlib.redirect_stderr(io.StringIO()):
            try:
                o, canon = _got(fc, k, *_spy_get(fresh, fam.spell(k, 0)))
            except SystemExit:
                o, canon = ["quit"], None
            except Exception as e:
                o, canon = ["exception", type(e).__name__], None
        if o[0] != "item" or canon != fc.canon[(k, j)]:
            problems.append((-1, f"fresh loader get({k}) -> {o}, saved pool item {j}", None))
    return problems


def gen_cfgs(tier):
    return [{"maxRows": 2, "itemCap": 1, "bundleCap": 1}, {"maxRows": 3, "itemCap": 2, "bundleCap": 1}] + \
           ([{"maxRows": 1, "itemCap": 3, "bundleCap": 2}, {"maxRows": 1000, "itemCap": 1, "bundleCap": 3}] if tier == "thorough" else [])


def loader_alphabet(fam, nk, values):
    a = [["save", k, j] for k in range(nk) for j in values] + [["get", k] for k in range(nk)] + \
        [["export"], ["export_indexing"], ["reopen"], ["contain", 0]]
    if fam.name == "callee_parameter_mapping" and fam.probe_keys:
        a += [["get", len(fam.keys)]]          # the tuple twin of the first call site
    if fam.group == "unit-level" and fam.name in ("scope_hierarchy", "gir"):
        a += [["remove", 0]]
    return a


def random_history(fam, rng):
    nk = len(fam.keys)
    n = rng.randint(5, 25)
    h = []
    removable = fam.name in ("scope_hierarchy", "gir")
    for _ in range(n):
        r = rng.random()
        k = rng.randrange(nk) if rng.random() < 0.8 else 0
        if r >= 0.40 and fam.probe_keys and rng.random() < 0.08:
            k = nk + rng.randrange(len(fam.probe_keys))          # read of an id that was never saved (twin of a saved one)
            h.append(["get", k] if rng.random() < 0.7 else ["contain", k])
            continue
        if r < 0.40: h.append(["save", k, rng.randrange(fam.npool)])
        elif r < 0.75: h.append(["get", k])
        elif r < 0.83: h.append(["export"])
        elif r < 0.87: h.append(["export_indexing"])
        elif r < 0.93: h.append(["reopen"])
        elif r < 0.95: h.append(["restore"])
        elif r < 0.98 or not removable: h.append(["contain", k])
        else: h.append(["remove", k])
    cfg = {"maxRows": rng.choice([1, 2, 3, 4, 6, 1000]), "itemCap": rng.randint(1, 3), "bundleCap": rng.randint(1, 3)}
    return cfg, h


def directed_histories(fam):
    """Deterministic histories run right after the corpus, for every family: every id of the alphabet (with the fixed pool
    item 1..4 cycling) lands in ONE bundle; then each id is read with the item cache too small to help — from the cached
    bundle, from the file after the bundle cache lost it, and from a reopened loader — interleaved with reads of the probe
    ids.  This is the shape that exposes ids which collide inside a bundle (same hash_id / key column value)."""
    nk, npr = len(fam.keys), len(fam.probe_keys)
    saves = [["save", k, 1 + (k % (fam.npool - 1))] for k in range(nk)]
    reads = [["get", k] for k in range(nk)] + [["get", nk + i] for i in range(npr)] + [["contain", nk + i] for i in range(npr)]
    big = {"maxRows": 1000, "itemCap": 1, "bundleCap": 1}
    hs = [(big, saves + [["export"]] + reads + [["reopen"]] + reads),
          (big, saves + reads + [["export"]] + list(reversed(reads))),
          # two bundles, bundle cache of one: every read alternates between files
          (big, saves[:nk // 2] + [["export"]] + saves[nk // 2:] + [["export"]] + reads + reads),
          # re-save of one id of a colliding pair after export, then read both
          (big, saves + [["export"], ["save", 0, 2], ["get", 1], ["get", 0], ["export"], ["get", 1], ["get", 0], ["reopen"], ["get", 1], ["get", 0]])]
    if fam.name in ("scope_hierarchy", "gir"):
        hs.append((big, saves + [["export"], ["remove", 0]] + reads + [["reopen"]] + reads))
    return hs


def family_job(args):
    """Worker: all histories of one family. Returns a summary dict (JSON-able)."""
    fam_name, tier, seed, root, corpus, exhaustive_len, n_random = args[:7]
    cfg_idx = args[7] if len(args) > 7 else None       # thorough: the longest exhaustive slice is split per configuration
    label = fam_name if cfg_idx is None else f"{fam_name}#cfg{cfg_idx}"
    if cfg_idx is not None:
        root = os.path.join(root, f"split{cfg_idx}")
        os.makedirs(root, exist_ok=True)
    if cfg_idx not in (None, 0):
        corpus = []
    try:
        common.use_repo()
        import c15_items
        fam = [f for f in c15_items.families() if f.name == fam_name][0]
        try:
            fc = FamCtx(fam, root)
        except AssertionError:
            raise
        except BaseException:
            # the real constructors / flatten of this family raised while the pool was being built
            return {"family": label, "setup_failed": traceback.format_exc()[-1500:]}
        rng = random.Random(f"{seed}:{fam_name}")
        cases = [(c["cfg"], c["ops"]) for c in corpus if c.get("kind") == "loader" and c.get("family") in (fam_name, "*")]
        if cfg_idx in (None, 0):
            cases += directed_histories(fam)
        n_corpus = len(cases)
        # frozen-model witnesses: on these corpus histories the model of the pinned commit must still differ from the
        # model of the current code (the witness discriminates), and the current code must pass (checked below like any case)
        wit = [(c["cfg"], c["ops"]) for c in corpus if c.get("kind") == "loader" and c.get("family") in (fam_name, "*") and c.get("pinned_differs")]
        wit_ok = 0
        if wit:
            cur = drv_ok(drv_batch([model_requests(fc, cfg, ops, "current") for cfg, ops in wit]))
            pin = drv_ok(drv_batch([model_requests(fc, cfg, ops, "pinned") for cfg, ops in wit]))
            wit_ok = sum(1 for a, b in zip(cur, pin) if [x[0] for x in a] != [x[0] for x in b])
        if exhaustive_len:
            alpha = loader_alphabet(fam, 2, [0, 1, 2])
            for ci, cfg in enumerate(gen_cfgs(tier)):
                if cfg_idx is not None and ci != cfg_idx:
                    continue
                for n in range(1, exhaustive_len + 1):
                    for h in itertools.product(alpha, repeat=n):
                        cases.append((cfg, [list(x) for x in h]))
        n_exh = len(cases) - n_corpus
        for _ in range(n_random):
            cases.append(random_history(fam, rng))
        t0 = time.time()
        model = []
        CH = 4000
        for i in range(0, len(cases), CH):
            model += drv_ok(drv_batch([model_requests(fc, cfg, ops) for cfg, ops in cases[i:i + CH]]))
        t_model = time.time() - t0
        stats = {"get_item_cache_hit": 0, "get_active": 0, "get_bundle_cache": 0, "get_disk": 0, "get_none": 0, "get_notfound": 0,
                 "auto_export": 0, "resave_after_get": 0, "reopen": 0, "restore": 0, "remove": 0, "failed_writes": 0,
                 "item_evictions": 0, "bundle_evictions": 0, "multi_bundle_histories": 0}
        failing, breaks, known = [], [], {}
        nontriv = set()
        for (cfg, ops), mt in zip(cases, model):
            real, ld = loader_real(fc, cfg, ops)
            mv = model_view(mt)
            rv = [[o, st] for o, st, _ in real]
            problems, spec, judged = loader_oracle(fc, cfg, ops, real)
            if judged and not any(p[2] is None for p in problems):
                problems += files_check(fc, cfg, spec, ld)
            # ---- statistics on the real trace (coverage of the state machine's branches)
            prev = {"ic": [], "bc": [], "disk": [], "alen": 0, "log": 0}
            got_before_resave = set()
            interesting = False
            for op, (o, st, _) in zip(ops, real):
                if op[0] == "get":
                    if any(e[0] == op[1] for e in prev["ic"]): stats["get_item_cache_hit"] += 1
                    elif o == ["none"]: stats["get_none"] += 1
                    else:
                        b = dict((k, v) for k, v in prev.get("index", [])).get(op[1])
                        if b == -1: stats["get_active"] += 1
                        elif b in prev["bc"]: stats["get_bundle_cache"] += 1
                        else: stats["get_disk"] += 1
                    if o == ["notfound"]: stats["get_notfound"] += 1
                    got_before_resave.add(op[1])
                    if len(prev["ic"]) == len(st["ic"]) == cfg["itemCap"] and [e[0] for e in prev["ic"]] != [e[0] for e in st["ic"]] \
                            and not any(e[0] == op[1] for e in prev["ic"]):
                        stats["item_evictions"] += 1
                    if len(prev["bc"]) == cfg["bundleCap"] and st["bc"] and st["bc"][-1] not in prev["bc"]:
                        stats["bundle_evictions"] += 1; interesting = True
                elif op[0] == "save":
                    if op[1] in got_before_resave:
                        stats["resave_after_get"] += 1; interesting = True
                    if len(st["disk"]) > len(prev["disk"]):
                        stats["auto_export"] += 1
                elif op[0] in ("reopen", "restore", "remove"):
                    stats[op[0]] += 1
                stats["failed_writes"] += st["log"] - prev["log"]
                prev = st
            if real and len(real[-1][1]["disk"]) > 1:
                stats["multi_bundle_histories"] += 1; interesting = True
            if interesting:
                nontriv.add(json.dumps([cfg, ops]))
            unknown = [p for p in problems if p[2] is None]
            for p in problems:
                if p[2] is not None:
                    known[p[2]] = known.get(p[2], 0) + 1
            if unknown and len(failing) < 3:
                failing.append({"kind": "loader", "family": fam_name, "cfg": cfg, "ops": ops, "problems": [list(p) for p in unknown[:4]]})
            elif unknown:
                failing.append(None)
            if rv != mv and len(breaks) < 3:
                first = next((i for i, (a, b) in enumerate(zip(rv, mv)) if a != b), None)
                breaks.append({"kind": "loader", "family": fam_name, "cfg": cfg, "ops": ops, "first_diff_op": first,
                               "real": rv[first] if first is not None else None, "model": mv[first] if first is not None else None})
            elif rv != mv:
                breaks.append(None)
        return {"family": label, "evaluations": len(cases), "corpus": n_corpus, "exhaustive": n_exh, "random": n_random,
                "distinct_nontrivial": len(nontriv), "stats": stats, "failing": [f for f in failing if f], "n_failing": len(failing),
                "breaks": [b for b in breaks if b], "n_breaks": len(breaks), "known": known,
                "wall_s": round(time.time() - t0, 1), "model_s": round(t_model, 1),
                "frozen_witnesses": len(wit), "frozen_witnesses_discriminating": wit_ok,
                "row_counts": {f"{k}:{j}": n for (k, j), n in fc.nrows.items() if k == 0}}
    except BaseException:
        return {"family": label, "error": traceback.format_exc()}


def loader_case_problems(case, root):
    """Re-run one loader history on the real code; used by shrinking and by replay."""
    common.use_repo()
    import c15_items
    fam = [f for f in c15_items.families() if f.name == case["family"]][0]
    fc = FamCtx(fam, root)
    real, ld = loader_real(fc, case["cfg"], case["ops"])
    problems, spec, judged = loader_oracle(fc, case["cfg"], case["ops"], real)
    if judged and not any(p[2] is None for p in problems):
        problems += files_check(fc, case["cfg"], spec, ld)
    return problems, real


# =====================================================================================================
# map-loader layer
# =====================================================================================================
MAP_CLASSES = ["UnitIDToMethodIDLoader", "ClassIDToFieldIDLoader", "MethodIDToParameterIDLoader", "UnitIDToVariableIDLoader"]


def map_make(cls_name, path):
    from lian.util import loader as L
    return getattr(L, cls_name)(path)


def map_real(cls_name, root, ops):
    path = os.path.join(root, "map_" + cls_name)
    if os.path.exists(path):
        os.unlink(path)
    m = map_make(cls_name, path)
    out = []
    for op in ops:
        k = op[0]
        with contextlib.redirect_stdout(io.StringIO()):
            try:
                if k == "save":
                    m.save(op[1], list(op[2])); o = None
                elif k == "one2many":
                    o = [int(x) for x in m.convert_one_to_many(op[1])]
                elif k == "many2one":
                    o = int(m.convert_many_to_one(op[1]))
                elif k == "export":
                    m.export(); o = None
                else:
                    m = map_make(cls_name, path)
                    m.restore(); o = None
            except FileNotFoundError:
                o = "filenotfound"
            except Exception as e:
                o = "exception:" + type(e).__name__
        st = {"o2m": [[int(a), [int(x) for x in b]] for a, b in m.one_to_many.items()],
              "m2o": [[int(a), int(b)] for a, b in m.many_to_one.items()]}
        out.append([o, st])
    return out


def map_oracle(ops, real):
    """forward: latest save wins (an empty list included); reverse: never names an id whose current list lacks the element,
    and is exact while no element is listed under two ids."""
    fwd = {}
    problems = []
    exported = None
    clean = True          # discipline: no element under two different ids so far
    for i, (op, (o, st)) in enumerate(zip(ops, real)):
        k = op[0]
        if isinstance(o, str) and o.startswith("exception"):
            problems.append((i, o))
        if k == "save":
            for a, bs in fwd.items():
                if a != op[1] and set(bs) & set(op[2]):
                    clean = False
            fwd[op[1]] = list(op[2])
        elif k == "one2many":
            if o != fwd.get(op[1], []):
                problems.append((i, f"one2many({op[1]}) -> {o}, latest save was {fwd.get(op[1], [])}"))
        elif k == "many2one":
            owners = [a for a, bs in fwd.items() if op[1] in bs]
            if o == -1:
                if owners and clean:
                    problems.append((i, f"many2one({op[1]}) -> -1 but it is listed under {owners}"))
            elif o not in owners:
                problems.append((i, f"many2one({op[1]}) -> {o}, whose current list does not contain it"))
        elif k == "export":
            if any(fwd.values()) or exported is not None:
                exported = {a: list(b) for a, b in fwd.items()} if fwd else exported
        elif k == "restore":
            if o == "filenotfound":
                if exported is not None:
                    problems.append((i, "restore: file missing although an export happened"))
                fwd = {}
            else:
                fwd = {a: list(b) for a, b in (exported or {}).items()}
            clean = True
            for a, bs in fwd.items():
                for a2, bs2 in fwd.items():
                    if a != a2 and set(bs) & set(bs2):
                        clean = False
    return problems


def map_histories(tier, rng):
    ones, manys = [1, 2], [[], [10], [10, 11], [11, 12]]
    alpha = [["save", a, b] for a in ones for b in manys] + [["one2many", 1], ["one2many", 2], ["many2one", 10], ["many2one", 11],
                                                              ["export"], ["restore"]]
    hs = []
    for n in range(1, (3 if tier == "quick" else 4) + 1):
        for h in itertools.product(alpha, repeat=n):
            hs.append([list(x) for x in h])
    n_exh = len(hs)
    for _ in range(1500 if tier == "quick" else 20000):
        h = []
        for _ in range(rng.randint(4, 20)):
            r = rng.random()
            if r < 0.45:
                h.append(["save", rng.randint(1, 3), rng.sample([10, 11, 12, 13], rng.randint(0, 3))])
            elif r < 0.65: h.append(["one2many", rng.randint(1, 3)])
            elif r < 0.85: h.append(["many2one", rng.choice([10, 11, 12, 13])])
            elif r < 0.93: h.append(["export"])
            else: h.append(["restore"])
        hs.append(h)
    return hs, n_exh


def map_layer(ctx, corpus, root):
    rng = random.Random(ctx.rng.getrandbits(64))
    hs = [c["ops"] for c in corpus if c.get("kind") == "maploader"]
    gen, n_exh = map_histories(ctx.tier, rng)
    hs += gen
    model = drv_ok(drv_batch([{"m": "maploader", "variant": "current", "ops": h} for h in hs]))
    wit = [c["ops"] for c in corpus if c.get("kind") == "maploader" and c.get("pinned_differs")]
    pin = drv_ok(drv_batch([{"m": "maploader", "variant": "pinned", "ops": h} for h in wit])) if wit else []
    cur = drv_ok(drv_batch([{"m": "maploader", "variant": "current", "ops": h} for h in wit])) if wit else []
    wit_ok = sum(1 for a, b in zip(cur, pin) if [x[0] for x in a] != [x[0] for x in b])
    failing, breaks = [], []
    stats = {"resave": 0, "empty_resave": 0, "restore": 0}
    nontriv = set()
    for idx, (h, mt) in enumerate(zip(hs, model)):
        cls = MAP_CLASSES[idx % len(MAP_CLASSES)]
        r = map_real(cls, root, h)
        seen = set()
        nt = False
        for op in h:
            if op[0] == "save":
                if op[1] in seen:
                    stats["resave"] += 1; nt = True
                    if not op[2]: stats["empty_resave"] += 1
                if op[2]: seen.add(op[1])
            elif op[0] == "restore":
                stats["restore"] += 1
        if nt: nontriv.add(json.dumps(h))
        if map_oracle(h, r):
            failing.append({"kind": "maploader", "cls": cls, "ops": h})
        mv = [[o, {"o2m": s["o2m"], "m2o": s["m2o"]}] for o, s in mt]
        if r != mv:
            first = next((i for i, (a, b) in enumerate(zip(r, mv)) if a != b), None)
            breaks.append({"kind": "maploader", "cls": cls, "ops": h, "first_diff_op": first, "real": r[first], "model": mv[first]})
    return {"evaluations": len(hs), "exhaustive_histories": n_exh, "distinct_nontrivial": len(nontriv), "stats": stats,
            "failing": failing, "breaks": breaks, "frozen_witnesses": len(wit), "frozen_witnesses_discriminating": wit_ok}


# =====================================================================================================
# facade: Loader.export() must reach every sub-loader
# =====================================================================================================
def facade_check(root):
    from lian.util import loader as L
    ws = os.path.join(root, "facade_ws")
    os.makedirs(ws, exist_ok=True)
    o = type("O", (), {})()
    o.workspace = ws
    ld = L.Loader(o)
    reached = set(id(x) for x in ld._all_loaders)
    missing = []
    n = 0
    for name, v in vars(ld).items():
        if hasattr(v, "export") and callable(v.export) and name != "options":
            n += 1
            if id(v) not in reached:
                missing.append(name)
    return n, sorted(missing)


# =====================================================================================================
# facade layer: histories over the real lian.util.loader.Loader (all sub-loaders behind Loader.export / Loader.restore)
# =====================================================================================================
FACADE_SUBS = [   # (family of c15_items, sub-loader attribute, public save method, public get method or None)
    ("gir", "_gir_loader", "save_unit_gir", "get_unit_gir"),
    ("scope_hierarchy", "_scope_hierarchy_loader", "save_unit_scope_hierarchy", "get_unit_scope_hierarchy"),
    ("cfg", "_cfg_loader", "save_method_cfg", "get_method_cfg"),
    ("stmt_status", "_stmt_status_p1_loader", "save_stmt_status_p1", "get_stmt_status_p1"),
    ("s2space", "_symbol_state_space_p1_loader", "save_symbol_state_space_p1", "get_symbol_state_space_p1"),
    ("callee_parameter_mapping", "_callee_parameter_mapping_p3_loader", "save_parameter_mapping_p3", "get_parameter_mapping_p3"),
    ("defined_states", "_defined_states_p1_loader", "save_method_defined_states_p1", "get_method_defined_states_p1"),
    ("class_id_to_members", "_class_id_to_members_loader", "save_class_id_to_members", None),
    ("symbol_bit_vector", "_symbol_bit_vector_manager_p1_loader", "save_symbol_bit_vector_p1", "get_symbol_bit_vector_p1"),
]
FACADE_NK = 3         # ids per sub-loader driven through the facade


class FacadeCtx:
    def __init__(self, root):
        import c15_items
        fams = {f.name: f for f in c15_items.families()}
        self.root = root
        self.ws = os.path.join(root, "facade_hist_ws")
        self.subs = []
        for fam_name, attr, sv, gt in FACADE_SUBS:
            self.subs.append((FamCtx(fams[fam_name], os.path.join(root, "facade_probe")), attr, sv, gt))

    def fresh_dirs(self):
        from lian.config import config
        shutil.rmtree(self.ws, ignore_errors=True)
        for d in (config.FRONTEND_DIR, config.SEMANTIC_P1_DIR, config.SEMANTIC_P2_DIR, config.SEMANTIC_P3_DIR):
            os.makedirs(os.path.join(self.ws, d))

    def new_loader(self):
        from lian.util import loader as L
        o = type("O", (), {})()
        o.workspace = self.ws
        return L.Loader(o)


def facade_real(fx, cfg, ops):
    """One history on the real Loader. Per op: output (as in the loader layer for sub-loader reads)."""
    from lian.config import config
    fx.fresh_dirs()
    config.MAX_ROWS = cfg["maxRows"]
    ld = fx.new_loader()
    out = []
    for step, op in enumerate(ops):
        buf = io.StringIO()
        canon = None
        with contextlib.redirect_stdout(buf), contextlib.redirect_stderr(buf):
            try:
                kind = op[0]
                if kind in ("save", "get", "remove"):
                    fc, attr, sv, gt = fx.subs[op[1]]
                    fam = fc.fam
                    key = fam.spell(op[2], step)
                if kind == "save":
                    getattr(ld, sv)(key, fam.build(op[3], fam.keys[op[2]])); o = None
                elif kind == "get":
                    sub = getattr(ld, attr)
                    rec = {}
                    orig = sub.get_raw_item_by_id
                    def spy(_id, orig=orig, rec=rec):
                        rec["raw"] = orig(_id)
                        return rec["raw"]
                    sub.get_raw_item_by_id = spy
                    try:
                        x = getattr(ld, gt)(key) if gt else sub.get_item_by_id(key)
                    finally:
                        del sub.get_raw_item_by_id
                    o, canon = _got(fc, op[2], x, rec.get("raw", x))
                elif kind == "remove":
                    getattr(ld, attr).remove_unit_id(key); o = "ok"
                elif kind == "msave":
                    ld.save_unit_id_to_method_ids(op[1], list(op[2])); o = None
                elif kind == "o2m":
                    o = [int(x) for x in ld.convert_unit_id_to_method_ids(op[1])]
                elif kind == "m2o":
                    o = int(ld.convert_method_id_to_unit_id(op[1]))
                elif kind == "export":
                    ld.export(); o = None
                elif kind == "restore":
                    ld = fx.new_loader(); ld.restore(); o = None
                else:
                    raise ValueError(kind)
            except SystemExit:
                o = ["quit"] if op[0] == "get" else "quit"
            except Exception as e:
                name = type(e).__name__
                if op[0] == "get":
                    o = ["loaderror"] if name in LOAD_ERRORS else ["exception", name, str(e)[:120]]
                else:
                    o = "exception:" + name + ":" + str(e)[:120]
        printed = [l for l in buf.getvalue().split("\n") if l.strip()]
        out.append([o, canon, printed[:3]])
    return out


def facade_oracle(fx, cfg, ops, real):
    """Independent statement of C15 at the facade: per sub-loader a dict id -> pool item (latest save wins); Loader.export()
    makes the current content durable; a fresh Loader().restore() returns what was durable at the last export."""
    spec = [dict() for _ in fx.subs]
    durable = [dict() for _ in fx.subs]
    lost_ok = [set() for _ in fx.subs]        # ids removed from an exported bundle since the last export: file already rewritten
    hollow = [set() for _ in fx.subs]         # … and then reopened without an export in between: the old index still names them;
                                              # their rows are gone if the removal hit the bundle file, still there if it only hit
                                              # the active bundle (which of the two depends on auto-exports: the Lean model decides
                                              # that exactly, the oracle accepts both)
    fwd, fwd_durable, map_exported = {}, {}, False
    problems = []
    restored = False
    for i, (op, (o, canon, printed)) in enumerate(zip(ops, real)):
        kind = op[0]
        if isinstance(o, str) and (o.startswith("exception") or o == "quit"):
            problems.append((i, f"{kind} -> {o}"))
        if printed and kind in ("export", "restore", "save"):
            problems.append((i, f"{kind}: console report {printed[0][:160]!r}"))
        if kind == "save":
            spec[op[1]][op[2]] = op[3]
            lost_ok[op[1]].discard(op[2])
            hollow[op[1]].discard(op[2])
        elif kind == "remove":
            if op[2] in durable[op[1]] and op[2] in spec[op[1]]:
                lost_ok[op[1]].add(op[2])
            spec[op[1]].pop(op[2], None)
        elif kind == "msave":
            fwd[op[1]] = list(op[2])
        elif kind == "export":
            durable = [dict(d) for d in spec]
            lost_ok = [set() for _ in fx.subs]
            if fwd:
                fwd_durable = {a: list(b) for a, b in fwd.items()}; map_exported = True
        elif kind == "restore":
            for si_, ids in enumerate(lost_ok):
                for k_ in ids:
                    hollow[si_].add(k_)
            lost_ok = [set() for _ in fx.subs]
            spec = [dict(d) for d in durable]
            fwd = {a: list(b) for a, b in fwd_durable.items()} if map_exported else {}
            restored = True
        elif kind == "o2m":
            if o != fwd.get(op[1], []):
                problems.append((i, f"unit->methods({op[1]}) -> {o}, expected {fwd.get(op[1], [])}"))
        elif kind == "m2o":
            owners = [a for a, bs in fwd.items() if op[1] in bs]
            if o != -1 and o not in owners:
                problems.append((i, f"method->unit({op[1]}) -> {o}, whose current list does not contain it"))
        elif kind == "get":
            fc = fx.subs[op[1]][0]
            k = op[2]
            name = fc.fam.name
            if k not in spec[op[1]]:
                ok = o == ["none"] or (restored and o == ["notfound"] and k in hollow[op[1]])
                if not ok:
                    problems.append((i, f"{name}: get({k}) of an id without content -> {o}"))
            else:
                j = spec[op[1]][k]
                if restored and k in hollow[op[1]] and o in (["none"], ["notfound"]):
                    continue
                if fc.nrows[(k, j)] == 0:
                    ok = o in (["notfound"], ["none"]) or (o[0] == "item" and canon == fc.canon[(k, j)])
                    if not ok:
                        problems.append((i, f"{name}: get({k}) of an empty item -> {o}"))
                elif o[0] != "item" or canon != fc.canon[(k, j)]:
                    problems.append((i, f"{name}: get({k}) -> {o} but the {'durable' if restored else 'latest'} content is pool item {j}"))
    return problems


def facade_project(ops, si):
    """the history sub-loader `si` sees: (model ops in harness format, index of the originating facade op or None)"""
    mops, origin = [], []
    for i, op in enumerate(ops):
        if op[0] in ("save", "get", "remove"):
            if op[1] != si:
                continue
            mops.append(["save", op[2], op[3]] if op[0] == "save" else [op[0], op[2]]); origin.append(i)
        elif op[0] == "export":
            mops += [["export"], ["export_indexing"]]; origin += [None, None]
        elif op[0] == "restore":
            mops.append(["restore"]); origin.append(None)
    return mops, origin


def facade_model_requests(fx, cfg, ops, caps):
    """project the facade history onto each driven GeneralLoader sub-loader and ask the Lean `loader` model"""
    reqs = []
    for si, (fc, attr, sv, gt) in enumerate(fx.subs):
        mops, _ = facade_project(ops, si)
        r = model_requests(fc, {"maxRows": cfg["maxRows"], "itemCap": caps[si][0], "bundleCap": caps[si][1]}, mops)
        r["states"] = False
        reqs.append(r)
    return reqs


def facade_model_outputs(fx, ops, replies):
    """the model's outputs for the reads and removals, in the order of the facade history"""
    res = [None] * len(ops)
    for si, rep_ in enumerate(replies):
        _, origin = facade_project(ops, si)
        for (o, _), i in zip(rep_, origin):
            if i is not None and ops[i][0] in ("get", "remove"):
                res[i] = o
    return res


def facade_directed(fx):
    hs = []
    big = {"maxRows": 1000}
    for si in range(len(fx.subs)):
        # durable content, then an EMPTY re-save (no new bundle), export again, reopen: the old content must not come back
        hs.append((big, [["save", si, 0, 1], ["save", si, 1, 2], ["export"], ["save", si, 0, 0], ["get", si, 0], ["export"],
                         ["restore"], ["get", si, 0], ["get", si, 1]]))
        # re-save with other content between two exports
        hs.append((big, [["save", si, 0, 1], ["export"], ["save", si, 0, 2], ["save", si, 2, 3], ["export"], ["restore"],
                         ["get", si, 0], ["get", si, 2], ["get", si, 1]]))
        # saved after the last export: legitimately gone after reopening
        hs.append(({"maxRows": 2}, [["save", si, 0, 1], ["export"], ["save", si, 1, 4], ["get", si, 1], ["restore"], ["get", si, 1], ["get", si, 0]]))
    for si in (0, 1):       # removal of an exported unit between exports
        hs.append((big, [["save", si, 0, 1], ["save", si, 1, 2], ["export"], ["remove", si, 0], ["get", si, 0], ["export"], ["restore"],
                         ["get", si, 0], ["get", si, 1]]))
        hs.append((big, [["save", si, 0, 1], ["export"], ["remove", si, 0], ["restore"], ["get", si, 0]]))
    hs.append((big, [["msave", 1, [10, 11]], ["export"], ["msave", 1, []], ["export"], ["restore"], ["o2m", 1], ["m2o", 10]]))
    return hs


def facade_random(fx, rng):
    ns = len(fx.subs)
    # a history concentrates on two or three sub-loaders so that re-saves of the same id are frequent
    focus = rng.sample(range(ns), rng.choice([1, 2, 3]))
    h = []
    for _ in range(rng.randint(6, 18)):
        r = rng.random()
        si = rng.choice(focus)
        k = rng.randrange(FACADE_NK) if rng.random() < 0.6 else 0
        saved = any(o[0] == "save" and o[1] == si and o[2] == k for o in h)
        if r < 0.36:
            j = 0 if (saved and rng.random() < 0.4) else rng.randrange(fx.subs[si][0].fam.npool)
            h.append(["save", si, k, j])
        elif r < 0.64: h.append(["get", si, k])
        elif r < 0.80: h.append(["export"])
        elif r < 0.88: h.append(["restore"])
        elif r < 0.91 and si in (0, 1): h.append(["remove", si, k])
        elif r < 0.95: h.append(["msave", rng.randint(1, 2), rng.sample([10, 11, 12], rng.randint(0, 2))])
        elif r < 0.975: h.append(["o2m", rng.randint(1, 2)])
        else: h.append(["m2o", rng.choice([10, 11, 12])])
    h += [["export"], ["restore"]] + [["get", si, k] for si in focus for k in range(FACADE_NK)]
    return {"maxRows": rng.choice([1000, 1000, 3])}, h


def facade_job(args):
    tier, seed, root, part, n_random = args
    try:
        common.use_repo()
        root = os.path.join(root, f"facade{part}")
        os.makedirs(root, exist_ok=True)
        fx = FacadeCtx(root)
        rng = random.Random(f"{seed}:facade:{part}")
        cases = facade_directed(fx) if part == 0 else []
        n_dir = len(cases)
        for _ in range(n_random):
            cases.append(facade_random(fx, rng))
        t0 = time.time()
        fx.fresh_dirs()
        probe = fx.new_loader()
        caps = [(getattr(probe, attr).item_cache.capacity, getattr(probe, attr).bundle_cache.capacity) for _, attr, _, _ in fx.subs]
        reqs = []
        for cfg, ops in cases:
            reqs += facade_model_requests(fx, cfg, ops, caps)
        replies = drv_ok(drv_batch(reqs))
        ns = len(fx.subs)
        failing, breaks = [], []
        stats = {"export": 0, "restore": 0, "empty_resave_of_durable_item": 0, "remove": 0, "reads_after_restore": 0}
        nontriv = set()
        for ci, (cfg, ops) in enumerate(cases):
            real = facade_real(fx, cfg, ops)
            probs = facade_oracle(fx, cfg, ops, real)
            mouts = facade_model_outputs(fx, ops, replies[ci * ns:(ci + 1) * ns])
            exported, durable_ids, restored, nt = False, set(), False, False
            cur = set()
            for op in ops:
                if op[0] == "export":
                    stats["export"] += 1; durable_ids = set(cur)
                elif op[0] == "restore":
                    stats["restore"] += 1; restored = True
                elif op[0] == "remove": stats["remove"] += 1
                elif op[0] == "save":
                    cur.add((op[1], op[2]))
                    if (op[1], op[2]) in durable_ids and op[3] == 0:
                        stats["empty_resave_of_durable_item"] += 1; nt = True
                elif op[0] == "get" and restored:
                    stats["reads_after_restore"] += 1; nt = True
            if nt:
                nontriv.add(json.dumps([cfg, ops]))
            if probs:
                failing.append({"kind": "facade-history", "cfg": cfg, "ops": ops, "problems": [list(p) for p in probs[:4]]} if len(failing) < 3 else None)
            diff = [(i, r[0], m) for i, (op, r, m) in enumerate(zip(ops, real, mouts)) if op[0] in ("get", "remove") and r[0] != m]
            if diff:
                breaks.append({"kind": "facade-history", "cfg": cfg, "ops": ops, "first_diff_op": diff[0][0], "real": diff[0][1], "model": diff[0][2]} if len(breaks) < 3 else None)
        return {"evaluations": len(cases), "directed": n_dir, "distinct_nontrivial": len(nontriv), "stats": stats,
                "failing": [f for f in failing if f], "n_failing": len(failing), "breaks": [b for b in breaks if b], "n_breaks": len(breaks),
                "wall_s": round(time.time() - t0, 1), "sub_loaders": [a for _, a, _, _ in fx.subs] + ["_unit_id_to_method_id_loader"]}
    except BaseException:
        return {"error": traceback.format_exc()}


def facade_case_problems(case, root):
    common.use_repo()
    fx = FacadeCtx(os.path.join(root, "facade_replay"))
    real = facade_real(fx, case["cfg"], case["ops"])
    return facade_oracle(fx, case["cfg"], case["ops"], real), real


# =====================================================================================================
# roundtrip layer: items of a real analysis
# =====================================================================================================
HARVEST_SRC = {
 "a.py": '''import os

class Animal:
    kind = "x"
    def __init__(self, name):
        self.name = name
        self.tags = [name, "t"]
    def speak(self, n):
        s = self.name
        for i in range(n):
            s = s + "!"
        return s

def helper(a, b=2, c=3):
    if a > b:
        return a - c
    else:
        return b + c

def main():
    d = Animal("dog")
    t = d.speak(3)
    u = helper(1)
    v = helper(u, c=5)
    w = os.getenv("HOME")
    arr = [u, v]
    arr[0] = w
    print(t, v, w, arr)

main()
''',
 "b.py": '''from a import helper

def g(x):
    y = helper(x, 4)
    while y > 0:
        y = y - 1
    return y

g(10)
''',
}


def harvest_job(args):
    """Worker: run lian in-process on HARVEST_SRC, capture every GeneralLoader.save, then round-trip each captured item
    through a fresh loader of the same class."""
    root, enable_p2 = args
    try:
        common.use_repo()
        import c15_items
        from lian.util import loader as L
        src = os.path.join(root, "harvest_in"); ws = os.path.join(root, "harvest_ws")
        os.makedirs(src, exist_ok=True)
        for n, t in HARVEST_SRC.items():
            open(os.path.join(src, n), "w").write(t)
        captured = []
        orig = L.GeneralLoader.save
        def save(self, _id, content):
            try:
                item = copy.deepcopy(content)
            except Exception:
                item = content           # e.g. state flow graphs (nodes reference GIR rows): kept by reference
            captured.append((type(self).__name__, os.path.basename(self.bundle_path_summary), self.item_schema, _id, item))
            return orig(self, _id, content)
        L.GeneralLoader.save = save
        argv = ["lian", "run", "-l", "python", "-w", ws, "-f", "-q"] + (["--enable-p2"] if enable_p2 else []) + [src]
        old = sys.argv
        sys.argv = argv
        out = io.StringIO()
        rc = None
        try:
            with contextlib.redirect_stdout(out), contextlib.redirect_stderr(out):
                from lian.main import Lian
                Lian().run()
        except SystemExit as e:
            rc = e.code
        finally:
            sys.argv = old
            L.GeneralLoader.save = orig
        console = out.getvalue()
        from lian.config import config
        config.MAX_ROWS = 10 ** 6
        fams = {f.cls: f for f in c15_items.families()}
        # several families share a class; pick by class name only for the canonical forms
        results = {"run_exit": rc, "captured": len(captured), "per_class": {}, "problems": [], "write_failures": [],
                   "console_reports": [l for l in console.split("\n") if "Could not convert" in l or "Conversion failed" in l][:5]}
        rt = os.path.join(root, "harvest_rt")
        for n, (cls, base, schema_, _id, item) in enumerate(captured):
            pc = results["per_class"].setdefault(cls + ":" + base, {"items": 0, "nonempty": 0, "compared_to_saved": 0, "ok": 0})
            pc["items"] += 1
            shutil.rmtree(rt, ignore_errors=True); os.makedirs(rt)
            o = type("O", (), {})(); o.workspace = rt
            klass = getattr(L, cls)
            mk = lambda: klass(o, schema_, os.path.join(rt, base), 1, 1)
            fam = fams.get(cls)
            canon_saved = fam.canon_saved if fam else None
            canon_got = fam.canon_got if fam else c15_items.generic_canon
            buf = io.StringIO()
            try:
                with contextlib.redirect_stdout(buf), contextlib.redirect_stderr(io.StringIO()):
                    ld = mk()
                    nrows = len(ld.flatten_item_when_saving(_id, item))
                    ld.save(_id, item)
                    a = ld.get_item_by_id(_id)
                    ca = json.dumps(canon_got(_id, a), sort_keys=True, default=str)
                    ld.export(); ld.export_indexing()
                    ld2 = mk(); ld2.restore_indexing()
                    d = ld2.get_item_by_id(_id)
                    cd = json.dumps(canon_got(_id, d), sort_keys=True, default=str)
                    cs = json.dumps(canon_saved(_id, item), sort_keys=True, default=str) if canon_saved else None
            except BaseException as e:
                sfg = cls == "StateFlowGraphLoader"
                results["problems"].append({"cls": cls, "base": base, "id": repr(_id), "what": f"{type(e).__name__}: {str(e)[:160]}",
                                            "printed": buf.getvalue()[:200], "known": KF_SFG if sfg and buf.getvalue().strip() else None})
                continue
            if nrows > 0:
                pc["nonempty"] += 1
            printed = buf.getvalue().strip()
            if printed:
                results["write_failures"].append({"cls": cls, "base": base, "id": repr(_id), "printed": printed[:200]})
            if nrows == 0:
                pc["ok"] += 1
                continue
            bad = None
            if ca != cd:
                bad = {"what": "read from the active bundle differs from read by a fresh loader from the files", "active": ca[:600], "disk": cd[:600]}
            elif cs is not None:
                pc["compared_to_saved"] += 1
                if cs != ca:
                    d = diff_leaves(json.loads(cs), json.loads(ca))
                    bad = {"what": "read differs from the saved content at " + "; ".join(
                               f"{'/'.join(map(str, p))}: saved {a!r} read {b!r}" for p, a, b in d[:3])[:400],
                           "saved": cs[:600], "got": ca[:600],
                           "known": KF_VALUE if only_state_value_stringified(cls, cs, ca) else None}
            if bad:
                bad.setdefault("known", None)
                bad.update({"cls": cls, "base": base, "id": repr(_id)})
                results["problems"].append(bad)
            else:
                pc["ok"] += 1
        # what the real run left on disk for the P3 state flow graph
        p3 = os.path.join(ws, "lian_workspace", "semantic_p3")
        sfg_saved = [c for c in captured if c[0] == "StateFlowGraphLoader" and c[1] == "state_flow_graph_p3"]
        sfg_file_ok = None
        if sfg_saved:
            import pandas as pd
            try:
                pd.read_feather(os.path.join(p3, "state_flow_graph_p3.bundle0")); sfg_file_ok = True
            except Exception:
                sfg_file_ok = False
        results["sfg_p3"] = {"saved_items": len(sfg_saved), "bundle_readable": sfg_file_ok}
        return results
    except BaseException:
        return {"error": traceback.format_exc()}


# =====================================================================================================
# orchestration
# =====================================================================================================
QUICK_PLAN = {   # family -> (exhaustive history length or 0, number of random histories)
    "symbol_name_to_scope_ids": (3, 600), "gir": (2, 600), "scope_hierarchy": (2, 500), "cfg": (2, 500),
    "state_flow_graph": (2, 300), "callee_parameter_mapping": (2, 400),
}
QUICK_DEFAULT = (0, 350)
THOROUGH_PLAN = {"symbol_name_to_scope_ids": (4, 6000), "gir": (3, 6000), "scope_hierarchy": (3, 5000), "cfg": (3, 5000)}
THOROUGH_DEFAULT = (3, 4000)


def load_corpus():
    d = os.path.join(common.VERIF, "corpus", PROP)
    out = []
    if os.path.isdir(d):
        for f in sorted(os.listdir(d)):
            if f.endswith(".json"):
                c = json.load(open(os.path.join(d, f)))
                c["_file"] = f
                out.append(c)
    return out


def shrink_loader_case(case, root):
    def fails(ops):
        if not ops:
            return False
        p, _ = loader_case_problems(dict(case, ops=ops), root)
        return any(x[2] is None for x in p)
    ops = common.shrink_list(case["ops"], fails)
    return dict(case, ops=ops)


def run(ctx):
    common.use_repo()
    proofs_ok = ctx.proofs()
    import c15_items
    root = os.path.join(common.SCRATCH_ROOT, f"lv-{os.getpid()}")
    shutil.rmtree(root, ignore_errors=True)
    os.makedirs(root)
    try:
        _run(ctx, proofs_ok, root)
    finally:
        shutil.rmtree(root, ignore_errors=True)


def fingerprints():
    """sha256 of the source of the anchored functions (recorded in the evidence; information only)."""
    import inspect
    from lian.util import loader as L, util, data_model
    out = {}
    for name, obj in [("GeneralLoader", L.GeneralLoader), ("UnitGIRLoader.export", L.UnitGIRLoader.export),
                      ("MethodLevelAnalysisResultLoader", L.MethodLevelAnalysisResultLoader), ("OneToManyMapLoader", L.OneToManyMapLoader),
                      ("LRUCache", util.LRUCache), ("DataModel.save", data_model.DataModel.save), ("Loader.init_loading", L.Loader.init_loading)]:
        try:
            out[name] = hashlib.sha256(inspect.getsource(obj).encode()).hexdigest()[:16]
        except Exception as e:
            out[name] = "unavailable: " + type(e).__name__
    return out


def _run(ctx, proofs_ok, root):
    import c15_items
    tier = ctx.tier
    corpus = load_corpus()
    fams = c15_items.families()
    plan, default = (QUICK_PLAN, QUICK_DEFAULT) if tier == "quick" else (THOROUGH_PLAN, THOROUGH_DEFAULT)
    jobs = []
    for f in fams:
        e, n = plan.get(f.name, default)
        if e >= 4:
            for ci in range(len(gen_cfgs(tier))):
                jobs.append((f.name, tier, ctx.seed, root, corpus, e, n if ci == 0 else 0, ci))
        else:
            jobs.append((f.name, tier, ctx.seed, root, corpus, e, n))
    # heavy families first so that the pool drains evenly
    jobs.sort(key=lambda j: -(j[5] * 100000 + j[6]))
    mpctx = mp.get_context("fork")
    with mpctx.Pool(min(16, len(jobs) + 2)) as pool:
        harvest_async = [pool.apply_async(harvest_job, ((os.path.join(root, "h1"), False),)),
                         pool.apply_async(harvest_job, ((os.path.join(root, "h2"), True),))]
        fplan = [(0, 45), (1, 80), (2, 80)] if tier == "quick" else [(i, 700) for i in range(6)]
        facade_async = [pool.apply_async(facade_job, ((tier, ctx.seed, root, part, n),)) for part, n in fplan]
        fam_async = pool.map_async(family_job, jobs, chunksize=1)
        lru = lru_layer(ctx, corpus)
        maps = map_layer(ctx, corpus, root)
        n_sub, facade_missing = facade_check(root)
        fam_results = fam_async.get()
        harvests = [h.get() for h in harvest_async]
        facades = [f.get() for f in facade_async]

    for r in fam_results:
        if "error" in r:
            raise RuntimeError("family job failed: " + r["family"] + "\n" + r["error"])
    setup_failed = [r for r in fam_results if "setup_failed" in r]
    fam_results = [r for r in fam_results if "setup_failed" not in r]
    for hv in harvests:
        if "error" in hv:
            raise RuntimeError("harvest job failed:\n" + hv["error"])
    for fr in facades:
        if "error" in fr:
            raise RuntimeError("facade job failed:\n" + fr["error"])
    frozen_bad = [r["family"] for r in fam_results if r["frozen_witnesses"] != r["frozen_witnesses_discriminating"]]
    if maps["frozen_witnesses"] != maps["frozen_witnesses_discriminating"]:
        frozen_bad.append("maploader")

    # ---------------------------------------------------------------- evidence
    cov = ctx.cov
    cov["evaluations"] = lru["evaluations"] + maps["evaluations"] + sum(r["evaluations"] for r in fam_results) + \
        sum(h["captured"] for h in harvests) + 1 + sum(f["evaluations"] for f in facades)
    cov["distinct_nontrivial"] = lru["distinct_nontrivial"] + maps["distinct_nontrivial"] + sum(r["distinct_nontrivial"] for r in fam_results) + \
        sum(f["distinct_nontrivial"] for f in facades)
    cov["exhaustive"] = True
    cov["rule"] = (
        "corpus first; lru: all histories of length<=%d over 15 ops x capacities 0..3 + random length 5-40; loader: per family "
        "(%d families of GeneralLoader subclasses, real constructors; id alphabet of 4 saved ids + read-only probe ids per family: ints 0, 1 (= bundle numbers), 3, a negative "
        "64-bit context id, probes 2 and -1; for the call-site keyed family call sites differing only in callee / only in call "
        "statement / only in caller, probes = the tuple twin of a saved call site, a third callee, the swapped call site; every id is "
        "handed over in rotating equal spellings (int / numpy.int64, fresh CallSite, CallSite of numpy ints); pool of 4 items + the "
        "empty item) directed histories (all ids in one bundle, each read served from bundle cache / file / reopened loader), all histories "
        "of length<=N over save x 2 ids x 3 values/get/export/export_indexing/reopen/contain(/remove_unit_id) for the families "
        "listed in loader_exhaustive_len (N=0: none), + random histories of length 5-25 with MAX_ROWS in {1,2,3,4,6,1000}, item/bundle "
        "cache capacities 1..3; maploader: all histories of length<=%d + random; roundtrip: every item saved during two real "
        "in-process analyses (default, and --enable-p2) of a 2-file Python program. non-trivial = history with a re-save after a "
        "read, a bundle-cache eviction or more than one bundle file (loader), an evicting or replacing put (lru), a re-save of an "
        "id (maploader)." % (3 if tier == "quick" else 4, len(fams), 3 if tier == "quick" else 4))
    cov["lru"] = {k: lru[k] for k in ("evaluations", "exhaustive_histories", "distinct_nontrivial", "stats")}
    cov["maploader"] = {k: maps[k] for k in ("evaluations", "exhaustive_histories", "distinct_nontrivial", "stats",
                                             "frozen_witnesses", "frozen_witnesses_discriminating")}
    keep = ("evaluations", "corpus", "exhaustive", "random", "distinct_nontrivial", "stats", "wall_s", "model_s", "row_counts",
            "n_failing", "n_breaks", "known", "frozen_witnesses", "frozen_witnesses_discriminating")
    cov["loader"] = {r["family"]: {k: r[k] for k in keep} for r in fam_results}
    cov["loader_exhaustive_len"] = {j[0]: j[5] for j in jobs}
    cov["loader_families"] = len(fams)
    cov["loader_id_alphabets"] = {f.name: {"saved": [repr(k) for k in f.keys], "probes": [repr(k) for k in f.probe_keys]}
                                  for f in fams if f.name in ("gir", "callee_parameter_mapping")}
    cov["loader_groups"] = sorted(set(f.group for f in fams))
    cov["facade"] = {"sub_loaders_with_export": n_sub, "not_reached_by_Loader.export": facade_missing}
    fstats = {}
    for f in facades:
        for k, v in f["stats"].items():
            fstats[k] = fstats.get(k, 0) + v
    cov["facade_histories"] = {"evaluations": sum(f["evaluations"] for f in facades), "directed": sum(f["directed"] for f in facades),
                               "distinct_nontrivial": sum(f["distinct_nontrivial"] for f in facades), "stats": fstats,
                               "sub_loaders_driven": facades[0]["sub_loaders"], "n_failing": sum(f["n_failing"] for f in facades),
                               "model_differences": sum(f["n_breaks"] for f in facades), "wall_s": [f["wall_s"] for f in facades],
                               "rule": "histories over the real lian.util.loader.Loader: saves through its public save_* methods into 9 "
                                       "GeneralLoader sub-loaders + the unit->method map, reads through the public get_* methods, Loader.export(), "
                                       "a fresh Loader + restore(), remove_unit_id on the unit-level sub-loaders; directed (empty re-save / re-save / "
                                       "removal between two exports, then reopen) + random; oracle: per sub-loader dict, durable = content at the "
                                       "last Loader.export(); the reads are also compared with the Lean loader model run on each sub-loader's "
                                       "projection of the history (export -> export; export_indexing, restore -> restore). non-trivial = a read "
                                       "after a restore or an empty re-save of a durable item"}
    cov["roundtrip"] = []
    for label, hv in zip(("default", "--enable-p2"), harvests):
        d = {k: hv[k] for k in ("run_exit", "captured", "per_class", "sfg_p3", "console_reports")}
        d["options"] = label
        d["problems"] = len(hv["problems"])
        cov["roundtrip"].append(d)
    cov["correspondence"] = {"lru_differences": len(lru["breaks"]), "maploader_differences": len(maps["breaks"]),
                             "loader_differences": sum(r["n_breaks"] for r in fam_results),
                             "facade_differences": sum(f["n_breaks"] for f in facades),
                             "frozen_models_not_discriminating": frozen_bad}
    cov["fingerprints"] = fingerprints()
    sample_ops = [["put", 1, 10], ["put", 2, 20], ["get", 1], ["put", 3, 30], ["get", 2]]
    cov["samples"] = [{"layer": "lru", "cap": 2, "ops": sample_ops, "real": lru_real(2, sample_ops)}]
    lc = [c for c in corpus if c.get("kind") == "loader" and c.get("family") == "*"]
    if lc:
        case = dict(lc[0], family="symbol_name_to_scope_ids")
        probs, real = loader_case_problems(case, root)
        cov["samples"].append({"layer": "loader", "family": case["family"], "cfg": case["cfg"], "ops": case["ops"],
                               "real": [[o, st] for o, st, _ in real], "problems": [list(p) for p in probs]})
    ctx.assumptions.append("RoundTrip (flatten → feather → query → unflatten is the identity on an item's content) is a hypothesis of "
                           "the Lean theorems; it is monitored per family on pool items and on the items of two real analyses, not proved")
    ctx.assumptions.append("an item that flattens to zero rows may read back as [] or (after reopening) None: treated as equal to the empty item")
    ctx.assumptions.append("ids are ints or CallSite objects (what the analyses use); plain 3-tuples as ids are not driven: "
                           "restore_indexing turns them into CallSite objects by design")

    # ---------------------------------------------------------------- verdicts
    open_ids = set(ctx.finding_ids("open"))
    concrete = []      # violations with a failing input

    def known_or_violation(fid, what, replay_):
        if fid in open_ids:
            ctx.known(fid, what)
        else:
            concrete.append(replay_)

    for r in fam_results:
        for fid, n in r["known"].items():
            known_or_violation(fid, f"family {r['family']}: {n} history step(s): export cannot write the bundle (pyarrow refuses SFGNode tuples); "
                               "DataModel.save prints the exception; the items are lost once the bundle leaves the bundle cache",
                               {"kind": "loader-summary", "family": r["family"], "what": "known finding id not open any more: " + fid})
        for f in r["failing"]:
            concrete.append(f)
    for r in setup_failed:
        concrete.append({"kind": "loader-setup", "family": r["family"],
                         "what": "building/flattening the pool items of this family raised in the real code", "traceback": r["setup_failed"]})
    for fr in facades:
        for f in fr["failing"][:2]:
            concrete.append(f)
    for f in lru["failing"][:2]:
        concrete.append(f)
    for f in maps["failing"][:2]:
        concrete.append(f)
    for name in facade_missing:
        fid = KF_FACADE if name == "_method_summary_template_instance" else None
        rp = {"kind": "facade", "what": f"Loader.export() never reaches sub-loader {name}: its items are not written", "attribute": name}
        if fid:
            known_or_violation(fid, rp["what"] + " (attribute name does not end in _loader)", rp)
        else:
            concrete.append(rp)
    for label, hv in zip(("default", "--enable-p2"), harvests):
        sfg = hv["sfg_p3"]
        if sfg["saved_items"] and sfg["bundle_readable"] is False:
            known_or_violation(KF_SFG, f"real analysis ({label}): {sfg['saved_items']} state-flow graphs saved in P3, state_flow_graph_p3.bundle0 is not a readable file",
                               {"kind": "roundtrip", "enable_p2": label != "default", "cls": "StateFlowGraphLoader",
                                "what": "state_flow_graph_p3 bundle unreadable after a real run"})
        for p in hv["problems"]:
            rp = dict(p, kind="roundtrip", enable_p2=(label != "default"))
            if p.get("known"):
                known_or_violation(p["known"], f"real-analysis item ({label}) {p['cls']} id={p['id']}: {p['what']}", rp)
            else:
                concrete.append(rp)
        for w in hv["write_failures"]:
            rp = dict(w, kind="roundtrip", enable_p2=(label != "default"))
            if w["cls"] == "StateFlowGraphLoader":
                known_or_violation(KF_SFG, f"real-analysis item ({label}) {w['cls']} id={w['id']}: write refused: {w['printed'][:100]}", rp)
            else:
                concrete.append(dict(rp, what="write of a harvested item failed (printed, not raised)"))

    reported = 0
    for c in concrete:
        if reported >= 4:
            break
        c = dict(c)
        if c.get("kind") == "loader" and "ops" in c:
            c = shrink_loader_case(c, root)
            probs, real = loader_case_problems(c, root)
            c["problems"] = [list(p) for p in probs]
            c["real"] = [[o, st] for o, st, _ in real]
            c["what"] = "real loader violates C15: " + "; ".join(p[1] for p in probs if p[2] is None)[:300]
        elif c.get("kind") == "facade-history":
            c["ops"] = common.shrink_list(c["ops"], lambda ops: bool(ops) and bool(facade_case_problems(dict(c, ops=ops), root)[0]))
            probs, real = facade_case_problems(c, root)
            c["problems"] = [list(p) for p in probs]
            c["real"] = [r[0] for r in real]
            c["sub_loaders"] = [a for _, a, _, _ in FACADE_SUBS]
            c["what"] = "real Loader (facade) violates C15: " + "; ".join(p[1] for p in probs)[:300]
        elif c.get("kind") == "lru":
            c["ops"] = common.shrink_list(c["ops"], lambda ops: bool(ops) and lru_violates(dict(c, ops=ops)))
            c["what"] = "real LRUCache disagrees with the textbook LRU"
            c["real"] = lru_real(c["cap"], c["ops"]); c["spec"] = lru_oracle(c["cap"], c["ops"])
        elif c.get("kind") == "maploader":
            c["ops"] = common.shrink_list(c["ops"], lambda ops: bool(ops) and bool(map_oracle(ops, map_real(c["cls"], root, ops))))
            r = map_real(c["cls"], root, c["ops"])
            c["real"] = r; c["problems"] = map_oracle(c["ops"], r)
            c["what"] = "real OneToManyMapLoader violates C15: " + "; ".join(p[1] for p in c["problems"])[:300]
        ctx.violation(c)
        reported += 1
    cov["violating_inputs_found"] = len(concrete)

    n_breaks = len(lru["breaks"]) + len(maps["breaks"]) + sum(r["n_breaks"] for r in fam_results) + sum(f["n_breaks"] for f in facades)
    if not concrete and (n_breaks or not proofs_ok or frozen_bad):
        first = (lru["breaks"] + maps["breaks"] + [b for r in fam_results for b in r["breaks"]] + [b for f in facades for b in f["breaks"]] + [None])[0]
        ctx.violation({"kind": "no-input",
                       "what": "proof obligation or correspondence broken; the oracles found no history violating C15 in this run",
                       "broken_theorems": ctx.audit["failures"], "correspondence_differences": n_breaks,
                       "frozen_models_not_discriminating": frozen_bad, "first_difference": first},
                      no_input=True)


def replay(rp):
    common.use_repo()
    root = os.path.join(common.SCRATCH_ROOT, f"lv-{os.getpid()}")
    shutil.rmtree(root, ignore_errors=True)
    os.makedirs(root)
    try:
        kind = rp.get("kind")
        if kind == "loader":
            probs, real = loader_case_problems(rp, root)
            bad = [p for p in probs if p[2] is None]
            print(json.dumps({"problems": [list(p) for p in probs]}))
            return 1 if bad else 0
        if kind == "lru":
            v = lru_violates(rp)
            print(json.dumps({"real": lru_real(rp["cap"], rp["ops"]), "spec": lru_oracle(rp["cap"], rp["ops"]), "violates": v}))
            return 1 if v else 0
        if kind == "maploader":
            r = map_real(rp["cls"], root, rp["ops"])
            p = map_oracle(rp["ops"], r)
            print(json.dumps({"real": r, "problems": p}))
            return 1 if p else 0
        if kind == "loader-setup":
            import c15_items
            fam = [f for f in c15_items.families() if f.name == rp["family"]][0]
            try:
                FamCtx(fam, root)
                print(json.dumps({"setup": "ok"})); return 0
            except BaseException as e:
                print(json.dumps({"setup": "raised", "error": type(e).__name__})); return 1
        if kind == "facade-history":
            probs, real = facade_case_problems(rp, root)
            print(json.dumps({"problems": [list(p) for p in probs], "real": [r[0] for r in real]}))
            return 1 if probs else 0
        if kind == "facade":
            n, missing = facade_check(root)
            print(json.dumps({"missing": missing}))
            return 1 if rp.get("attribute") in missing else 0
        if kind == "roundtrip":
            h = harvest_job((root, bool(rp.get("enable_p2"))))
            bad = [p for p in h.get("problems", []) if p.get("cls") == rp.get("cls") and not p.get("known")]
            print(json.dumps({"problems": bad[:3], "sfg_p3": h.get("sfg_p3")}, default=str))
            return 1 if bad else 0
        print("replay: nothing to re-execute for this file (no failing input was found)")
        return 0
    finally:
        shutil.rmtree(root, ignore_errors=True)
