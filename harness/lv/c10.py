"""C10 — taint analysis reports every explicit source-to-sink flow.
See taint_common.py (shared with C11) for the machinery; NOTES-C10C11.md for what is proved and what is monitored."""
import atexit, shutil
import common, taint_common


def run(ctx):
    atexit.register(lambda: shutil.rmtree(taint_common.scratch_dir(), ignore_errors=True))
    taint_common.run_check(ctx, "C10")


def replay(rp):
    return taint_common.replay_check(rp, "C10")
