"""Regenerates /verif/MANIFEST.json from the table below. Run after adding/removing a check."""
import json, os
VERIF = os.path.dirname(os.path.dirname(os.path.dirname(os.path.abspath(__file__))))
ALL = ["C%02d" % i for i in range(1, 21)]

CHECKS = {}
_md = os.path.join(os.path.dirname(os.path.abspath(__file__)), "manifest")
for _f in sorted(os.listdir(_md)):
    if _f.endswith(".json"):
        CHECKS[_f[:-5]] = json.load(open(os.path.join(_md, _f)))

NOT_YET = "check not built yet in this round (see DESIGN.md §10 implementation order); no claim is made"

def main():
    m = {
      "version": 1,
      "setup_cmd": "cd lean && lake build LianVerif lvdrv",
      "hooks": {"guard": "LIAN_VERIF", "enable": "no hooks: the harness imports /repo/src in-process and wraps methods from its own side",
                "baseline_off_cmd": "cd /repo && /venv/bin/python -m pytest -ra -q -p no:cacheprovider --timeout=900 --continue-on-collection-errors",
                "source_commits": [], "add_only": True},
      "engines": [
        {"name": "lean-proofs", "path": "lean/", "serves_properties": sorted(CHECKS), "kind_free_text": "Lake library LianVerif: models, specs, proofs, property theorems; audited with #print axioms + forbidden-token grep on every run"},
        {"name": "lvdrv", "path": "lean/Driver.lean", "serves_properties": sorted(CHECKS), "kind_free_text": "compiled Lean executable evaluating the model definitions on a JSON line protocol"},
        {"name": "harness", "path": "harness/lv/", "serves_properties": sorted(CHECKS), "kind_free_text": "Python: generators, real-code runners (import lian from /repo/src), canonicalisers, diff, oracles, shrinking, evidence"},
      ],
      "checks": [], "not_applicable": [],
      "notes": "Entry point ./check <ID> <quick|thorough>; ./check --replay <file>. Known findings in known_findings.json (never written at run time).",
    }
    for pid in ALL:
        if pid in CHECKS:
            c = CHECKS[pid]
            m["checks"].append({
              "property_id": pid, "quick_cmd": f"./check {pid} quick", "thorough_cmd": f"./check {pid} thorough",
              "evidence_file": f"evidence/{pid}.json", "replay_cmd_template": "./check --replay {path}",
              "engine": c["engine"],
              "level_claimed": {"category": c["category"], "text": c["text"], "design_ref": c["design_ref"]},
              "level_note": c["note"], "technique": c["technique"]})
        else:
            m["not_applicable"].append({"property_id": pid, "reason": NOT_YET})
    json.dump(m, open(os.path.join(VERIF, "MANIFEST.json"), "w"), indent=1)
    print("checks:", [c["property_id"] for c in m["checks"]])

if __name__ == "__main__":
    main()
