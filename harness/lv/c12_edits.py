"""C12 — meaning-preserving edits as concrete, replayable text operations.

A project is {"files": {relpath: text}}.  An edit is a JSON-able dict; four primitive kinds:

  {"kind":"insert", "flavour":"blank"|"comment"|"noop", "file":rel, "at":L, "lines":[text…]}
        insert the lines before (1-based) line L of `file`; lines >= L move down by len(lines)
  {"kind":"append", "flavour":"comment", "file":rel, "line":L, "text":t}
        append the text (a trailing comment) to line L; no line moves
  {"kind":"rename", "what":"local"|"function"|"class"|"param", "old":a, "new":b,
   "occ":[[rel, line, col]…]}
        replace the identifier `a` starting at (line, 0-based col) by `b` at every listed occurrence
  {"kind":"swap", "file":rel, "a":[s1,e1], "b":[s2,e2]}
        two adjacent line ranges (e1+1 == s2) exchange their places
  {"kind":"move", "file":rel, "range":[s,e], "newfile":rel2, "name":f, "import":[text…], "header":[text…],
   "footer":[text…]}
        lines s..e of `file` become (between the `header` and `footer` lines) the contents of the new file
        `newfile`; in `file` they are replaced by the `import` lines

`apply_edit` is language independent; so is `EditMap`, the map the edit induces on observations:
(file, line) -> (file, line) and (file, line, name) -> name.  Only the search for *valid* edits
(`candidates_*`) knows the language: Python uses ast / symtable / tokenize, JavaScript and Java use
the conservative line-shape rules stated at `candidates_braces`.
"""
import ast, io, keyword, re, symtable, tokenize


# ====================================================================================== generic part

def split_lines(text):
    """lines without terminators; a trailing newline does not create an extra empty line"""
    ls = text.split("\n")
    if ls and ls[-1] == "":
        ls.pop()
    return ls


def join_lines(ls):
    return "\n".join(ls) + ("\n" if ls else "")


def apply_edit(proj, e):
    files = dict(proj["files"])
    k = e["kind"]
    if k == "insert":
        ls = split_lines(files[e["file"]])
        at = e["at"]
        assert 1 <= at <= len(ls) + 1
        files[e["file"]] = join_lines(ls[:at - 1] + list(e["lines"]) + ls[at - 1:])
    elif k == "append":
        ls = split_lines(files[e["file"]])
        ls[e["line"] - 1] = ls[e["line"] - 1] + e["text"]
        files[e["file"]] = join_lines(ls)
    elif k == "rename":
        by_file = {}
        for rel, line, col in e["occ"]:
            by_file.setdefault(rel, []).append((line, col))
        for rel, occ in by_file.items():
            ls = split_lines(files[rel])
            for line, col in sorted(occ, reverse=True):        # right to left: columns stay valid
                s = ls[line - 1]
                assert s[col:col + len(e["old"])] == e["old"], (rel, line, col, s)
                ls[line - 1] = s[:col] + e["new"] + s[col + len(e["old"]):]
            files[rel] = join_lines(ls)
    elif k == "swap":
        ls = split_lines(files[e["file"]])
        (s1, e1), (s2, e2) = e["a"], e["b"]
        assert e1 + 1 == s2
        files[e["file"]] = join_lines(ls[:s1 - 1] + ls[s2 - 1:e2] + ls[s1 - 1:e1] + ls[e2:])
    elif k == "move":
        ls = split_lines(files[e["file"]])
        s, t = e["range"]
        assert e["newfile"] not in files
        files[e["newfile"]] = join_lines(list(e.get("header", [])) + ls[s - 1:t] + list(e.get("footer", [])))
        files[e["file"]] = join_lines(ls[:s - 1] + list(e["import"]) + ls[t:])
    else:
        raise ValueError("unknown edit kind " + str(k))
    return {"files": files}


class EditMap:
    """what one edit does to observations of the program BEFORE the edit"""

    def __init__(self, e):
        self.e = e
        self.k = e["kind"]
        if self.k == "rename":
            self.lines = {}
            for rel, line, _ in e["occ"]:
                self.lines.setdefault(rel, set()).add(line)

    def pos(self, rel, line):
        e = self.e
        if line is None:
            return rel, line
        if self.k == "insert":
            if rel == e["file"] and line >= e["at"]:
                return rel, line + len(e["lines"])
        elif self.k == "swap":
            if rel == e["file"]:
                (s1, e1), (s2, e2) = e["a"], e["b"]
                if s1 <= line <= e1:
                    return rel, line + (e2 - s2 + 1)
                if s2 <= line <= e2:
                    return rel, line - (e1 - s1 + 1)
        elif self.k == "move":
            if rel == e["file"]:
                s, t = e["range"]
                if s <= line <= t:
                    return e["newfile"], line - s + 1 + len(e.get("header", []))
                if line > t:
                    return rel, line - (t - s + 1) + len(e["import"])
        return rel, line

    def name(self, rel, line, name):
        if self.k == "rename" and name == self.e["old"] and line in self.lines.get(rel, ()):
            return self.e["new"]
        return name

    def added(self):
        """(file, line) positions of the edited program that hold inserted text"""
        e = self.e
        if self.k == "insert":
            return {(e["file"], e["at"] + i) for i in range(len(e["lines"]))}
        if self.k == "move":
            s = e["range"][0]
            return {(e["file"], s + i) for i in range(len(e["import"]))} | \
                   {(e["newfile"], 1 + i) for i in range(len(e.get("header", [])))} | \
                   {(e["newfile"], len(e.get("header", [])) + (e["range"][1] - s + 1) + 1 + i)
                    for i in range(len(e.get("footer", [])))}
        return set()


# ====================================================================================== Python

RESERVED = set(keyword.kwlist) | {"self", "cls", "print", "len", "range", "str", "int", "list", "dict", "set", "object",
                                 "True", "False", "None", "super", "isinstance", "type", "open", "Exception"}


def py_parse(text):
    try:
        return ast.parse(text)
    except (SyntaxError, ValueError, RecursionError):
        return None


def _stmt_first_line(node):
    ln = node.lineno
    for d in getattr(node, "decorator_list", []) or []:
        ln = min(ln, d.lineno)
    return ln


def _is_docstring(node):
    return isinstance(node, ast.Expr) and isinstance(node.value, ast.Constant) and isinstance(node.value.value, str)


def py_stmt_sites(text):
    """[(first line, indent text, is_first_of_body_docstring_or_future)] for every statement that starts its line"""
    tree = py_parse(text)
    if tree is None:
        return []
    ls = split_lines(text)
    sites = []
    for parent in ast.walk(tree):
        for fld in ("body", "orelse", "finalbody", "handlers"):
            body = getattr(parent, fld, None)
            if not isinstance(body, list):
                continue
            for i, st in enumerate(body):
                if not isinstance(st, (ast.stmt, ast.ExceptHandler)) or isinstance(st, ast.ExceptHandler):
                    continue
                ln = _stmt_first_line(st)
                col = min([st.col_offset] + [d.col_offset - 1 for d in getattr(st, "decorator_list", []) or []])
                if ln - 1 >= len(ls) or ls[ln - 1][:col].strip() != "":
                    continue            # statement after `;` or on the header line (`if c: x = 1`)
                special = (i == 0 and fld == "body" and _is_docstring(st)) or \
                          (isinstance(st, ast.ImportFrom) and st.module == "__future__")
                sites.append((ln, ls[ln - 1][:col], special))
    return sorted(set(sites))


def py_logical_line_ends(text):
    """physical lines on which a logical line ends (a trailing comment may be appended there)"""
    out = []
    try:
        for tok in tokenize.generate_tokens(io.StringIO(text).readline):
            if tok.type == tokenize.NEWLINE:
                out.append(tok.start[0])
    except (tokenize.TokenError, IndentationError, SyntaxError):
        return []
    return out


COMMENT_WORDS = ["note", "TODO check", "see docs", "x = 1", "def f(): pass", "import os", "sink(tp)", "'quoted'"]


def candidates_py_insert(text, rel, rng, flavour, dotted=()):
    """one random insertion of `flavour` into a Python file, or None"""
    sites = py_stmt_sites(text)
    n = len(split_lines(text))
    if flavour in ("blank", "comment"):
        opts = [(ln, ind) for ln, ind, _ in sites]
        if py_parse(text) is not None:
            opts.append((n + 1, ""))
        if not opts:
            return None
        ln, ind = rng.choice(opts)
        k = rng.choice([1, 1, 2, 3])
        words = list(COMMENT_WORDS) + ["about " + d for d in dotted]
        if flavour == "blank":
            lines = [rng.choice(["", "", ind, "    "]) for _ in range(k)]
        elif rng.random() < 0.35:
            ends = py_logical_line_ends(text)
            if ends:
                return {"kind": "append", "flavour": "comment", "file": rel, "line": rng.choice(ends),
                        "text": "  # " + rng.choice(words)}
            lines = [ind + "# " + rng.choice(words)]
        else:
            # a comment may sit at ANY indentation (the tokenizer ignores comment-only lines)
            lines = [rng.choice([ind, ind, "", ind + "    "]) + "# " + rng.choice(words) for _ in range(k)]
        return {"kind": "insert", "flavour": flavour, "file": rel, "at": ln, "lines": lines}
    # no-op statement: `pass`, never in front of a docstring / __future__ import, never at a place
    # where it would become the body's docstring position
    has_future = any(sp and "__future__" in split_lines(text)[ln - 1] for ln, _, sp in sites)
    opts = [(ln, ind) for ln, ind, sp in sites if not sp and not has_future]
    if not opts:
        return None
    ln, ind = rng.choice(opts)
    return {"kind": "insert", "flavour": "noop", "file": rel, "at": ln, "lines": [ind + "pass"]}


def _ident_tokens(text):
    """[(line, col, name)] of every NAME token (tokenize: exact, skips strings and comments)"""
    out = []
    try:
        for tok in tokenize.generate_tokens(io.StringIO(text).readline):
            if tok.type == tokenize.NAME:
                out.append((tok.start[0], tok.start[1], tok.string))
    except (tokenize.TokenError, IndentationError, SyntaxError):
        return None
    return out


class _Scopes(ast.NodeVisitor):
    """For every identifier occurrence that ast exposes with a position (Name, arg, def/class header, global/nonlocal
    are NOT position-exposed and make a function ineligible) record the scope chain it is evaluated in."""

    def __init__(self):
        self.occ = []            # (line, col, name, scope_path tuple, ctx)
        self.path = ("<module>",)
        self.bad_scopes = set()  # scopes using global/nonlocal/star-import/exec-like features
        self.kinds = {}          # scope path -> "module" | "function" | "class"
        self.kinds[self.path] = "module"
        self.attr_names = set()
        self.kw_names = set()
        self.str_consts = []

    def _enter(self, node, kind, name):
        old = self.path
        self.path = old + ("%s@%d:%d" % (name, node.lineno, node.col_offset),)
        self.kinds[self.path] = kind
        return old

    def visit_FunctionDef(self, node):
        for d in node.decorator_list:
            self.visit(d)
        for a in node.args.defaults + [x for x in node.args.kw_defaults if x is not None]:
            self.visit(a)
        for a in node.args.posonlyargs + node.args.args + node.args.kwonlyargs + \
                [x for x in (node.args.vararg, node.args.kwarg) if x]:
            if a.annotation is not None:
                self.visit(a.annotation)
        if node.returns is not None:
            self.visit(node.returns)
        old = self._enter(node, "function", node.name)
        for a in node.args.posonlyargs + node.args.args + node.args.kwonlyargs + \
                [x for x in (node.args.vararg, node.args.kwarg) if x]:
            self.occ.append((a.lineno, a.col_offset, a.arg, self.path, "param"))
        for st in node.body:
            self.visit(st)
        self.path = old

    visit_AsyncFunctionDef = visit_FunctionDef

    def visit_Lambda(self, node):
        old = self._enter(node, "function", "<lambda>")
        self.bad_scopes.add(self.path)
        self.generic_visit(node)
        self.path = old

    def visit_ClassDef(self, node):
        for d in node.decorator_list + node.bases + [k.value for k in node.keywords]:
            self.visit(d)
        old = self._enter(node, "class", node.name)
        for st in node.body:
            self.visit(st)
        self.path = old

    def _comp(self, node):
        old = self._enter(node, "function", "<comp>")
        self.bad_scopes.add(self.path)
        self.bad_scopes.add(old)
        self.generic_visit(node)
        self.path = old

    visit_ListComp = visit_SetComp = visit_DictComp = visit_GeneratorExp = _comp

    def visit_Global(self, node):
        self.bad_scopes.add(self.path)

    visit_Nonlocal = visit_Global

    def visit_Name(self, node):
        self.occ.append((node.lineno, node.col_offset, node.id, self.path,
                         "store" if isinstance(node.ctx, (ast.Store, ast.Del)) else "load"))

    def visit_Attribute(self, node):
        self.attr_names.add(node.attr)
        self.generic_visit(node)

    def visit_keyword(self, node):
        if node.arg:
            self.kw_names.add(node.arg)
        self.generic_visit(node)

    def visit_Constant(self, node):
        if isinstance(node.value, str):
            self.str_consts.append(node.value)

    def visit_ExceptHandler(self, node):
        if node.name:
            self.bad_scopes.add(self.path)        # `except E as n`: position of n is not exposed
        self.generic_visit(node)

    def visit_Import(self, node):
        self.bad_scopes.add(self.path) if any(a.asname is None and "." in a.name for a in node.names) else None

    def visit_ImportFrom(self, node):
        if any(a.name == "*" for a in node.names):
            self.bad_scopes.add(self.path)

    def visit_MatchAs(self, node):
        self.bad_scopes.add(self.path)
        self.generic_visit(node)

    visit_MatchStar = visit_MatchMapping = visit_MatchAs


def py_scopes(text):
    tree = py_parse(text)
    if tree is None:
        return None
    sc = _Scopes()
    sc.visit(tree)
    sc.tree = tree
    return sc


def fresh_name(rng, taken, stem):
    for _ in range(50):
        n = stem + rng.choice(["_r", "_new", "Z", "_x9", "2", "_renamed"]) + rng.choice(["", "", "q", "7"])
        if n not in taken and n not in RESERVED:
            return n
    return None


def candidates_py_rename_local(text, rel, rng, keep):
    """rename one local variable or parameter of one function (all its occurrences in that function scope; the
    function must not contain nested scopes that mention the name, nor global/nonlocal/comprehensions/lambdas).
    `keep` = names that must stay (taint rules, entry rules)."""
    sc = py_scopes(text)
    toks = _ident_tokens(text)
    if sc is None or toks is None:
        return None
    all_names = {n for _, _, n in toks} | sc.attr_names | sc.kw_names
    by_scope = {}
    for line, col, name, path, ctx in sc.occ:
        by_scope.setdefault(path, []).append((line, col, name, ctx))
    opts = []
    for path, occ in by_scope.items():
        if sc.kinds[path] != "function" or path in sc.bad_scopes:
            continue
        if any(p[:len(path)] == path and p != path and p in sc.bad_scopes for p in sc.kinds):
            continue
        bound = {n for _, _, n, c in occ if c in ("store", "param")}
        for n in sorted(bound):
            if n in keep or n in RESERVED or n.startswith("__"):
                continue
            # no nested scope may mention the name (closure capture / shadowing: keep the edit simple and exact)
            if any(p[:len(path)] == path and p != path and any(x[2] == n for x in by_scope.get(p, [])) for p in sc.kinds):
                continue
            # a parameter may be passed by keyword from elsewhere: only rename parameters nobody names as keyword
            is_param = any(c == "param" for _, _, m, c in occ if m == n)
            if is_param and n in sc.kw_names:
                continue
            mine = [(l, c) for l, c, m, _ in occ if m == n]
            # every NAME token `n` on the touched lines must be one of ours (else the line-level name map is ambiguous)
            lines = {l for l, _ in mine}
            others = [(l, c) for l, c, m in toks if m == n and l in lines and (l, c) not in mine]
            if others:
                continue
            opts.append((n, mine, is_param))
    if not opts:
        return None
    n, mine, is_param = rng.choice(opts)
    new = fresh_name(rng, all_names | set(keep), n)
    if new is None:
        return None
    return {"kind": "rename", "what": "param" if is_param else "local", "old": n, "new": new,
            "occ": [[rel, l, c] for l, c in sorted(mine)]}


def py_toplevel_defs(text):
    """[(name, kind, first line, last line, node)] of module-level def/class statements"""
    tree = py_parse(text)
    if tree is None:
        return []
    out = []
    for st in tree.body:
        if isinstance(st, (ast.FunctionDef, ast.AsyncFunctionDef, ast.ClassDef)):
            out.append((st.name, "class" if isinstance(st, ast.ClassDef) else "function",
                        _stmt_first_line(st), st.end_lineno, st))
    return out


def candidates_py_rename_global(proj, rel, rng, keep):
    """rename one module-level function or class of `rel` everywhere: in `rel` (every NAME token of that spelling must
    resolve to the module-level binding: no parameter/local/attribute/keyword of the same spelling anywhere in the
    project) and in `from <module> import name` lines + uses in the other Python files."""
    text = proj["files"][rel]
    defs = py_toplevel_defs(text)
    if not defs:
        return None
    mod = rel[:-3].replace("/", ".")
    base = mod.split(".")[-1]
    info = {}
    for r, t in proj["files"].items():
        if r.endswith(".py"):
            sc, toks = py_scopes(t), _ident_tokens(t)
            if sc is None or toks is None:
                return None
            info[r] = (sc, toks)
    all_names = set()
    for sc, toks in info.values():
        all_names |= {n for _, _, n in toks} | sc.attr_names | sc.kw_names
    opts = []
    for name, kind, s, e, node in defs:
        if name in keep or name in RESERVED or name.startswith("__"):
            continue
        if sum(1 for d in defs if d[0] == name) != 1:
            continue
        ok = True
        occ = []
        for r, (sc, toks) in info.items():
            if name in sc.attr_names or name in sc.kw_names or any(name in s_ for s_ in sc.str_consts):
                ok = False
                break
            tk = [(l, c) for l, c, m in toks if m == name]
            if not tk:
                continue
            # any binding occurrence of the spelling other than the def itself / an import of it disqualifies
            for l, c, m, path, ctx in sc.occ:
                if m == name and ctx in ("store", "param"):
                    ok = False
            if r != rel:
                # the other file must get the name through `from <mod> import name` (no alias)
                tr = sc.tree
                imported = False
                for st in ast.walk(tr):
                    if isinstance(st, ast.ImportFrom) and st.module and st.module.split(".")[-1] == base:
                        for a in st.names:
                            if a.name == name and a.asname is None:
                                imported = True
                            elif a.name == name:
                                ok = False
                    if isinstance(st, (ast.FunctionDef, ast.ClassDef, ast.AsyncFunctionDef)) and st.name == name:
                        ok = False
                if not imported:
                    ok = False
            occ += [[r, l, c] for l, c in tk]
        if ok and occ:
            opts.append((name, kind, occ))
    if not opts:
        return None
    name, kind, occ = rng.choice(opts)
    new = fresh_name(rng, all_names | set(keep), name)
    if new is None:
        return None
    return {"kind": "rename", "what": kind, "old": name, "new": new, "occ": sorted(occ)}


def _names_in(node):
    return {n.id for n in ast.walk(node) if isinstance(n, ast.Name)}


def _immediate_names(node):
    """names evaluated when the def/class statement itself executes"""
    out = set()
    for d in node.decorator_list:
        out |= _names_in(d)
    if isinstance(node, ast.ClassDef):
        for b in node.bases + [k.value for k in node.keywords]:
            out |= _names_in(b)
        for st in node.body:
            if isinstance(st, (ast.FunctionDef, ast.AsyncFunctionDef, ast.ClassDef)):
                out |= _immediate_names(st)
            else:
                out |= _names_in(st)
    else:
        for a in node.args.defaults + [x for x in node.args.kw_defaults if x is not None]:
            out |= _names_in(a)
        for a in node.args.posonlyargs + node.args.args + node.args.kwonlyargs:
            if a.annotation is not None:
                out |= _names_in(a.annotation)
        if node.returns is not None:
            out |= _names_in(node.returns)
    return out


def candidates_py_swap(text, rel, rng):
    """exchange two ADJACENT module-level def/class statements with different names, neither of which is mentioned in
    what the other evaluates at definition time; blank/comment lines between them travel with the first one"""
    tree = py_parse(text)
    if tree is None:
        return None
    body = tree.body
    names = [getattr(st, "name", None) for st in body]
    opts = []
    for i in range(len(body) - 1):
        a, b = body[i], body[i + 1]
        if not all(isinstance(x, (ast.FunctionDef, ast.AsyncFunctionDef, ast.ClassDef)) for x in (a, b)):
            continue
        if a.name == b.name or names.count(a.name) != 1 or names.count(b.name) != 1:
            continue
        if a.name in _immediate_names(b) or b.name in _immediate_names(a):
            continue
        s1, s2 = _stmt_first_line(a), _stmt_first_line(b)
        e1, e2 = s2 - 1, b.end_lineno
        ed = {"kind": "swap", "file": rel, "a": [s1, e1], "b": [s2, e2], "names": [a.name, b.name]}
        # pairs in which one definition mentions the other AT CALL TIME (a function body that calls / subclasses /
        # instantiates the other definition) are the ones whose order an analyser may wrongly care about
        late = a.name in _names_in(b) or b.name in _names_in(a)
        ed["call_time_dependency"] = bool(late)
        opts += [ed] * (5 if late else 1)
    return dict(rng.choice(opts)) if opts else None


BUILTIN_OK = {"len", "range", "str", "int", "print", "list", "dict", "set", "isinstance", "Exception", "True", "False",
              "None", "object", "super", "type", "min", "max", "sum", "abs", "sorted", "enumerate", "zip", "open"}


def candidates_py_move(proj, rel, rng, keep, externals):
    """move one module-level FUNCTION of `rel` that mentions no other module-level binding of `rel` (free names must be
    builtins or the undefined externals the taint rules talk about) into a new sibling module and import it back at
    the same place"""
    text = proj["files"][rel]
    tree = py_parse(text)
    if tree is None:
        return None
    module_bound = set()
    for st in ast.walk(tree):
        if isinstance(st, (ast.FunctionDef, ast.AsyncFunctionDef, ast.ClassDef)):
            module_bound.add(st.name)
        elif isinstance(st, ast.Import):
            module_bound |= {(a.asname or a.name).split(".")[0] for a in st.names}
        elif isinstance(st, ast.ImportFrom):
            module_bound |= {a.asname or a.name for a in st.names}
    for st in tree.body:
        for n in ast.walk(st) if not isinstance(st, (ast.FunctionDef, ast.AsyncFunctionDef, ast.ClassDef)) else []:
            if isinstance(n, ast.Name) and isinstance(n.ctx, ast.Store):
                module_bound.add(n.id)
    d = "/".join(rel.split("/")[:-1])
    opts = []
    names = [getattr(st, "name", None) for st in tree.body]
    for st in tree.body:
        if not isinstance(st, ast.FunctionDef) or st.decorator_list or names.count(st.name) != 1:
            continue
        # the name must be bound exactly once in the whole file (no re-assignment, no second def, no global/nonlocal)
        if sum(1 for x in ast.walk(tree) if (isinstance(x, (ast.FunctionDef, ast.AsyncFunctionDef, ast.ClassDef))
                                              and x.name == st.name)
               or (isinstance(x, ast.Name) and x.id == st.name and isinstance(x.ctx, (ast.Store, ast.Del)))
               or (isinstance(x, ast.arg) and x.arg == st.name)
               or (isinstance(x, (ast.Global, ast.Nonlocal)) and st.name in x.names)
               or (isinstance(x, ast.alias) and (x.asname or x.name).split(".")[0] == st.name)) != 1:
            continue
        params = {a.arg for a in st.args.posonlyargs + st.args.args + st.args.kwonlyargs}
        local = {n.id for n in ast.walk(st) if isinstance(n, ast.Name) and isinstance(n.ctx, ast.Store)}
        local |= {x.name for x in ast.walk(st) if isinstance(x, (ast.FunctionDef, ast.ClassDef)) and x is not st}
        local |= {a.arg for x in ast.walk(st) if isinstance(x, ast.FunctionDef) for a in x.args.args}
        free = {n.id for n in ast.walk(st) if isinstance(n, ast.Name)} - params - local
        if any(isinstance(x, (ast.Global, ast.Nonlocal, ast.Import, ast.ImportFrom)) for x in ast.walk(st)):
            continue
        if st.name in free:
            free = free - {st.name}          # recursion is fine: the name is defined in the new module too
        if not free <= (BUILTIN_OK | set(externals)) or (free & module_bound):
            continue
        # the name of the new module varies: unit ids follow the directory-listing order of the file names
        newmod = rng.choice(["mv_", "a_", "zz_", "k9_", "core_"]) + st.name.lower()
        newrel = (d + "/" if d else "") + newmod + ".py"
        if newrel in proj["files"] or newmod in module_bound:
            continue
        ed = {"kind": "move", "file": rel, "range": [_stmt_first_line(st), st.end_lineno], "newfile": newrel,
              "name": st.name, "import": ["from %s import %s" % (newmod, st.name)], "header": []}
        # RE-EXPORT variant: other files import the function from `rel`; after the move `rel` only re-exports it
        mod = rel[:-3].split("/")[-1]
        importers = [r for r, t in proj["files"].items() if r != rel and r.endswith(".py") and
                     re.search(r"^\s*from\s+%s\s+import\s+.*\b%s\b" % (re.escape(mod), re.escape(st.name)), t, re.M)]
        ed["reexport_importers"] = importers
        opts += [ed] * (4 if importers else 1)
    return dict(rng.choice(opts)) if opts else None


# ====================================================================================== JavaScript / Java (line shapes)

def _brace_ok(text):
    """the conservative rules below are only applied to files without template strings, block comments, regex-looking
    slashes at line start, or lines whose string literals contain braces / comment markers"""
    if "`" in text or "/*" in text or "*/" in text:
        return False
    for l in split_lines(text):
        s = re.sub(r'"(?:[^"\\]|\\.)*"|\'(?:[^\'\\]|\\.)*\'', '""', l)
        if '"' in s.replace('""', "") or "'" in s:
            return False
    return True


def _strip_strings(l):
    s = re.sub(r'"(?:[^"\\]|\\.)*"|\'(?:[^\'\\]|\\.)*\'', '""', l)
    return s.split("//")[0]


def brace_sites(text):
    """[(line L, indent, depth, paren_depth_zero)]: positions BEFORE line L where a whole statement may be inserted:
    the previous significant line ends with `;`, `{` or `}` , round/square brackets are balanced, and line L itself does
    not start with `else`/`catch`/`finally`/`.`/`)`/`]`/`,` …; depth = brace depth there"""
    if not _brace_ok(text):
        return []
    ls = split_lines(text)
    sites = []
    depth = 0
    paren = 0
    prev_end = ";"
    stack = []                     # what opened each brace: text of the opening line
    for i, l in enumerate(ls, 1):
        s = _strip_strings(l).strip()
        if s and paren == 0 and prev_end in (";", "{", "}") and \
                not re.match(r"^(else|catch|finally|while\s*\(.*\)\s*;|[.)\],?:&|+*/=-])", s) and not s.startswith("}"):
            ctx = stack[-1] if stack else ""
            sites.append((i, l[:len(l) - len(l.lstrip())], depth, ctx))
        for ch in s:
            if ch == "{":
                depth += 1
                stack.append(s)
            elif ch == "}":
                depth -= 1
                if stack:
                    stack.pop()
            elif ch in "([":
                paren += 1
            elif ch in ")]":
                paren -= 1
        if s:
            prev_end = s[-1]
    if depth != 0 or paren != 0:
        return []
    return sites


def _in_code_block(ctx, lang):
    """is the innermost open brace a statement block (function/method body, if/for/while/try …), not an object literal
    or a class / interface body?"""
    if not ctx:
        return lang == "javascript"          # script top level
    if re.search(r"\b(class|interface|enum)\b", ctx) or re.search(r"(=|\(|,|:|return)\s*\{$", ctx):
        return False
    if re.search(r"\bswitch\b", ctx):
        return False
    return True


def candidates_braces_insert(text, rel, rng, flavour, lang):
    sites = brace_sites(text)
    if flavour in ("blank", "comment"):
        opts = [(ln, ind) for ln, ind, _, _ in sites]
        if not opts:
            return None
        ln, ind = rng.choice(opts)
        k = rng.choice([1, 1, 2, 3])
        if flavour == "blank":
            lines = [rng.choice(["", ind]) for _ in range(k)]
        elif rng.random() < 0.35:
            ls = split_lines(text)
            ends = [i for i, l in enumerate(ls, 1) if _strip_strings(l).strip().endswith((";", "{", "}"))
                    and "//" not in l]
            if ends:
                return {"kind": "append", "flavour": "comment", "file": rel, "line": rng.choice(ends),
                        "text": " // " + rng.choice(COMMENT_WORDS)}
            lines = [ind + "// " + rng.choice(COMMENT_WORDS)]
        else:
            lines = [rng.choice([ind, ind, ""]) + "// " + rng.choice(COMMENT_WORDS) for _ in range(k)]
        return {"kind": "insert", "flavour": flavour, "file": rel, "at": ln, "lines": lines}
    opts = [(ln, ind) for ln, ind, _, ctx in sites if _in_code_block(ctx, lang)]
    if not opts:
        return None
    ln, ind = rng.choice(opts)
    return {"kind": "insert", "flavour": "noop", "file": rel, "at": ln, "lines": [ind + ";"]}


def js_toplevel_functions(text):
    """[(name, first line, last line)] of `function name(…) {` … `}` written at column 0 with the closing brace alone
    at column 0 (the shape the generator emits and most corpus files use)"""
    if not _brace_ok(text):
        return []
    ls = split_lines(text)
    out = []
    i = 0
    while i < len(ls):
        m = re.match(r"^function\s+([A-Za-z_$][\w$]*)\s*\([^)]*\)\s*\{\s*$", ls[i])
        if m:
            depth = 0
            j = i
            while j < len(ls):
                s = _strip_strings(ls[j])
                depth += s.count("{") - s.count("}")
                if depth == 0:
                    break
                j += 1
            if j < len(ls) and ls[j].rstrip() in ("}", "};"):
                out.append((m.group(1), i + 1, j + 1))
                i = j
        i += 1
    return out


def _js_idents(line):
    s = _strip_strings(line)
    return [(m.start(), m.group(0)) for m in re.finditer(r"(?<![\w$.])[A-Za-z_$][\w$]*", s)] if s == line.split("//")[0] or True else []


def js_ident_occurrences(text):
    """[(line, col, name, after_dot)] identifier-shaped tokens outside strings/comments (strings are blanked by
    length-preserving masking)"""
    out = []
    for i, l in enumerate(split_lines(text), 1):
        masked = re.sub(r'"(?:[^"\\]|\\.)*"|\'(?:[^\'\\]|\\.)*\'', lambda m: '"' + "_" * (len(m.group(0)) - 2) + '"', l)
        cut = masked.find("//")
        if cut >= 0:
            masked = masked[:cut]
        for m in re.finditer(r"[A-Za-z_$][\w$]*", masked):
            if m.start() > 0 and masked[m.start() - 1] == '"':
                continue
            after_dot = m.start() > 0 and masked[:m.start()].rstrip().endswith(".")
            is_key = masked[m.end():].lstrip().startswith(":")
            out.append((i, m.start(), m.group(0), after_dot or is_key))
    return out


JS_RESERVED = {"function", "var", "let", "const", "return", "if", "else", "for", "while", "new", "this", "class", "in",
               "of", "true", "false", "null", "undefined", "typeof", "break", "continue", "try", "catch", "finally",
               "throw", "switch", "case", "default", "do", "delete", "void", "require", "module", "exports", "console"}


def _js_rebinds(text, name):
    """is `name` assigned / incremented / declared as a variable somewhere in the text?"""
    n = re.escape(name)
    for l in split_lines(text):
        s_ = _strip_strings(l)
        if re.search(r"(?<![\w$.])%s\s*(=(?!=)|\+=|-=|\*=|/=|\+\+|--)" % n, s_) or \
                re.search(r"(\+\+|--)\s*%s(?![\w$])" % n, s_) or \
                re.search(r"\b(?:var|let|const|class)\s+%s(?![\w$])" % n, s_):
            return True
    return False


def candidates_js_rename_local(text, rel, rng, keep):
    """rename a variable declared with var/let/const or as parameter inside ONE top-level function whose spelling
    occurs nowhere else in the file (so that scoping cannot matter) and never as a property / key"""
    fns = js_toplevel_functions(text)
    occ = js_ident_occurrences(text)
    if not fns:
        return None
    all_names = {n for _, _, n, _ in occ}
    ls = split_lines(text)
    opts = []
    for name, s, e in fns:
        inside = [(l, c, n, d) for l, c, n, d in occ if s <= l <= e]
        declared = set()
        for l in range(s, e + 1):
            for m in re.finditer(r"\b(?:var|let|const)\s+([A-Za-z_$][\w$]*)", _strip_strings(ls[l - 1])):
                declared.add(m.group(1))
        m = re.match(r"^function\s+[\w$]+\s*\(([^)]*)\)", ls[s - 1])
        params = {p.strip() for p in m.group(1).split(",") if re.match(r"^[A-Za-z_$][\w$]*$", p.strip())} if m else set()
        for v in sorted(declared | params):
            if v in keep or v in JS_RESERVED:
                continue
            if any(n == v and (d or not (s <= l <= e)) for l, c, n, d in occ):
                continue
            mine = [[rel, l, c] for l, c, n, d in inside if n == v]
            if mine:
                opts.append((v, mine, v in params))
    if not opts:
        return None
    v, mine, is_param = rng.choice(opts)
    new = fresh_name(rng, all_names | set(keep) | JS_RESERVED, v)
    if new is None:
        return None
    return {"kind": "rename", "what": "param" if is_param else "local", "old": v, "new": new, "occ": mine}


def candidates_js_rename_function(proj, rel, rng, keep):
    """rename one top-level function of `rel` in every JavaScript file of the project: the spelling must be used only
    as a plain identifier (never after a dot, as an object key, inside a string, or declared as variable / parameter /
    second function anywhere)"""
    text = proj["files"][rel]
    fns = js_toplevel_functions(text)
    js = {r: t for r, t in proj["files"].items() if r.endswith(".js")}
    occs = {r: js_ident_occurrences(t) for r, t in js.items()}
    all_names = {n for oc in occs.values() for _, _, n, _ in oc}
    opts = []
    for name, s, e in fns:
        if name in keep or name in JS_RESERVED:
            continue
        ok = True
        mine = []
        for r, t in js.items():
            ls = split_lines(t)
            if sum(1 for f in js_toplevel_functions(t) if f[0] == name) != (1 if r == rel else 0):
                ok = False
            if any(n == name and d for _, _, n, d in occs[r]):
                ok = False
            if _js_rebinds(t, name):
                ok = False
            for l in ls:
                m = re.match(r"^\s*(?:async\s+)?function\b[^(]*\(([^)]*)\)", l)
                if m and name in [p_.strip() for p_ in m.group(1).split(",")]:
                    ok = False
                if re.search(r"\bfunction\s+%s\b" % re.escape(name), l) and not (r == rel and l is ls[s - 1]):
                    ok = False
                if any(name in m_.group(0) for m_ in re.finditer(r'"(?:[^"\\]|\\.)*"|\'(?:[^\'\\]|\\.)*\'', l)):
                    ok = False
            if not _brace_ok(t):
                ok = False
            mine += [[r, l, c] for l, c, n, d in occs[r] if n == name]
        if ok and mine:
            opts.append((name, mine))
    if not opts:
        return None
    name, mine = rng.choice(opts)
    new = fresh_name(rng, all_names | set(keep) | JS_RESERVED, name)
    if new is None:
        return None
    return {"kind": "rename", "what": "function", "old": name, "new": new, "occ": sorted(mine)}


def candidates_js_swap(text, rel, rng):
    """two adjacent top-level function declarations (hoisted: their order never matters) with different names"""
    fns = js_toplevel_functions(text)
    opts = []
    ls = split_lines(text)
    for (n1, s1, e1), (n2, s2, e2) in zip(fns, fns[1:]):
        if n1 == n2 or sum(1 for f in fns if f[0] in (n1, n2)) != 2:
            continue
        if any(ls[k - 1].strip() and not ls[k - 1].strip().startswith("//") for k in range(e1 + 1, s2)):
            continue
        opts.append({"kind": "swap", "file": rel, "a": [s1, s2 - 1], "b": [s2, e2], "names": [n1, n2]})
    return rng.choice(opts) if opts else None


def candidates_js_move(proj, rel, rng, keep, externals, style):
    """move a top-level function that mentions no other top-level name of the file to a new sibling module.
    style "esm": `export function f…` + `import { f } from "./mv_f.js";`; style "cjs": `module.exports = { f };` at
    the end of the new file + `const { f } = require("./mv_f.js");`"""
    text = proj["files"][rel]
    fns = js_toplevel_functions(text)
    occ = js_ident_occurrences(text)
    ls = split_lines(text)
    top_names = {f[0] for f in fns}
    for i, l in enumerate(ls, 1):
        if not l.startswith((" ", "\t", "}")):
            for m in re.finditer(r"\b(?:var|let|const)\s+([A-Za-z_$][\w$]*)", _strip_strings(l)):
                top_names.add(m.group(1))
    d = "/".join(rel.split("/")[:-1])
    opts = []
    for name, s, e in fns:
        if sum(1 for f in fns if f[0] == name) != 1:
            continue
        # the name must be bound exactly once in the whole project: never assigned, incremented, or declared again
        if any(_js_rebinds(t_, name) for r_, t_ in proj["files"].items() if r_.endswith(".js")):
            continue
        inside = {n for l, c, n, dd in occ if s <= l <= e and not dd}
        if (inside - {name}) & top_names:
            continue
        declared = set()
        for l in range(s, e + 1):
            for m in re.finditer(r"\b(?:var|let|const|function)\s+([A-Za-z_$][\w$]*)", _strip_strings(ls[l - 1])):
                declared.add(m.group(1))
        m = re.match(r"^function\s+[\w$]+\s*\(([^)]*)\)", ls[s - 1])
        params = {p.strip() for p in m.group(1).split(",")} if m else set()
        free = inside - declared - params - JS_RESERVED - {name}
        if not free <= set(externals):
            continue
        newrel = (d + "/" if d else "") + "mv_" + name.lower() + ".js"
        if newrel in proj["files"]:
            continue
        base = "./mv_" + name.lower() + ".js"
        if style == "esm":
            ed = {"kind": "move", "file": rel, "range": [s, e], "newfile": newrel, "name": name,
                  "import": ['import { %s } from "%s";' % (name, base)], "header": [],
                  "footer": ["export { %s };" % name], "style": "esm"}
        else:
            ed = {"kind": "move", "file": rel, "range": [s, e], "newfile": newrel, "name": name,
                  "import": ['const { %s } = require("%s");' % (name, base)], "header": [],
                  "footer": ["module.exports = { %s };" % name], "style": "cjs"}
        opts.append(ed)
    return rng.choice(opts) if opts else None
