"""C03 — emitted GIR is structurally well-formed for every input in every language.

Tie (a)  passes:  random + exhaustive-small GIR trees through the REAL `GIRProcessing(n).flatten` and
         `basic.add_main_func` (in-process, from $LIAN_REPO/src as it is now) vs the Lean model
         (`flatten`, `addMainFunc`, `adjustNodeId` in lvdrv): rows compared exactly, errors by class.
Tie (b)  whole phase, certified monitor: the real `lang` sub-command runs in-process (worker pool)
         on the repository corpora, generated programs, byte-level mutants and multi-file projects
         for c, go, java, javascript, php, python, typescript.  The rows read back from
         frontend/gir.bundle* are judged by the Lean checker `wfCheck` (sound + complete for `WFProject`,
         Properties/C03.lean) and by an independent Python restatement of the same clauses; the trees
         captured at `GIRProcessing.flatten` are pushed through the model `langRun`, whose rows must
         equal the bundle.  An unhandled exception / non-zero exit of the phase is a failing input.
"""
import collections, contextlib, copy, glob, hashlib, inspect, io, json, math, os, shutil, signal, sys, time, traceback
import common
from common import drv_batch, drv_ok
import c03gen
import c03bank
import re, types

LANGS = {"c": (".c", ".h", ".i"), "go": (".go",), "java": (".java",), "javascript": (".js",), "php": (".php",),
         "python": (".py",), "typescript": (".ts",),
         # grammar present, no program generator: corpus + snippets + mutants only
         "llvm": (".ll",), "ruby": (".rb",), "smali": (".smali",)}
CORE_LANGS = ("c", "go", "java", "javascript", "php", "python", "typescript")
EXT1 = {"c": ".c", "go": ".go", "java": ".java", "javascript": ".js", "php": ".php", "python": ".py", "typescript": ".ts",
        "llvm": ".ll", "ruby": ".rb", "smali": ".smali"}
HANDLER_RE = re.compile(r"^(check_\w*handler|obtain_\w*handler)$")
STRIP_KEYS = ("start_row", "start_col", "end_row", "end_col", "unit_id")
BODY_KEYS = ["parameters", "fields", "methods", "nested", "enum_constants", "annotation_type_elements",
             "static_init", "init", "member_methods", "finally_clause"]
NON_EXEC = ["enum_constant"]
INIT_KEYS = ["init", "static_init"]
CLAUSES = ["nested", "exec_in_method", "ids_unique", "ids_pos", "top_decl", "bodies_exist", "ordered", "one_init"]


class OutOfFragment(Exception):
    pass


# --------------------------------------------------------------------------------------------------
# parameters read from the live code
# --------------------------------------------------------------------------------------------------
def extract_params():
    common.use_repo()
    from lian.lang.lang_analysis import GIRProcessing
    from lian.events.default_event_handlers import basic
    from lian.config.constants import LIAN_INTERNAL
    from lian.config import config
    notes = []

    def tuple_with(fn, member, default):
        for c in fn.__code__.co_consts:
            if isinstance(c, tuple) and member in c and all(isinstance(x, str) for x in c):
                return list(c)
        notes.append(f"could not extract the constant containing {member!r} from {fn.__qualname__}; default used")
        return default
    return {
        "patchOps": tuple_with(GIRProcessing.flatten_stmt, "assign_stmt", ["assign_stmt", "call_stmt"]),
        "exclude": tuple_with(basic.add_main_func, "import_stmt",
                              ["import_stmt", "from_import_stmt", "export_stmt", "type_alias_decl"]),
        "unitInit": LIAN_INTERNAL.UNIT_INIT,
        "interval": int(config.MIN_ID_INTERVAL),
        "bodyKeys": BODY_KEYS, "nonExec": NON_EXEC, "initKeys": INIT_KEYS,
    }, notes


def fingerprints():
    common.use_repo()
    from lian.lang import lang_analysis
    from lian.events.default_event_handlers import basic
    from lian.util import gir_block, data_model
    fns = {"GIRProcessing": lang_analysis.GIRProcessing, "GIRParser.deal_with_file_unit": lang_analysis.GIRParser.deal_with_file_unit,
           "GIRParser.add_unit_gir": lang_analysis.GIRParser.add_unit_gir, "LangAnalysis.run": lang_analysis.LangAnalysis.run,
           "LangAnalysis.adjust_node_id": lang_analysis.LangAnalysis.adjust_node_id, "add_main_func": basic.add_main_func,
           "GIRBlockViewer.__init__": gir_block.GIRBlockViewer.__init__, "DataModel.read_block": data_model.DataModel.read_block}
    return {k: hashlib.sha256(inspect.getsource(v).encode()).hexdigest()[:16] for k, v in fns.items()}


# --------------------------------------------------------------------------------------------------
# encodings
# --------------------------------------------------------------------------------------------------
def _str_ok(s, in_list):
    # the model copies characters >= 0x80 unchanged into str(list); Python escapes the unprintable ones
    if in_list:
        for ch in s:
            if ord(ch) > 0x7f and not ch.isprintable():
                return False
    return True


MAX_TREE_DEPTH = 240          # JSON nesting (about 60 nested blocks); deeper trees are pickled/parsed recursively


def enc_tree(t, in_list=False, depth=0):
    if depth > MAX_TREE_DEPTH:
        raise OutOfFragment("too deep")
    if t is None:
        return None
    if isinstance(t, bool):
        raise OutOfFragment("bool")
    if isinstance(t, int):
        return t
    if isinstance(t, str):
        if not _str_ok(t, in_list):
            raise OutOfFragment("unprintable non-ascii inside a list")
        try:
            t.encode("utf-8")
        except UnicodeEncodeError:
            raise OutOfFragment("surrogate")
        return t
    if isinstance(t, list):
        gir = bool(t) and isinstance(t[0], dict) and bool(t[0])
        return [enc_tree(x, in_list or not gir, depth + 1) for x in t]
    if isinstance(t, dict):
        out = []
        for k, v in t.items():
            if not isinstance(k, str) or not _str_ok(k, in_list):
                raise OutOfFragment("non-str key")
            out.append([k, enc_tree(v, in_list, depth + 1)])
        return {"o": out}
    raise OutOfFragment(type(t).__name__)


def cell(v):
    if v is None:
        return None
    if isinstance(v, bool):
        raise OutOfFragment("bool cell")
    if isinstance(v, int):
        return v
    if isinstance(v, float):
        if math.isnan(v):
            return None
        if v != int(v):
            raise OutOfFragment("non-integral float cell")
        return int(v)
    if isinstance(v, str):
        return v
    if hasattr(v, "item"):
        return cell(v.item())
    raise OutOfFragment("cell " + type(v).__name__)


def row_wire(d):
    """real row dict -> wire row (attrs in dict order, None kept)"""
    return {"op": d["operation"], "id": d["stmt_id"], "p": d["parent_stmt_id"],
            "a": [[k, cell(v)] for k, v in d.items() if k not in ("operation", "stmt_id", "parent_stmt_id")]}


def wire_ok(w):
    return isinstance(w["op"], str) and isinstance(w["id"], int) and isinstance(w["p"], int) and w["id"] >= 0 and w["p"] >= 0 \
        and not isinstance(w["id"], bool) and not isinstance(w["p"], bool)


def strip_row(w):
    return {"op": w["op"], "id": w["id"], "p": w["p"], "a": [kv for kv in w["a"] if kv[0] not in STRIP_KEYS and kv[1] is not None]}


def keep_row(w):
    """tie (a): rows as they are (no position attributes there), only `None` cells dropped"""
    return {"op": w["op"], "id": w["id"], "p": w["p"], "a": [kv for kv in w["a"] if kv[1] is not None]}


def canon_unordered(w):
    return (w["op"], w["id"], w["p"], tuple(sorted((k, repr(v)) for k, v in w["a"] if v is not None)))


@contextlib.contextmanager
def quiet():
    o, e = io.StringIO(), io.StringIO()
    with contextlib.redirect_stdout(o), contextlib.redirect_stderr(e):
        yield o, e


# --------------------------------------------------------------------------------------------------
# tie (a): the passes, in-process
# --------------------------------------------------------------------------------------------------
def real_flatten(n, tree):
    from lian.lang.lang_analysis import GIRProcessing
    from lian.events.default_event_handlers import basic
    from lian.events.handler_template import EventData
    from lian.config.constants import EVENT_KIND
    t = copy.deepcopy(tree)
    with quiet():
        try:
            res = GIRProcessing(n).flatten(t)
        except SystemExit:
            return {"res": "err:quit"}
        except Exception as e:
            return {"res": "err:exception:" + type(e).__name__}
    if res is None:
        return {"res": "err:none"}
    nxt, rows = res
    out = {"res": "ok", "next": nxt, "rows": [row_wire(r) for r in rows]}
    data = EventData("python", EVENT_KIND.GIR_LIST_GENERATED, rows)
    data.out_data = data.in_data          # what EventManager.notify does before calling the handlers
    with quiet():
        try:
            basic.add_main_func(data)
            out["main"] = [row_wire(r) for r in data.out_data]
        except Exception as e:
            out["main"] = "err:exception:" + type(e).__name__
    return out


def real_adjust(ns):
    from lian.lang.lang_analysis import LangAnalysis
    la = LangAnalysis.__new__(LangAnalysis)
    return [la.adjust_node_id(n) for n in ns]


# --------------------------------------------------------------------------------------------------
# independent oracle: the clauses of WFUnit / WFProject restated in Python
# --------------------------------------------------------------------------------------------------
def _keeps(P, op):
    return op.endswith("_decl") or op in P["exclude"]


def _is_exec(P, op):
    return not _keeps(P, op) and op not in P["nonExec"]


def _body_key(P, k):
    return k.endswith("body") or k in P["bodyKeys"]


def oracle_unit(rows, P):
    """rows: stripped wire rows of one unit.  Returns (sorted failed clause names, details)."""
    fails, detail = set(), {}
    stack = [{"block": 0, "owner": None, "last": None, "inM": False, "chain": []}]
    shape_ok, exec_bad = True, []
    for i, r in enumerate(rows):
        top = stack[-1]
        if r["op"] == "block_end":
            if len(stack) == 1 or top["block"] != r["id"] or top["owner"] != r["p"]:
                shape_ok = False; detail["nested"] = [i, "block_end does not close the innermost open block"]; break
            stack.pop()
        elif r["op"] == "block_start":
            o = top["last"]
            if o is None or o["id"] != r["p"]:
                shape_ok = False; detail["nested"] = [i, "block_start whose parent is not the last statement of the level"]; break
            if not any(isinstance(v, int) and v == r["id"] for _, v in o["a"]):
                shape_ok = False; detail["nested"] = [i, "block not referenced by any attribute of its owner"]; break
            opens = o["op"] == "method_decl" or any(k in P["initKeys"] and isinstance(v, int) and v == r["id"] for k, v in o["a"])
            key = next((k for k, v in o["a"] if isinstance(v, int) and v == r["id"]), "?")
            stack.append({"block": r["id"], "owner": r["p"], "last": None, "inM": top["inM"] or opens,
                          "chain": top["chain"] + [o["op"] + "." + key]})
        else:
            if r["p"] != top["block"]:
                shape_ok = False; detail["nested"] = [i, "statement whose parent is not the innermost open block"]; break
            if top["block"] != 0 and _is_exec(P, r["op"]) and not top["inM"]:
                exec_bad.append([i, r["op"], list(top["chain"])])
            top["last"] = r
    if shape_ok and len(stack) != 1:
        shape_ok = False; detail["nested"] = [len(rows), "unclosed block"]
    if not shape_ok:
        fails.add("nested")
    elif exec_bad:
        fails.add("exec_in_method"); detail["exec_in_method"] = exec_bad[:20]
    ids = [r["id"] for r in rows if r["op"] != "block_end"]
    if len(ids) != len(set(ids)):
        fails.add("ids_unique")
    if any(r["id"] == 0 for r in rows):
        fails.add("ids_pos")
    for r in rows:
        if r["op"] not in ("block_start", "block_end") and r["p"] == 0 and not _keeps(P, r["op"]):
            fails.add("top_decl"); detail.setdefault("top_decl", []).append(r["op"])
    starts = {(r["id"], r["p"]) for r in rows if r["op"] == "block_start"}
    for r in rows:
        if r["op"] in ("block_start", "block_end"):
            continue
        for k, v in r["a"]:
            if _body_key(P, k) and isinstance(v, int) and not (v >= 0 and (v, r["id"]) in starts):
                fails.add("bodies_exist"); detail.setdefault("bodies_exist", []).append([r["op"], k, v])
    last_by_parent = {}
    for r in rows:
        if r["op"] in ("block_start", "block_end"):
            continue
        # pairwise over ALL earlier statements with the same parent = strictly above their maximum
        m = last_by_parent.get(r["p"])
        if m is not None and not (m < r["id"]):
            fails.add("ordered")
        last_by_parent[r["p"]] = r["id"] if m is None else max(m, r["id"])
    ninit = 0
    for r in rows:
        if r["op"] == "method_decl" and r["p"] == 0:
            name = next((v for k, v in r["a"] if k == "name"), None)
            if name == P["unitInit"]:
                ninit += 1
    if ninit > 1:
        fails.add("one_init")
    return [c for c in CLAUSES if c in fails], detail


def oracle_ranges(units):
    rng = [(min(r["id"] for r in u), max(r["id"] for r in u)) for u in units if u]
    for i in range(len(rng)):
        for j in range(i + 1, len(rng)):
            if not (rng[i][1] < rng[j][0] or rng[j][1] < rng[i][0]):
                return False
    return True


def consumers_ok(rows):
    """the real consumers on the real rows: GIRBlockViewer must construct, DataModel.read_block must find
    exactly two rows for every block id.  Returns None or a message."""
    import pandas as pd
    from lian.util.gir_block import GIRBlockViewer
    from lian.util.data_model import DataModel
    dm = DataModel([{"operation": r["op"], "stmt_id": r["id"], "parent_stmt_id": r["p"]} for r in rows])
    try:
        with quiet():
            GIRBlockViewer(dm)
    except Exception as e:
        return f"GIRBlockViewer: {type(e).__name__}: {e}"
    for b in {r["id"] for r in rows if r["op"] == "block_start"}:
        try:
            with quiet():
                dm.read_block(b)
        except SystemExit:
            return f"DataModel.read_block({b}) quits"
    return None


VIEW_ERR = {"duplicate stmt_id detected": "err:duplicate", "block_end without block_start": "err:end_without_start",
            "block nesting mismatch": "err:mismatch", "unclosed block detected": "err:unclosed"}


def real_consumers(rows, blocks):
    """outcome of the real GIRBlockViewer constructor and of DataModel.read_block(b) for b in blocks"""
    from lian.util.gir_block import GIRBlockViewer
    from lian.util.data_model import DataModel
    dm = DataModel([{"operation": r["op"], "stmt_id": r["id"], "parent_stmt_id": r["p"]} for r in rows])
    try:
        with quiet():
            GIRBlockViewer(dm)
        v = "ok"
    except RuntimeError as e:
        v = VIEW_ERR.get(str(e), "err:other:" + str(e))
    except Exception as e:
        v = "err:other:" + type(e).__name__
    rb = []
    for b in blocks:
        dm2 = DataModel([{"operation": r["op"], "stmt_id": r["id"], "parent_stmt_id": r["p"]} for r in rows])
        try:
            with quiet():
                dm2.read_block(b)
            rb.append(True)
        except SystemExit:
            rb.append(False)
    return {"viewer": v, "read_block": rb}


def assert_lian_from_repo():
    import lian
    src = os.path.realpath(os.path.join(common.REPO, "src")) + os.sep
    if not os.path.realpath(lian.__file__).startswith(src):
        raise RuntimeError(f"lian imported from {lian.__file__}, expected under {src}")


# --------------------------------------------------------------------------------------------------
# tie (b): the real lang phase, in-process, in worker processes
# --------------------------------------------------------------------------------------------------
CAP = {"units": [], "flat": [], "save_fail": [], "raised": [], "errors": [], "hits": set(), "seen": set()}
_WRAPPED = [False]
_SCRATCH = [None]


class CaseTimeout(BaseException):
    pass


def _alarm(signum, frame):
    raise CaseTimeout()


def install_wrappers():
    if _WRAPPED[0]:
        return
    _WRAPPED[0] = True
    common.use_repo()
    import warnings
    warnings.filterwarnings("ignore")
    from lian.lang import lang_analysis
    from lian.util import data_model
    orig_flatten = lang_analysis.GIRProcessing.flatten
    orig_deal = lang_analysis.GIRParser.deal_with_file_unit
    orig_save = data_model.DataModel.save
    from lian.lang import common_parser
    orig_parse_gir = common_parser.Parser.parse_gir

    def parse_gir(self, node, statements):
        census(node, CAP["seen"])
        try:
            return orig_parse_gir(self, node, statements)
        except Exception as e:
            CAP["raised"].append(type(e).__name__)
            raise

    from lian.util import util as lian_util
    orig_error = lian_util.error

    def error(*msg):
        CAP["errors"].append(" ".join(str(m) for m in msg)[:300])
        return orig_error(*msg)
    lian_util.error = error

    # which handler of the frontend's dispatch tables is looked up with success (= about to be run)
    from lian.config import lang_config
    for lc in lang_config.LANG_TABLE:
        for name in dir(lc.parser):
            if HANDLER_RE.match(name):
                orig = getattr(lc.parser, name)
                if getattr(orig, "__wrapped__", None) is not None:
                    continue

                def mk(orig):
                    def w(self, node, *a, **k):
                        r = orig(self, node, *a, **k)
                        if r is not None:
                            try:
                                CAP["hits"].add(node.type)
                            except Exception:
                                pass
                        return r
                    w.__wrapped__ = orig
                    return w
                setattr(lc.parser, name, mk(orig))

    def flatten(self, stmts):
        rec = {"n": self.node_id}
        lim = sys.getrecursionlimit()
        try:
            sys.setrecursionlimit(max(lim, 20000))      # only for the harness's own copy of the tree
            rec["tree"] = enc_tree(stmts)
        except OutOfFragment as e:
            rec["tree"] = None
            rec["oof"] = str(e)
        except RecursionError:
            rec["tree"] = None
            rec["oof"] = "too deep"
        finally:
            sys.setrecursionlimit(lim)
        CAP["flat"].append(rec)
        return orig_flatten(self, stmts)

    def deal(self, current_node_id, unit_info, file_unit, lang_table):
        k = len(CAP["flat"])
        rec = {"uid": int(unit_info.module_id), "n": int(current_node_id), "path": os.path.basename(str(file_unit)), "flat": None}
        CAP["units"].append(rec)
        kr, ke = len(CAP["raised"]), len(CAP["errors"])
        res = orig_deal(self, current_node_id, unit_info, file_unit, lang_table)
        if len(CAP["raised"]) > kr:
            rec["raised"] = CAP["raised"][kr]
            rec["raised_where"] = "frontend"
        for m in CAP["errors"][ke:]:
            mm = re.match(r"Failed to post-process GIR \((\w+):", m)
            if mm:
                rec["raised"] = mm.group(1)
                rec["raised_where"] = "passes"
                rec["raised_msg"] = m[:200]
        if len(CAP["flat"]) > k:
            rec["flat"] = CAP["flat"][k]
        rec["n_out"] = int(res[0])
        rec["has_rows"] = bool(res[1])
        return res

    def save(self, path):
        r = orig_save(self, path)
        if r is None:
            CAP["save_fail"].append(os.path.basename(str(path)))
        return r

    lang_analysis.GIRProcessing.flatten = flatten
    common_parser.Parser.parse_gir = parse_gir
    lang_analysis.GIRParser.deal_with_file_unit = deal
    data_model.DataModel.save = save


def census(node, seen, cap=40000):
    """named node types of a tree-sitter tree (iterative walk)"""
    try:
        cur = node.walk()
        n = 0
        while n < cap:
            n += 1
            if cur.node.is_named:
                seen.add(cur.node.type)
            if cur.goto_first_child():
                continue
            while not cur.goto_next_sibling():
                if not cur.goto_parent():
                    return
    except Exception:
        return


def handler_universe(lang):
    """node types the live frontend of `lang` has a handler for, per dispatch table"""
    from lian.config import lang_config
    lc = next((l for l in lang_config.LANG_TABLE if l.name == lang), None)
    if lc is None:
        return {}
    tables = {}
    try:
        opts = types.SimpleNamespace(debug=False, print_stmts=False, strict_parse_mode=False, quiet=True)
        ui = types.SimpleNamespace(original_path="", unit_path="", module_id=0, lang=lang, unit_id=0)
        inst = lc.parser(opts, ui)
        for k, v in vars(inst).items():
            if k.endswith("_MAP") and isinstance(v, dict) and v and all(isinstance(x, str) for x in v) \
                    and all(callable(x) for x in v.values()):
                tables[k] = sorted(v)
    except Exception as e:
        tables["<instantiation failed: %s>" % type(e).__name__] = []
    for name in dir(lc.parser):
        if HANDLER_RE.match(name):
            f = getattr(lc.parser, name)
            f = getattr(f, "__wrapped__", f)
            code = getattr(f, "__code__", None)
            if code is None:
                continue
            keys = sorted({c for c in code.co_consts if isinstance(c, str) and re.match(r"^[a-z_][a-z0-9_]*$", c)})
            if keys:
                tables[name] = keys
    return tables


def worker_init(repo, scratch):
    for v in ("OMP_NUM_THREADS", "OPENBLAS_NUM_THREADS", "MKL_NUM_THREADS", "ARROW_IO_THREADS", "NUMEXPR_NUM_THREADS"):
        os.environ[v] = "1"
    os.environ["LIAN_REPO"] = repo
    common.REPO = repo
    _SCRATCH[0] = scratch
    install_wrappers()
    assert_lian_from_repo()


def read_bundles(ws):
    import pandas as pd
    units, order = {}, []
    paths = sorted(glob.glob(os.path.join(ws, "lian_workspace", "frontend", "gir.bundle*")))
    for p in paths:
        df = pd.read_feather(p)
        cols = list(df.columns)
        for rec in df.itertuples(index=False, name=None):
            d = dict(zip(cols, rec))
            uid = cell(d.get("unit_id"))
            w = {"op": d["operation"], "id": cell(d["stmt_id"]), "p": cell(d["parent_stmt_id"]),
                 "a": [[k, cell(v)] for k, v in d.items() if k not in ("operation", "stmt_id", "parent_stmt_id")]}
            w["a"] = [kv for kv in w["a"] if kv[1] is not None]
            if uid not in units:
                units[uid] = []
                order.append(uid)
            units[uid].append(w)
    return [[uid, units[uid]] for uid in order], len(paths)


def run_case(case):
    """case: {"cid", "lang", "files": [[relname, bytes]], "timeout"} -> result dict (picklable)."""
    install_wrappers()
    from lian.main import Lian
    base = os.path.join(_SCRATCH[0] or common.SCRATCH_ROOT, f"w{os.getpid()}")
    indir = os.path.join(base, "in")
    shutil.rmtree(indir, ignore_errors=True)      # the workspace itself is rewritten by lian (-f)
    os.makedirs(indir)
    for name, data in case["files"]:
        p = os.path.join(indir, name)
        os.makedirs(os.path.dirname(p), exist_ok=True)
        with open(p, "wb") as f:
            f.write(data)
    ws = os.path.join(base, "ws")
    shutil.rmtree(os.path.join(ws, "lian_workspace", "frontend"), ignore_errors=True)   # never read a stale bundle
    target = os.path.join(indir, case["files"][0][0]) if len(case["files"]) == 1 else indir
    CAP["units"], CAP["flat"], CAP["save_fail"], CAP["raised"], CAP["errors"] = [], [], [], [], []
    CAP["hits"], CAP["seen"] = set(), set()
    res = {"cid": case["cid"], "lang": case["lang"], "status": "ok", "site": None, "exc": None, "msg": ""}
    argv = sys.argv
    sys.argv = ["lian", "lang", "-l", case["lang"], "-w", ws, "-f", "-q", target]
    t0 = time.time()
    old = signal.signal(signal.SIGALRM, _alarm)
    signal.alarm(int(case.get("timeout", 20)))
    with quiet() as (so, se):
        try:
            Lian().run()
        except CaseTimeout:
            res["status"] = "timeout"
        except SystemExit as e:
            res["status"] = "exit"
            res["msg"] = f"exit code {e.code}"
        except BaseException as e:
            res["status"] = "crash"
            res["exc"] = type(e).__name__
            tb = traceback.extract_tb(e.__traceback__)
            fr = [x for x in tb if os.sep + "lian" + os.sep in x.filename]
            fr = fr[-1] if fr else tb[-1]
            res["site"] = [os.path.basename(fr.filename), fr.name]
            res["msg"] = f"{type(e).__name__}: {str(e)[:160]} at {os.path.basename(fr.filename)}:{fr.lineno} in {fr.name}"
        finally:
            signal.alarm(0)
            signal.signal(signal.SIGALRM, old)
            sys.argv = argv
    res["time"] = round(time.time() - t0, 3)
    res["stderr"] = se.getvalue()[-400:]
    res["stdout"] = so.getvalue()[-600:]
    if res["status"] == "exit":
        res["msg"] += ": " + " ".join(l for l in se.getvalue().split("\n") if "[ERROR]" in l)[-200:]
    res["units"] = CAP["units"]
    res["save_fail"] = CAP["save_fail"]
    res["hits"] = sorted(CAP["hits"])
    res["seen"] = sorted(CAP["seen"])
    try:
        res["bundle"], res["nbundles"] = read_bundles(ws)
    except OutOfFragment as e:
        res["bundle"], res["nbundles"] = None, -1
        res["bundle_oof"] = str(e)
    except Exception as e:
        res["bundle"], res["nbundles"] = None, -1
        res["bundle_err"] = f"{type(e).__name__}: {e}"
    return res


# --------------------------------------------------------------------------------------------------
# case construction
# --------------------------------------------------------------------------------------------------
def corpus_files(lang):
    root = os.path.join(common.REPO, "tests")
    out = {"repo": [], "real": []}
    for d, _, fs in os.walk(root):
        for f in sorted(fs):
            if f.endswith(LANGS[lang]):
                p = os.path.join(d, f)
                (out["real"] if os.sep + "real_cases" + os.sep in p else out["repo"]).append(p)
    out["repo"].sort(); out["real"].sort()
    return out


def _safe(name):
    return re.sub(r"[^A-Za-z0-9_.]", "_", name)[-60:]


def build_cases(ctx, sizes):
    """returns list of cases (dicts). Deterministic in ctx.rng.

    Every input is one file; files are PACKED into multi-file projects (`pack` files per real run) because
    one `lang` run costs ~0.3 s of workspace handling whatever the number of units.  Large files run alone.
    A failure names the unit (file) it belongs to, and shrinking starts by dropping the other files."""
    rng = ctx.rng
    cases = []
    stats = collections.Counter()
    for lang in sorted(LANGS):
        ext = EXT1[lang]
        core = lang in CORE_LANGS
        files = corpus_files(lang)
        items = []         # (kind, origin, name, bytes)
        pool = []          # (name, bytes) usable as mutation seeds
        repo_files = files["repo"]
        if sizes["corpus_frac"] < 1.0 and repo_files:
            repo_files = sorted(rng.sample(repo_files, max(1, int(len(repo_files) * sizes["corpus_frac"]))))
        real = rng.sample(files["real"], min(sizes["real"], len(files["real"])))
        for p in repo_files + real:
            try:
                data = open(p, "rb").read()
            except OSError:
                continue
            if len(data) > 200_000:
                continue
            items.append(("corpus", os.path.relpath(p, common.REPO), os.path.basename(p), data))
            if len(data) < 20_000:
                pool.append((os.path.basename(p), data))
        gens = []
        if core:
            for i in range(sizes["generated"]):
                src = c03gen.gen_program_source(rng, lang).encode()
                gens.append((f"gen{i}{ext}", src))
                items.append(("generated", str(i), f"gen{i}{ext}", src))
        bank = c03bank.items(lang, rng, ctx.tier)
        for kind, nm, src in bank:
            items.append((kind, nm, nm + ext, src.encode()))
        snippets = [(nm + ext, src.encode()) for kind, nm, src in bank if kind == "snippet"]
        small_bank = [(nm + ext, src.encode()) for kind, nm, src in bank if kind != "snippet" and len(src) < 3000]
        seeds = pool + gens + snippets * 3 + small_bank[:200]
        nm_mut = sizes["mutants"] if core else max(10, sizes["mutants"] // 3)
        for i in range(nm_mut):
            if not seeds:
                break
            name, data = seeds[rng.randrange(len(seeds))]
            mdata, kinds = c03gen.mutate(rng, data)
            items.append(("mutant", f"{i}/{name}", name, mdata))
        for kind, _, _, _ in items:
            stats[f"{lang}:{kind}"] += 1
        # ---- pack
        def alone(it):
            return len(it[3]) > 30_000 or it[0] == "stress" or "DeepStringConcat" in it[2]
        big = [it for it in items if alone(it)]
        small = [it for it in items if not alone(it)]
        rng.shuffle(small)
        for it in big:
            cases.append({"cid": f"{lang}/{it[0]}/{it[1]}", "lang": lang, "files": [[_safe(it[2]), it[3]]], "kind": it[0],
                          "origins": {_safe(it[2]): f"{it[0]}:{it[1]}"}, "timeout": sizes["timeout"]})
        k = sizes["pack"]
        for ci in range(0, len(small), k):
            chunk = small[ci:ci + k]
            fl, origins = [], {}
            for j, it in enumerate(chunk):
                sub = "" if j % 4 else f"d{j % 3}/"
                fname = f"{sub}k{j:02d}_{_safe(it[2])}"
                if not fname.endswith(LANGS[lang]):
                    fname += ext
                fl.append([fname, it[3]])
                origins[os.path.basename(fname)] = f"{it[0]}:{it[1]}"
            cases.append({"cid": f"{lang}/pack/{ci // k}", "lang": lang, "files": fl, "kind": "pack", "origins": origins,
                          "timeout": sizes["timeout"] * 4})
            stats[lang + ":packs"] += 1
    return cases, stats


# --------------------------------------------------------------------------------------------------
# judging the results of tie (b)
# --------------------------------------------------------------------------------------------------
def failure_signature(f):
    return json.dumps([f["kind"], f.get("lang"), f.get("exc"), f.get("site"), f.get("clauses")], sort_keys=True)


def match_known(ctx_findings, f):
    """narrow matchers for the open findings of known_findings.json (see the `matcher` text there)."""
    open_ids = {x["id"] for x in ctx_findings if x.get("status", "open") == "open"}
    kind = f["kind"]
    if kind == "illformed" and f.get("clauses") == ["exec_in_method"]:
        chains = [tuple(c[2]) for c in f.get("detail", {}).get("exec_in_method", [])]
        if f["lang"] == "php" and chains and all("namespace_decl.body" in c for c in chains):
            fid = "C03/php-namespace-body-outside-method"
            return fid if fid in open_ids else None
        if f["lang"] == "typescript" and chains and all("module_decl.body" in c for c in chains):
            fid = "C03/ts-ambient-module-body-outside-method"
            return fid if fid in open_ids else None
        if f["lang"] == "ruby" and chains and all("namespace_decl.body" in c for c in chains):
            fid = "C03/ruby-module-body-outside-method"
            return fid if fid in open_ids else None
        if f["lang"] == "java" and chains and all(c and c[-1] == "annotation_type_decl.annotation_type_elements" for c in chains):
            fid = "C03/java-annotation-element-default-outside-method"
            return fid if fid in open_ids else None
        ops = [c[1] for c in f.get("detail", {}).get("exec_in_method", [])]
        if f["lang"] == "python" and chains and all(c and c[-1] == "class_decl.nested" for c in chains) and \
                all(o in ("field_read", "call_stmt", "array_read", "assign_stmt", "new_array", "new_record", "array_write",
                          "record_write", "object_call_stmt") for o in ops):
            fid = "C03/python-nested-class-header-expression-outside-method"
            return fid if fid in open_ids else None
    if kind in ("bundle-unreadable", "bundle-not-written") and f["lang"] == "smali" and \
            "Conversion failed for column init " in f.get("msg", ""):
        fid = "C03/smali-annotation-init-mixed-column-loses-bundle"
        return fid if fid in open_ids else None
    if kind in ("crash", "exit"):
        for x in ctx_findings:
            if x.get("status", "open") != "open" or "site" not in x:
                continue
            s = x["site"]
            if s.get("lang") == f["lang"] and s.get("exc") == (f.get("exc") or "SystemExit") and \
                    s.get("file") == (f.get("site") or [None, None])[0] and s.get("func") == (f.get("site") or [None, None])[1]:
                return x["id"]
    return None


def judge_results(results, P, cov):
    """-> (failures, model_requests, bookkeeping). failures: list of dicts with kind/lang/...; model
    comparison and Lean wfcheck are batched by the caller."""
    failures, wf_reqs, run_reqs = [], [], []
    for r in results:
        lang = r["lang"]
        cov["status"][r["status"]] += 1
        cov["by_lang"][lang][r["status"]] += 1
        if r["status"] == "timeout":
            continue
        if r["status"] == "crash":
            failures.append({"kind": "crash", "lang": lang, "exc": r["exc"], "site": r["site"], "msg": r["msg"], "cid": r["cid"]})
            cov["crash_sites"][f"{lang}:{r['exc']}:{r['site'][0]}:{r['site'][1]}"] += 1
        elif r["status"] == "exit":
            if "No target file found" in r["msg"] or "No files found for analysis" in r["msg"]:
                cov["status"]["exit_no_target"] += 1
            else:
                failures.append({"kind": "exit", "lang": lang, "exc": "SystemExit", "site": ["", r["msg"][-120:]],
                                 "msg": r["msg"], "cid": r["cid"]})
        if r.get("bundle") is None:
            if r["status"] == "ok":
                failures.append({"kind": "bundle-unreadable", "lang": lang, "cid": r["cid"],
                                 "msg": f"frontend/gir.bundle* cannot be read back ({r.get('bundle_err') or r.get('bundle_oof')}); DataModel.save "
                                        f"failed for {r['save_fail']} and only printed: {' '.join(r.get('stdout', '').split())[-300:]}"})
            continue
        if r["status"] == "ok":
            if r["save_fail"]:
                failures.append({"kind": "bundle-not-written", "lang": lang, "cid": r["cid"],
                                 "msg": f"DataModel.save failed for {r['save_fail']} and only printed: {' '.join(r.get('stdout', '').split())[-300:]}"})
            want = sorted(u["uid"] for u in r["units"] if u.get("has_rows"))
            got = sorted(uid for uid, _ in r["bundle"])
            if want != got and not r["save_fail"]:
                failures.append({"kind": "units-missing", "lang": lang, "msg": f"units with rows {want} but bundle has {got}", "cid": r["cid"]})
        units = [[strip_row(w) for w in rows] for _, rows in r["bundle"]]
        if any(not wire_ok(w) for u in units for w in u):
            failures.append({"kind": "illformed", "lang": lang, "clauses": ["row-fields"], "detail": {}, "cid": r["cid"]})
            continue
        if units:
            wf_reqs.append((r, units))
            cov["units_checked"] += len(units)
            cov["rows_checked"] += sum(len(u) for u in units)
        for u in r["units"]:
            if u.get("raised_where") == "passes":
                if u["raised"] == "RecursionError":
                    cov["pass_recursion_limit"] += 1          # interpreter resource limit, outside the model: file skipped
                else:
                    failures.append({"kind": "pass-exception", "lang": lang, "exc": u["raised"], "site": ["passes", ""],
                                     "msg": "exception in the GIR passes (event handlers / flatten / add_main_func): " + u.get("raised_msg", ""),
                                     "cid": r["cid"], "path": u["path"]})
            elif u.get("raised_where") == "frontend":
                cov["frontend_raised"][f"{lang}:{u['raised']}"] += 1
        if r["status"] == "ok" and r["units"]:
            if all(u["flat"] is None or u["flat"].get("tree") is not None or u.get("raised") for u in r["units"]):
                run_reqs.append(r)
            else:
                cov["model_out_of_fragment"] += 1
    return failures, wf_reqs, run_reqs


def shrink_source(case, sig, budget=120, path=None):
    """line-wise then chunk-wise delta debugging of a failing case, in-process (files first)."""
    if path and len(case["files"]) > 1:
        only = [f for f in case["files"] if os.path.basename(f[0]) == path]
        if only and sig in {failure_signature(f) for f in failures_of_case(dict(case, files=only))}:
            case = dict(case, files=only)
        budget -= 1
    if len(case["files"]) != 1:
        # first try to drop whole files
        files = list(case["files"])
        changed = True
        while changed and budget > 0 and len(files) > 1:
            changed = False
            for i in range(len(files)):
                cand = files[:i] + files[i + 1:]
                budget -= 1
                if cand and sig in {failure_signature(f) for f in failures_of_case(dict(case, files=cand))}:
                    files = cand; changed = True; break
        case = dict(case, files=files)
        if len(files) != 1:
            return case
    name, data = case["files"][0]
    parts = data.split(b"\n")
    n = 2
    while len(parts) >= 2 and budget > 0:
        chunk = max(1, len(parts) // n)
        reduced = False
        for i in range(0, len(parts), chunk):
            cand = parts[:i] + parts[i + chunk:]
            budget -= 1
            if budget <= 0:
                break
            if cand and sig in {failure_signature(f) for f in failures_of_case(dict(case, files=[[name, b"\n".join(cand)]]))}:
                parts = cand; n = max(n - 1, 2); reduced = True; break
        if not reduced:
            if chunk == 1:
                break
            n = min(len(parts), n * 2)
    return dict(case, files=[[name, b"\n".join(parts)]])


_P_CACHE = [None]


def failures_of_case(case):
    """run one case in this process and return its failures (real code + Python oracle only)."""
    if _P_CACHE[0] is None:
        _P_CACHE[0] = extract_params()[0]
    P = _P_CACHE[0]
    _SCRATCH[0] = _SCRATCH[0] or os.path.join(common.SCRATCH_ROOT, f"lv-{os.getpid()}")
    os.makedirs(_SCRATCH[0], exist_ok=True)
    r = run_case(case)
    cov = {"status": collections.Counter(), "by_lang": collections.defaultdict(collections.Counter),
           "crash_sites": collections.Counter(), "units_checked": 0, "rows_checked": 0, "model_out_of_fragment": 0,
           "frontend_raised_units": 0, "pass_recursion_limit": 0, "frontend_raised": collections.Counter()}
    failures, wf_reqs, _ = judge_results([r], P, cov)
    for rr, units in wf_reqs:
        paths = {u["uid"]: u["path"] for u in rr["units"]}
        for ui, u in enumerate(units):
            cl, det = oracle_unit(u, P)
            if cl:
                failures.append({"kind": "illformed", "lang": rr["lang"], "clauses": cl, "detail": det, "cid": rr["cid"],
                                 "path": paths.get(rr["bundle"][ui][0])})
        if not oracle_ranges(units):
            failures.append({"kind": "illformed", "lang": rr["lang"], "clauses": ["ranges_disjoint"], "detail": {}, "cid": rr["cid"]})
    return failures


def case_to_json(case):
    return {"cid": case["cid"], "lang": case["lang"], "timeout": case.get("timeout", 20),
            "files": [[n, d.decode("latin-1")] for n, d in case["files"]], "encoding": "latin-1 (bytes preserved)",
            "origins": {n: case.get("origins", {}).get(os.path.basename(n)) for n, _ in case["files"]}}


def case_from_json(j):
    return {"cid": j["cid"], "lang": j["lang"], "timeout": j.get("timeout", 20),
            "files": [[n, d.encode("latin-1")] for n, d in j["files"]]}


# --------------------------------------------------------------------------------------------------
# run
# --------------------------------------------------------------------------------------------------
def chunked(reqs, size=4000):
    out = []
    for i in range(0, len(reqs), size):
        out += drv_ok(drv_batch(reqs[i:i + size]))
    return out


def tie_a(ctx, P, proofs_ok):
    tier = ctx.tier
    trees = []
    cdir = os.path.join(common.VERIF, "corpus", "C03")
    n_corpus = 0
    if os.path.isdir(cdir):
        for f in sorted(os.listdir(cdir)):
            j = json.load(open(os.path.join(cdir, f)))
            if j.get("kind") == "tree":
                trees.append((j["n"], j["tree"])); n_corpus += 1
    n_exh = 0
    for t in c03gen.exhaustive_trees(3 if tier == "quick" else 4):
        trees.append((120, t)); n_exh += 1
    n_rand = 4000 if tier == "quick" else 120000
    for _ in range(n_rand):
        trees.append((ctx.rng.choice([1, 10, 120, 120, 130, 0, 99991]), c03gen.gen_tree(ctx.rng)))
    reqs, keep = [], []
    oof = 0
    for n, t in trees:
        try:
            reqs.append({"m": "flatten", "op": "one", "n": n, "tree": enc_tree(t), "params": P})
            keep.append((n, t))
        except OutOfFragment:
            oof += 1
    model = chunked(reqs)
    stats = collections.Counter()
    corr, failing, wf_inputs = [], [], []
    seen = set()
    nontriv = 0
    for (n, t), m in zip(keep, model):
        r = real_flatten(n, t)
        ctx.cov["evaluations"] += 1
        stats[r["res"]] += 1
        stats["wfgir" if m["wfgir"] else "not_wfgir"] += 1
        key = hashlib.sha1(json.dumps([n, t], sort_keys=False, default=str).encode()).hexdigest()
        if m["res"] == "err:unrepresentable":
            stats["model_unrepresentable"] += 1
            continue
        same = r["res"] == m["res"] and (r["res"] != "ok" or (r["next"] == m["next"] and r["rows"] == m["rows"] and r["main"] == m["main"]))
        if not same:
            corr.append({"n": n, "tree": t, "real": r, "model": m})
        if r["res"] == "ok":
            if key not in seen and len(r["rows"]) > 1:
                nontriv += 1
            if any(w["op"] == "block_start" for w in r["rows"]):
                stats["with_blocks"] += 1
            if r["main"] != r["rows"]:
                stats["main_func_added"] += 1
            if any(k == "original_stmt" for w in r["rows"] for k, _ in w["a"]):
                stats["original_stmt_patched"] += 1
            if m["wfgir"] and n >= 1 and isinstance(r["main"], list):
                wf_inputs.append((n, t, r))
        elif m["wfgir"]:
            failing.append({"what": "flatten fails on a WfGir tree", "n": n, "tree": t, "real": r})
        seen.add(key)
    # the WF verdict on the REAL rows of WfGir trees: Lean checker and Python oracle
    reqs = []
    for n, t, r in wf_inputs:
        reqs.append({"m": "wfcheck", "units": [[keep_row(w) for w in r["rows"]]], "params": P})
        reqs.append({"m": "wfcheck", "units": [[keep_row(w) for w in r["main"]]], "params": P})
    lean = chunked(reqs)
    disagreements = []
    for i, (n, t, r) in enumerate(wf_inputs):
        for j, which in enumerate(("rows", "main")):
            rows = [keep_row(w) for w in r[which]]
            cl, det = oracle_unit(rows, P)
            lv = lean[2 * i + j]
            if lv["units"][0] != cl:
                disagreements.append({"rows": rows, "lean": lv, "oracle": cl})
            # flatten alone guarantees everything except the clauses add_main_func establishes
            relevant = [c for c in cl if which == "main" or c not in ("top_decl", "exec_in_method")]
            relevant = [c for c in relevant if c != "exec_in_method"]   # depends on the tree, not on the passes
            if any(w["op"] == "method_decl" and w["p"] == 0 and next((v for k, v in w["a"] if k == "name"), None) == P["unitInit"]
                   for w in r["rows"]):
                relevant = [c for c in relevant if c != "one_init"]      # the tree already declares `%unit_init` (hypothesis of C03_main_func_one_init)
            if relevant:
                failing.append({"what": f"real {which} rows of a WfGir tree are not well-formed", "n": n, "tree": t,
                                "clauses": cl, "detail": det, "real": r})
            ctx.cov["evaluations"] += 1
    # adjust_node_id, exhaustively on a range
    ns = list(range(0, 3000)) + [10 ** 6 + k for k in range(30)]
    madj = drv_ok(drv_batch([{"m": "flatten", "op": "adjust", "ns": ns, "params": P}]))[0]
    radj = real_adjust(ns)
    if madj != radj:
        k = next(i for i in range(len(ns)) if madj[i] != radj[i])
        corr.append({"what": "adjust_node_id", "n": ns[k], "real": radj[k], "model": madj[k]})
    ctx.cov["evaluations"] += len(ns)
    ctx.cov["distinct_nontrivial"] += nontriv
    ctx.cov["tie_a"] = {"corpus": n_corpus, "exhaustive": n_exh, "random": n_rand, "out_of_fragment": oof,
                        "outcomes": dict(stats), "differences": len(corr), "wf_checked": 2 * len(wf_inputs),
                        "checker_vs_oracle_disagreements": len(disagreements), "adjust_points": len(ns)}
    ctx.cov["disagreements_checked"] = ctx.cov.get("disagreements_checked", 0) + len(keep) + 2 * len(wf_inputs)
    ctx.cov["samples"].append({"tie": "a", "n": keep[n_corpus + 5][0], "tree": keep[n_corpus + 5][1],
                               "real": real_flatten(*keep[n_corpus + 5])})
    return corr, failing, disagreements


def corrupt_rows(rng, rows):
    """a small random corruption of a well-formed table (to show the checker is not vacuous and agrees
    with the oracle on ill-formed tables)."""
    rows = [dict(w, a=list(w["a"])) for w in rows]
    if not rows:
        return rows, "none"
    k = rng.choice(["drop", "dup", "swap", "parent", "id", "op", "attr"])
    i = rng.randrange(len(rows))
    if k == "drop":
        del rows[i]
    elif k == "dup":
        rows.insert(i, dict(rows[i]))
    elif k == "swap" and len(rows) > 1:
        j = rng.randrange(len(rows)); rows[i], rows[j] = rows[j], rows[i]
    elif k == "parent":
        rows[i]["p"] = rng.choice([0, rows[rng.randrange(len(rows))]["id"], rows[i]["p"] + 1])
    elif k == "id":
        rows[i]["id"] = rng.choice([0, rows[rng.randrange(len(rows))]["id"], rows[i]["id"] + 1000])
    elif k == "op":
        rows[i]["op"] = rng.choice(["block_start", "block_end", "assign_stmt", "x_decl", "method_decl"])
    elif k == "attr":
        if rows[i]["a"]:
            j = rng.randrange(len(rows[i]["a"]))
            kk, v = rows[i]["a"][j]
            rows[i]["a"][j] = [kk, (v + 1) if isinstance(v, int) else 7]
        else:
            rows[i]["a"].append(["body", rng.choice([1, rows[i]["id"]])])
    return rows, k


def tie_b(ctx, P):
    import multiprocessing as mp
    tier = ctx.tier
    sizes = ({"corpus_frac": 0.6, "real": 8, "generated": 10, "mutants": 90, "pack": 25, "timeout": 15}
             if tier == "quick" else
             {"corpus_frac": 1.0, "real": 100, "generated": 150, "mutants": 1500, "pack": 25, "timeout": 40})
    cases, cstats = build_cases(ctx, sizes)
    cdir = os.path.join(common.VERIF, "corpus", "C03")
    corpus_cases = []
    if os.path.isdir(cdir):
        for f in sorted(os.listdir(cdir)):
            j = json.load(open(os.path.join(cdir, f)))
            if j.get("kind") == "source":
                c = case_from_json(j["case"]); c["kind"] = "corpus-witness"; c["cid"] = "witness/" + f
                corpus_cases.append(c)
    cases = corpus_cases + cases
    scratch = os.path.join(common.SCRATCH_ROOT, f"lv-{os.getpid()}")
    os.makedirs(scratch, exist_ok=True)
    _SCRATCH[0] = scratch
    nproc = min(16, os.cpu_count() or 4)
    t0 = time.time()
    try:
        with mp.get_context("spawn").Pool(nproc, initializer=worker_init, initargs=(common.REPO, scratch), maxtasksperchild=400) as pool:
            results = pool.map(run_case, cases, chunksize=4)
    finally:
        pass
    by_cid = {c["cid"]: c for c in cases}
    cov = {"status": collections.Counter(), "by_lang": collections.defaultdict(collections.Counter),
           "crash_sites": collections.Counter(), "units_checked": 0, "rows_checked": 0, "model_out_of_fragment": 0,
           "frontend_raised_units": 0, "pass_recursion_limit": 0, "frontend_raised": collections.Counter()}
    failures, wf_reqs, run_reqs = judge_results(results, P, cov)
    # ---- certified checker on the REAL rows (+ independent oracle, + real consumers)
    lean = chunked([{"m": "wfcheck", "units": units, "params": P} for _, units in wf_reqs], 300)
    disagreements = []
    consumer_fail = 0
    clause_hits = collections.Counter()
    wf_units = []
    for (r, units), lv in zip(wf_reqs, lean):
        o_units = [oracle_unit(u, P) for u in units]
        o_ranges = oracle_ranges(units)
        if [c for c, _ in o_units] != lv["units"] or o_ranges != lv["ranges"]:
            disagreements.append({"cid": r["cid"], "lean": lv, "oracle": [c for c, _ in o_units], "oracle_ranges": o_ranges})
        paths = {u["uid"]: u["path"] for u in r["units"]}
        for ui, (u, (cl, det)) in enumerate(zip(units, o_units)):
            ctx.cov["evaluations"] += 1
            if lv["units"][ui] or cl:
                cls = sorted(set(cl) | set(lv["units"][ui]), key=CLAUSES.index)
                failures.append({"kind": "illformed", "lang": r["lang"], "clauses": cls, "detail": det, "cid": r["cid"],
                                 "path": paths.get(r["bundle"][ui][0])})
                for c in cls:
                    clause_hits[c] += 1
            else:
                wf_units.append(u)
                if "nested" not in cl:
                    msg = consumers_ok(u) if len(u) < 4000 else None
                    if msg:
                        consumer_fail += 1
                        failures.append({"kind": "consumer", "lang": r["lang"], "msg": msg, "cid": r["cid"], "clauses": ["consumers_total"]})
        if not (lv["ranges"] and o_ranges):
            failures.append({"kind": "illformed", "lang": r["lang"], "clauses": ["ranges_disjoint"], "detail": {}, "cid": r["cid"]})
            clause_hits["ranges_disjoint"] += 1
    # ---- checker vs oracle on corrupted real tables
    crng = ctx.rng
    sample = [wf_units[crng.randrange(len(wf_units))] for _ in range(min(len(wf_units), 300 if tier == "quick" else 5000))] if wf_units else []
    corrupted = [corrupt_rows(crng, u) for u in sample if len(u) < 1500]
    lean_c = chunked([{"m": "wfcheck", "units": [u], "params": P} for u, _ in corrupted], 300)
    rejected = collections.Counter()
    for (u, k), lv in zip(corrupted, lean_c):
        cl, _ = oracle_unit(u, P)
        ctx.cov["evaluations"] += 1
        if cl != lv["units"][0]:
            disagreements.append({"corrupted": k, "rows": u, "lean": lv, "oracle": cl})
        rejected["rejected" if cl else "still_wf"] += 1
        for c in cl:
            rejected[c] += 1
    # ---- models of the consumers vs the real consumers (well-formed and corrupted real tables)
    ctabs = [u for u, _ in corrupted] + [u for u in sample[:len(corrupted)] if len(u) < 1500]
    creqs, cblocks = [], []
    for u in ctabs:
        bl = sorted({w["id"] for w in u if w["op"] == "block_start" and w["id"] != 0})[:8]
        cblocks.append(bl)
        creqs.append({"m": "wfcheck", "op": "consumers", "rows": u, "blocks": bl})
    cmodel = chunked(creqs, 300)
    corr_c = []
    cstats = collections.Counter()
    for u, bl, m in zip(ctabs, cblocks, cmodel):
        rc = real_consumers(u, bl)
        ctx.cov["evaluations"] += 1
        cstats[rc["viewer"]] += 1
        if rc != m:
            corr_c.append({"what": "consumer models differ from GIRBlockViewer / read_block", "rows": u, "blocks": bl, "real": rc, "model": m})
    # ---- model langRun on the captured trees must reproduce the bundle
    reqs = []
    for r in run_reqs:
        us = [[u["uid"], ({"raised": u["raised"]} if u.get("raised") and not u.get("has_rows") else
                          (u["flat"]["tree"] if u["flat"] else None))] for u in r["units"]]
        cov["frontend_raised_units"] += sum(1 for u in r["units"] if u.get("raised"))
        reqs.append({"m": "flatten", "op": "run", "start": r["units"][0]["n"], "units": us, "params": P})
    model = chunked(reqs, 300)
    corr = []
    frag, frag_samples = collections.Counter(), []
    for r, m in zip(run_reqs, model):
        ctx.cov["evaluations"] += 1
        if m["res"] == "err:unrepresentable":
            cov["model_out_of_fragment"] += 1
            continue
        if m["res"] != "ok":
            corr.append({"cid": r["cid"], "what": "model stops with " + m["res"] + " where the real phase completed"})
            continue
        for flag, u in zip(m.get("wfgir", []), r["units"]):
            if flag is True:
                frag["wfgir"] += 1
            elif flag is False:
                frag["not_wfgir"] += 1
                if len(frag_samples) < 5:
                    frag_samples.append(r["cid"] + ":" + u["path"])
        real = {uid: sorted(canon_unordered(w) for w in rows) for uid, rows in r["bundle"]}
        mod = {uid: sorted(canon_unordered({"op": w["op"], "id": w["id"], "p": w["p"], "a": w["a"]}) for w in rows) for uid, rows in m["units"]}
        if real != mod:
            bad = next(uid for uid in sorted(set(real) | set(mod)) if real.get(uid) != mod.get(uid))
            a, b = real.get(bad) or [], mod.get(bad) or []
            k = next((i for i in range(min(len(a), len(b))) if a[i] != b[i]), min(len(a), len(b)))
            corr.append({"cid": r["cid"], "what": "model rows differ from the bundle", "unit": bad,
                         "real_row": a[k] if k < len(a) else None, "model_row": b[k] if k < len(b) else None})
        # order of rows inside each unit (the comparison above is order-free because of the column union)
        for uid, rows in r["bundle"]:
            mrows = next((x[1] for x in m["units"] if x[0] == uid), [])
            if [w["id"] for w in rows] != [w["id"] for w in mrows] and real.get(uid) == mod.get(uid):
                corr.append({"cid": r["cid"], "what": "row order differs", "unit": uid})
    # ---- handler coverage of the frontends' dispatch tables (measured: successful look-ups during this run)
    hits, seen = collections.defaultdict(set), collections.defaultdict(set)
    for r in results:
        hits[r["lang"]].update(r.get("hits", []))
        seen[r["lang"]].update(r.get("seen", []))
    handlers, uncovered = {}, {}
    for lang in sorted(LANGS):
        tabs = handler_universe(lang)
        uni = set().union(*tabs.values()) if tabs else set()
        lit = set().union(*[set(v) for k, v in tabs.items() if "LITERAL" in k.upper()]) if tabs else set()
        covered = (uni & hits[lang]) | (lit & seen[lang])
        handlers[lang] = {"tables": {k: len(v) for k, v in tabs.items()}, "handler_node_types": len(uni),
                          "dispatched_or_seen_literal": len(covered), "node_types_seen_in_inputs": len(seen[lang])}
        uncovered[lang] = sorted(uni - covered)
    ctx.cov["handlers"] = handlers
    ctx.cov["uncovered"] = uncovered
    ndist = len({hashlib.sha1(json.dumps(u, sort_keys=True).encode()).hexdigest() for u in wf_units if len(u) > 3})
    ctx.cov["distinct_nontrivial"] += ndist
    ctx.cov["tie_b"] = {"cases": dict(cstats), "witness_cases": len(corpus_cases), "status": dict(cov["status"]),
                        "by_lang": {k: dict(v) for k, v in cov["by_lang"].items()},
                        "crash_sites": dict(cov["crash_sites"]), "units_checked": cov["units_checked"],
                        "rows_checked": cov["rows_checked"], "clause_failures": dict(clause_hits),
                        "model_runs_compared": len(run_reqs), "model_out_of_fragment": cov["model_out_of_fragment"],
                        "fragment": {"real_trees_in_WfGir": frag["wfgir"], "real_trees_outside_WfGir": frag["not_wfgir"],
                                     "outside_samples": frag_samples},
                        "model_differences": len(corr), "checker_vs_oracle_disagreements": len(disagreements),
                        "frontend_raised_units_skipped": cov["frontend_raised_units"],
                        "frontend_raised_by_class": dict(cov["frontend_raised"]),
                        "units_skipped_by_recursion_limit_in_passes": cov["pass_recursion_limit"],
                        "corrupted_tables": dict(rejected), "consumer_failures": consumer_fail,
                        "consumer_model_compared": len(ctabs), "consumer_model_differences": len(corr_c),
                        "consumer_outcomes": dict(cstats),
                        "pool_wall_s": round(time.time() - t0, 1), "workers": nproc}
    ctx.cov["programs"] = ctx.cov.get("programs", 0) + len(results)
    ctx.cov["disagreements_checked"] = ctx.cov.get("disagreements_checked", 0) + len(wf_reqs) + len(corrupted) + len(run_reqs)
    ok_res = next((r for r in results if r["status"] == "ok" and r.get("bundle")), None)
    if ok_res:
        ctx.cov["samples"].append({"tie": "b", "cid": ok_res["cid"], "units": [[uid, len(rows)] for uid, rows in ok_res["bundle"]],
                                   "first_rows": ok_res["bundle"][0][1][:4]})
    shutil.rmtree(scratch, ignore_errors=True)
    return failures, corr + corr_c, disagreements, by_cid


def run(ctx):
    try:
        _run(ctx)
    finally:
        shutil.rmtree(os.path.join(common.SCRATCH_ROOT, f"lv-{os.getpid()}"), ignore_errors=True)


def _run(ctx):
    common.use_repo()
    assert_lian_from_repo()
    proofs_ok = ctx.proofs()
    P, notes = extract_params()
    _P_CACHE[0] = P
    ctx.cov["params"] = P
    ctx.cov["param_notes"] = notes
    ctx.cov["fingerprints"] = fingerprints()
    ctx.cov["exhaustive"] = True
    ctx.cov["rule"] = (
        "tie (a): corpus trees + ALL top-level sequences of length <= %d over a 21-statement alphabet (atoms, one-level "
        "compounds, malformed statements) + random trees (depth <= 4, <= 5 statements per list, attribute values from "
        "{str,int,None,[],plain list,block,dict(malformed)}, reserved/duplicate keys, non-dict statements) through real "
        "flatten+add_main_func vs model, exact rows; adjust_node_id on 0..2999. tie (b): every source file under tests/ "
        "(outside real_cases, plus a sample of real_cases) for c/go/java/javascript/php/python/typescript, generated "
        "programs, byte-level mutants (delete/insert/transpose/truncate/dup, 1-3 edits) of both, multi-file projects; "
        "each through the real in-process `lang` phase; real bundle rows judged by Lean wfCheck + Python oracle + real "
        "GIRBlockViewer/DataModel.read_block; model langRun vs bundle. distinct_nontrivial = distinct trees giving > 1 "
        "row (a) + distinct well-formed real units with > 3 rows (b)." % (3 if ctx.tier == "quick" else 4))

    corr_a, failing_a, dis_a = tie_a(ctx, P, proofs_ok)
    failures, corr_b, dis_b, by_cid = tie_b(ctx, P)

    # ---- verdicts
    reported = False
    for f in failing_a[:3]:
        ctx.violation({"kind": "tree", **f})
        reported = True
    sigs = {}
    for f in failures:
        sigs.setdefault(failure_signature(f), []).append(f)
    unknown = []
    for sig, fs in sorted(sigs.items()):
        f = fs[0]
        fid = match_known(ctx.findings, f)
        if fid:
            for _ in fs:
                ctx.known(fid, f.get("msg") or f"{f['lang']}: clauses {f.get('clauses')} fail on {f['cid']}:{f.get('path')}")
        else:
            unknown.append((sig, fs))
    for sig, fs in unknown[:6]:
        f = fs[0]
        case = by_cid.get(f["cid"])
        small = case
        try:
            if case is not None and f["kind"] in ("crash", "exit", "illformed", "pass-exception", "bundle-unreadable",
                                                  "bundle-not-written", "units-missing"):
                small = shrink_source(case, sig, budget=100 if ctx.tier == "quick" else 400, path=f.get("path"))
        except Exception:
            small = case
        ctx.violation({"kind": "source", "what": f.get("msg") or f"real GIR rows fail {f.get('clauses')}",
                       "failure": {k: v for k, v in f.items() if k != "detail"}, "detail": f.get("detail"),
                       "signature": sig, "occurrences_in_run": len(fs), "case": case_to_json(small) if small else None})
        reported = True
    if len(unknown) > 6:
        ctx.cov["unreported_failure_signatures"] = [s for s, _ in unknown[6:]]
    if not reported:
        broken = []
        if not proofs_ok:
            broken.append({"theorems": ctx.audit["failures"]})
        if corr_a:
            broken.append({"correspondence": "LianVerif.Gir.flatten / MainFunc.addMainFunc / LangRun.adjustNodeId vs real passes",
                           "first": corr_a[0], "count": len(corr_a)})
        if corr_b:
            broken.append({"correspondence": "LianVerif.LangRun.langRun vs frontend/gir.bundle* / LianVerif.Consumers vs GIRBlockViewer, read_block",
                           "first": corr_b[0], "count": len(corr_b)})
        if dis_a or dis_b:
            broken.append({"correspondence": "Lean wfCheck vs Python oracle", "first": (dis_a + dis_b)[0], "count": len(dis_a) + len(dis_b)})
        if broken:
            ctx.violation({"what": "proof obligation or correspondence broken; no ill-formed GIR, crash or consumer failure was "
                                   "found on any input of this run (all tie-(a) trees, all corpus files, generated programs, mutants, projects)",
                           "broken": broken}, no_input=True)


def replay(rp):
    common.use_repo()
    P, _ = extract_params()
    _P_CACHE[0] = P
    if rp.get("kind") == "tree":
        r = real_flatten(rp["n"], rp["tree"])
        bad = r["res"] != "ok"
        cl = []
        if not bad:
            for which in ("rows", "main"):
                c, _ = oracle_unit([keep_row(w) for w in r[which]], P)
                c = [x for x in c if x != "exec_in_method" and (which == "main" or x != "top_decl")]
                if any(w["op"] == "method_decl" and w["p"] == 0 and next((v for k, v in w["a"] if k == "name"), None) == P["unitInit"]
                       for w in r["rows"]):
                    c = [x for x in c if x != "one_init"]
                cl += c
        print(json.dumps({"real": r["res"], "failed_clauses": cl}))
        return 1 if (bad or cl) else 0
    if rp.get("kind") == "source" and rp.get("case"):
        case = case_from_json(rp["case"])
        try:
            fs = failures_of_case(case)
        finally:
            shutil.rmtree(_SCRATCH[0], ignore_errors=True)
        print(json.dumps({"failures": [{k: v for k, v in f.items() if k != "detail"} for f in fs]}, default=str))
        return 1 if fs else 0
    print(json.dumps({"note": "replay file names a broken proof obligation / correspondence, there is no input to re-run"}))
    return 1
