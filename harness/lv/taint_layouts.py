"""Second program generator for the end-to-end part of C10 (tie e): LAYOUT programs.

Where taint_progs.py varies statements and rule kinds inside one or two files, this generator varies how a flow is laid
out over statements, functions, classes and files, with call sources / call sinks only:

  S  several sources on one line (`x = src0() + src1()`, `y = src0(); z = src1()`) and several sinks on one line
     (`sink0(x); sink1(x)`), also inside helpers and as call arguments
  R  helpers with 2-3 return statements in every combination of tainted / clean per return (source inside the helper
     returned directly or through a local, tainted parameter, constant), in guard / if-else / nested form, conditions
     passed in or decided inside, called directly, through a relay, as a method, from another file
  K  class hierarchies of depth 1-3 spread over 1-3 files in BOTH file-name orders (base sorts before / after the
     derived class's file): inherited constructor, inherited methods that carry the flow (source in a base method, sink
     in a base / derived method or in the caller), methods of a derived class calling inherited ones, overriding,
     classes imported under an alias, instantiation at module level or inside a function

Every source / sink callee name occurs exactly ONCE in a program, so a flow is identified by its source STATEMENT and
its sink STATEMENT; the statement's position (file, line, column) is taken from the text and must agree with the
position lian records for the statement.

Ground truth = the SAME text executed by CPython (no projection): `srcN()` returns a fresh marker object, `+` of
markers unions their origins, `sinkN(a, ...)` records the origins of its first argument, `c()` takes its value from a
decision vector; union over all decision vectors.  Every (source, sink) pair observed must be reported.

Left out on purpose (recorded defects of the call-graph layer that would hide everything else): `import m` + `m.X`
(C07/import-module-attribute-call), `super()` (C07/super-call), more than two calls of one helper (call-site budget).
"""
import builtins, importlib, itertools, os, re, sys


class LCase:
    def __init__(self, idx):
        self.idx = idx
        self.files = {}        # file name -> text
        self.main = None       # file name of the program's entry file
        self.features = set()
        self.sites = {}        # callee name -> (file, line, col)   (line 1-based, col 0-based)
        self.n_src = 0
        self.n_sink = 0
        self.n_tink = 0


# sinkN designates its FIRST argument, tinkN its SECOND one
SITE_RE = re.compile(r"\b(src|sink|tink)(\d+)\(")


def designated_index(name):
    return 1 if name.startswith("tink") else 0


def find_sites(files):
    sites = {}
    for fn, text in files.items():
        for ln, line in enumerate(text.split("\n"), 1):
            for m in SITE_RE.finditer(line):
                name = m.group(1) + m.group(2)
                if name in sites:
                    raise ValueError(f"callee {name} occurs twice")
                sites[name] = (fn, ln, m.start())
    return sites


class LGen:
    ROLES = ["lib1", "lib2", "main"]

    def __init__(self, rng, idx):
        self.rng = rng
        self.idx = idx
        self.case = LCase(idx)
        self.p = f"l{idx:03d}"
        letters = rng.sample(["a", "b", "m", "n", "y", "z"], 3)
        self.layout = rng.choice(["single", "two", "two", "three", "three"])
        self.mod = {"lib1": f"{self.p}_{letters[0]}_base", "lib2": f"{self.p}_{letters[1]}_mid", "main": f"{self.p}_{letters[2]}_main"}
        self.defs = {r: [] for r in self.ROLES}      # definition lines per role
        self.body = []                               # main body lines
        self.imports = {r: [] for r in self.ROLES}   # (module, name, alias or None)
        self.n = 0
        self.force_literals = False

    # ---- names
    def src(self):
        n = f"src{self.case.n_src}"
        self.case.n_src += 1
        return n + "()"

    def sink(self, arg):
        n = f"sink{self.case.n_sink}"
        self.case.n_sink += 1
        return f"{n}({arg})"

    def tink(self, a0, a1):
        n = f"tink{self.case.n_tink}"
        self.case.n_tink += 1
        return f"{n}({a0}, {a1})"

    def fresh(self, prefix):
        self.n += 1
        return f"{prefix}{self.idx}_{self.n}"

    def role(self, want):
        """the role a definition really goes to under the case's layout"""
        if self.layout == "single":
            return "main"
        if self.layout == "two" and want == "lib2":
            return "lib1"
        return want

    def use(self, at_role, def_role, name):
        """make `name` (defined in def_role) visible in at_role; returns the local name"""
        if at_role == def_role:
            return name
        alias = None
        if self.rng.random() < 0.35:
            alias = self.fresh("A")
            self.case.features.add("import-alias")
        self.imports[at_role].append((self.mod[def_role], name, alias))
        self.case.features.add("cross-file")
        return alias or name

    # ---- S: several sources / sinks on one line
    def scen_same_line(self):
        rng, c = self.rng, self.case
        v = rng.choice(["sum", "par", "args", "ret"])
        c.features.add("sameline-" + v)
        ns, nk = rng.choice([1, 2, 2, 3]), rng.choice([1, 2, 2, 3])
        if ns == 1 and nk == 1:
            ns = 2
        x = self.fresh("x")
        if v == "sum":
            self.body.append(f"{x} = " + " + ".join(self.src() for _ in range(ns)))
            self.body.append("; ".join(self.sink(x) for _ in range(nk)))
        elif v == "par":
            n = max(ns, nk, 2)
            vs = [f"{x}_{i}" for i in range(n)]
            self.body.append("; ".join(f"{vv} = {self.src()}" for vv in vs))
            if rng.random() < 0.5:
                rng.shuffle(vs)
            self.body.append("; ".join(self.sink(vv) for vv in vs))
        elif v == "args":
            n = max(ns, 2)
            h = self.fresh("h")
            r = self.role(rng.choice(["main", "lib1"]))
            ps = [f"p{i}" for i in range(n)]
            self.defs[r] += [f"def {h}({', '.join(ps)}):", "    " + "; ".join(self.sink(pp) for pp in ps)]
            hn = self.use("main", r, h)
            self.body.append(f"{hn}(" + ", ".join(self.src() for _ in range(n)) + ")")
        else:
            h = self.fresh("h")
            r = self.role(rng.choice(["main", "lib1", "lib2"]))
            self.defs[r] += [f"def {h}():", "    return " + " + ".join(self.src() for _ in range(max(ns, 2)))]
            hn = self.use("main", r, h)
            self.body.append(f"{x} = {hn}()")
            self.body.append("; ".join(self.sink(x) for _ in range(max(nk, 1))))

    # ---- L: literal operands at and beside the designated sink position (id-collision stress)
    def scen_literals(self):
        """`sinkN(<lit>, x)` / `tinkN(<lit>, x)` / `sinkN(x, <lit>)` / `tinkN(x, <lit>)` / literal-only calls, ~40 of them,
        over a few tainted and clean variables: each literal is a STATE operand whose state id lies in the range of
        the symbol ids, at the designated position of the rule or next to it.  A flow must be reported exactly when the
        DESIGNATED argument is a tainted variable; a sink whose designated argument is a literal is never a flow."""
        rng, c = self.rng, self.case
        c.features.add("literal-stress")
        nv = rng.randint(2, 4)
        vs = []
        for i in range(nv):
            v = self.fresh("v")
            self.body.append(f"{v} = {self.src()}" if i < 2 or rng.random() < 0.6 else f"{v} = {rng.randint(0, 99)}")
            vs.append(v)
        lits = rng.sample(range(100, 999), 90)
        for _ in range(rng.randint(34, 44)):
            def lit():
                n = lits.pop()
                return str(n) if rng.random() < 0.7 else repr("s%d" % n)
            form = rng.random()
            v = rng.choice(vs)
            if form < 0.3:
                a0, a1 = lit(), v
            elif form < 0.6:
                a0, a1 = v, lit()
            elif form < 0.85:
                a0, a1 = lit(), lit()
            else:
                a0, a1 = v, rng.choice(vs)
            if rng.random() < 0.5:
                self.body.append(self.sink(f"{a0}, {a1}"))
            else:
                self.body.append(self.tink(a0, a1))

    # ---- R: helpers with several returns
    def scen_returns(self):
        rng, c = self.rng, self.case
        nret = rng.choice([2, 2, 3])
        struct = rng.choice(["guards", "ifelse", "nested"]) if nret == 3 else rng.choice(["guards", "ifelse"])
        kinds = [rng.choice(["tsrc", "tsrc", "tloc", "tpar", "clean", "clean"]) for _ in range(nret)]
        if all(k == "clean" for k in kinds) and rng.random() < 0.85:
            kinds[rng.randrange(nret)] = rng.choice(["tsrc", "tloc"])
        cond_mode = rng.choice(["param", "param", "inline"])
        c.features.add(f"returns-{nret}-{struct}-{cond_mode}")
        c.features.add("returns-" + "".join("T" if k != "clean" else "c" for k in kinds))
        ncond = nret - 1
        params = [f"k{i}" for i in range(ncond)] if cond_mode == "param" else []
        if "tpar" in kinds:
            params.append("p")
        conds = [(f"k{i}" if cond_mode == "param" else "c()") for i in range(ncond)]

        def ret(i):
            k = kinds[i]
            if k == "tsrc":
                return [f"return {self.src()}"]
            if k == "tloc":
                return [f"t{i} = {self.src()}", f"return t{i}"]
            if k == "tpar":
                return ["return p"]
            return rng.choice([['return "c"'], ["return 0"], [f"u{i} = 0", f"return u{i}"]])

        def ind(lines, n=1):
            return ["    " * n + l for l in lines]

        body = []
        if struct == "guards":
            for i in range(nret - 1):
                body += [f"if {conds[i]}:"] + ind(ret(i))
            body += ret(nret - 1)
        elif struct == "ifelse":
            body += [f"if {conds[0]}:"] + ind(ret(0))
            if nret == 3:
                body += [f"elif {conds[1]}:"] + ind(ret(1))
            body += ["else:"] + ind(ret(nret - 1))
        else:
            body += [f"if {conds[0]}:"] + ind([f"if {conds[1]}:"] + ind(ret(0)) + ret(1))
            body += ret(2)
        as_method = rng.random() < 0.25
        r = self.role(rng.choice(["main", "lib1", "lib1", "lib2"]))
        h = self.fresh("h")
        if as_method:
            c.features.add("returns-method")
            cls = self.fresh("H")
            self.defs[r] += [f"class {cls}:", f"    def {h}(self{''.join(', ' + p for p in params)}):"] + ind(body, 2)
            cn = self.use("main", r, cls)
            obj = self.fresh("o")
            self.body.append(f"{obj} = {cn}()")
            callee = f"{obj}.{h}"
        else:
            self.defs[r] += [f"def {h}({', '.join(params)}):"] + ind(body)
            callee = None
        # optional relay (possibly in another file)
        relay = (not as_method) and rng.random() < 0.35
        if relay:
            c.features.add("returns-relay")
            r2 = self.role(rng.choice(["main", "lib2", "lib1"]))
            if self.ROLES.index(r2) < self.ROLES.index(r):
                r2 = r
            g = self.fresh("g")
            hn = self.use(r2, r, h)
            if rng.random() < 0.5:
                self.defs[r2] += [f"def {g}({', '.join(params)}):", f"    return {hn}({', '.join(params)})"]
            else:
                self.defs[r2] += [f"def {g}({', '.join(params)}):", f"    r0 = {hn}({', '.join(params)})", "    return r0"]
            callee = self.use("main", r2, g)
        elif not as_method:
            callee = self.use("main", r, h)
        args = ["c()" for _ in range(ncond)] if cond_mode == "param" else []
        if "tpar" in kinds:
            if rng.random() < 0.5:
                args.append(self.src())
            else:
                a = self.fresh("a")
                self.body.append(f"{a} = {self.src()}")
                args.append(a)
        res = self.fresh("r")
        self.body.append(f"{res} = {callee}({', '.join(args)})")
        if rng.random() < 0.3:
            self.body.append("; ".join(self.sink(res) for _ in range(2)))
        else:
            self.body.append(self.sink(res))

    # ---- K: class hierarchies over files
    def scen_classes(self):
        rng, c = self.rng, self.case
        depth = rng.choice([1, 2, 2, 2, 3, 3])
        names = [self.fresh("C") for _ in range(depth)]
        # roles along the chain are monotone (lib1 <= lib2 <= main): no import cycles
        ridx = sorted(rng.choice([0, 0, 1, 2]) for _ in range(depth))
        roles = [self.role(self.ROLES[i]) for i in ridx]
        c.features.add(f"class-depth{depth}")
        if len(set(roles)) > 1:
            c.features.add("class-inherit-across-files")
            for i in range(1, depth):
                if roles[i] != roles[i - 1]:
                    a, b = self.mod[roles[i - 1]], self.mod[roles[i]]
                    c.features.add("class-base-file-first" if a < b else "class-derived-file-first")
        meths = {i: [] for i in range(depth)}     # level -> list of method line blocks
        main = []
        obj = self.fresh("o")
        feats = [f for f in ["ctor", "run", "make", "relay"] if rng.random() < 0.6] or ["run", "make"]
        lvl = lambda: rng.randrange(depth)
        low = lambda a: rng.randrange(a + 1, depth) if a + 1 < depth else None
        ctor_arg = ""
        if "ctor" in feats:
            a, b = lvl(), lvl()
            meths[a].append(["def __init__(self, v):", "    self.v = v"])
            meths[b].append(["def show(self):", "    " + self.sink("self.v")])
            ctor_arg = self.src()
            main.append([f"{obj}.show()"])
            c.features.add("class-ctor-inherited" if a < depth - 1 else "class-ctor-own")
        if "run" in feats:
            a = lvl()
            meths[a].append(["def run(self, x):", "    " + self.sink("x")])
            l2 = low(a)
            if l2 is not None and rng.random() < 0.3:
                meths[l2].append(["def run(self, x):", "    " + self.sink("x")])       # override: the lower one wins
                c.features.add("class-override")
            l3 = low(a)
            if l3 is not None and rng.random() < 0.4:
                meths[l3].append(["def go(self, x):", "    self.run(x)"])
                main.append([f"{obj}.go({self.src()})"])
                c.features.add("class-self-call-inherited")
            else:
                main.append([f"{obj}.run({self.src()})"])
            if a < depth - 1:
                c.features.add("class-method-inherited")
        if "make" in feats:
            a = lvl()
            meths[a].append(["def make(self):", "    return " + self.src()])
            t = self.fresh("t")
            l3 = low(a)
            if l3 is not None and rng.random() < 0.4:
                meths[l3].append(["def mk(self):", "    return self.make()"])
                grp = [f"{t} = {obj}.mk()"]
                c.features.add("class-self-call-inherited")
            else:
                grp = [f"{t} = {obj}.make()"]
            main.append(grp + [self.sink(t)])
            if a < depth - 1:
                c.features.add("class-method-inherited")
        if "relay" in feats:
            a = lvl()
            meths[a].append(["def relay(self, x):", "    return x"])
            u = self.fresh("u")
            main.append([f"{u} = {obj}.relay({self.src()})", self.sink(u)])
        for i in range(depth):
            base = ""
            if i > 0:
                base = "(" + self.use(roles[i], roles[i - 1], names[i - 1]) + ")"
            lines = [f"class {names[i]}{base}:"]
            ms = meths[i]
            rng.shuffle(ms)
            if not ms:
                lines.append("    pass")
            for m in ms:
                lines += ["    " + l for l in m]
            self.defs[roles[i]] += lines
        cn = self.use("main", roles[-1], names[-1])
        rng.shuffle(main)
        stmts = [f"{obj} = {cn}({ctor_arg})"] + [l for grp in main for l in grp]
        if rng.random() < 0.25:
            d = self.fresh("drive")
            c.features.add("class-in-function")
            self.body += [f"def {d}():"] + ["    " + s for s in stmts] + [f"{d}()"]
        else:
            self.body += stmts

    # ---- assembling
    def build(self):
        rng = self.rng
        scen = rng.choices(["S", "R", "K", "L"], [1.0, 1.6, 2.0, 0.12] if not self.force_literals else [0, 0, 0, 1])[0]
        {"S": self.scen_same_line, "R": self.scen_returns, "K": self.scen_classes, "L": self.scen_literals}[scen]()
        if rng.random() < 0.3:
            scen2 = rng.choice(["S", "R"])
            {"S": self.scen_same_line, "R": self.scen_returns}[scen2]()
        c = self.case
        for r in self.ROLES:
            lines = []
            seen = set()
            for (mod, name, alias) in self.imports[r]:
                key = (mod, name, alias)
                if key in seen:
                    continue
                seen.add(key)
                lines.append(f"from {mod} import {name}" + (f" as {alias}" if alias else ""))
            lines += self.defs[r]
            if r == "main":
                lines += self.body
            if lines:
                c.files[self.mod[r] + ".py"] = "\n".join(lines) + "\n"
        c.main = self.mod["main"] + ".py"
        c.features.add("layout-" + ("single" if len(c.files) == 1 else f"{len(c.files)}files"))
        c.sites = find_sites(c.files)
        return c


def make_layout_case(rng, idx, literals=False):
    g = LGen(rng, idx)
    g.force_literals = literals
    return g.build()


def literal_designated(case):
    """names of the sink statements whose DESIGNATED argument is a literal: no flow can end there"""
    import ast
    out = set()
    for fn, text in case.files.items():
        for node in ast.walk(ast.parse(text)):
            if isinstance(node, ast.Call) and isinstance(node.func, ast.Name) and SITE_RE.match(node.func.id + "(") \
                    and not node.func.id.startswith("src"):
                i = designated_index(node.func.id)
                if i < len(node.args) and isinstance(node.args[i], ast.Constant):
                    out.add(node.func.id)
    return out


# ---- ground truth: the same text under CPython ------------------------------------------------------------

class _M:
    """marker object: the set of source statements a value stems from"""
    __slots__ = ("o",)

    def __init__(self, o):
        self.o = frozenset(o)

    def __add__(self, other):
        return _M(self.o | (other.o if isinstance(other, _M) else frozenset()))

    __radd__ = __add__


_EXEC_N = [0]


def execute(files, main, workdir, max_decisions=6):
    """-> (set of (source name, sink name), error text or None): union over all decision vectors.
    `workdir`: an existing scratch directory (a fresh sub-directory is created in it and removed again)."""
    seen = set()
    err = None
    names = set(SITE_RE.findall("\n".join(files.values())))
    _EXEC_N[0] += 1
    d = os.path.join(workdir, f"exec_{os.getpid()}_{_EXEC_N[0]}")
    os.makedirs(d)
    try:
        for fn, text in files.items():
            open(os.path.join(d, fn), "w").write(text)
        mods = [fn[:-3] for fn in files]
        injected = []
        state = {"vec": (), "i": 0, "used": 0}

        def mk_src(name):
            return lambda *a, **k: _M({name})

        def mk_sink(name):
            di = designated_index(name)
            def f(*a, **k):
                if len(a) > di and isinstance(a[di], _M):
                    for o in a[di].o:
                        seen.add((o, name))
            return f

        def c():
            i = state["i"]
            state["i"] += 1
            state["used"] = max(state["used"], state["i"])
            return state["vec"][i] if i < len(state["vec"]) else False

        for kind, num in names:
            nm = kind + num
            setattr(builtins, nm, mk_src(nm) if kind == "src" else mk_sink(nm))
            injected.append(nm)
        setattr(builtins, "c", c)
        injected.append("c")
        sys.path.insert(0, d)
        sys.dont_write_bytecode, old_dwb = True, sys.dont_write_bytecode
        try:
            # first run with no decisions tells how many are consumed at most on that path; enumerate up to the bound
            width = 0
            todo = [()]
            done = set()
            while todo:
                vec = todo.pop()
                if vec in done:
                    continue
                done.add(vec)
                for m in mods:
                    sys.modules.pop(m, None)
                importlib.invalidate_caches()
                state.update(vec=vec, i=0, used=0)
                try:
                    importlib.import_module(main[:-3])
                except Exception as e:      # a generated program must run
                    err = f"{type(e).__name__}: {e} (decisions {vec})"
                    break
                # extend: every decision consumed beyond the vector was False; branch on each of them
                if state["used"] > len(vec) and len(vec) < max_decisions:
                    for n in range(len(vec), min(state["used"], max_decisions)):
                        todo.append(vec + (False,) * (n - len(vec)) + (True,))
        finally:
            sys.dont_write_bytecode = old_dwb
            sys.path.remove(d)
            for m in mods:
                sys.modules.pop(m, None)
            for nm in injected:
                if hasattr(builtins, nm):
                    delattr(builtins, nm)
    finally:
        import shutil
        shutil.rmtree(d, ignore_errors=True)
    return seen, err
