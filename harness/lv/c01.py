"""C01 — Lowering Python source to GIR preserves program behaviour.

LEG 3 (certified-monitor leg, the decider for failing inputs): generated programs are lowered by the
REAL lian `lang` phase (subprocess, packed: one file per program); the REAL emitted rows are
converted to structured GIR (girconv) and executed by the Lean reference semantics
(LianVerif/Gir/Sem.lean, driver model "girexec"); outputs + return value are compared with CPython
running the source (independent oracle).
LEG 1: Lean model of the lowering (`lowerpy`) vs lian's real GIR on programs of the modelled fragment.
LEG 2: Lean source semantics (`evalpy`) vs CPython on the same fragment programs.

Known findings are matched by *prediction*: a mismatch on program p is "known" iff the real GIR's
behaviour equals what CPython computes for p re-rendered with exactly the recorded open defects
simulated at source level (pygen.Renderer sim=…); anything else is a VIOLATION.
"""
import hashlib, json, os, shutil, subprocess, sys, time, traceback
import common, girconv, pygen
from common import drv_batch

PY = "/venv/bin/python"
FUEL = 30000             # statement budget of girexec (a stale infinite loop that grows a string is quadratic in it)
MAX_LINES = 60000        # line-event limit for CPython runs of *simulated-defect* sources
ORIG_MAX_LINES = 2500    # generated programs whose CPython run needs more line events are rejected (too heavy)

# open finding id -> (simulation flag, shape that must be present)
OPEN_SIMS = {
    "C01/bool-no-short-circuit": ("strict_bool", "boolop"),
    "C01/while-continue-stale-condition": ("while_stale", "while_continue_nonatomic"),
    "C01/unpack-into-subscript-target": ("unpack_sub", "unpack_sub"),
    "C01/name-operand-read-after-later-call": ("late_name", "late_name"),
    "C01/for-else-dropped": ("for_else_dropped", "for_else"),
    "C01/explicit-base-call-receiver-as-argument": ("base_call_shift", "base_call"),
    "C01/class-attribute-initialiser-before-module-code": ("class_attr_early", "class_attr_name"),
}
# open findings matched by a purely syntactic shape (no behavioural prediction possible)
OPEN_SHAPES = {
    "C01/treesitter-exprlist-newline-bracket": "exprlist_then_bracket",
}
# repaired defects: simulation flags that reproduce the *pinned* behaviour (documentation / history replay only)
FIXED_SIMS = {
    "C01/augassign-rhs-before-target": "aug_rhs_first",
    "C01/slice-bound-statements-lost": "slice_lost",
    "C01/chained-comparison": "chain",
    "C01/nonlocal-keeps-first-name": "nonlocal_first",
    "C01/import-rewrite-in-strings": "import_rewrite",
}


# ----------------------------------------------------------------------------- CPython oracle
class StepLimit(Exception):
    pass


def canon(v, d=24):
    if v is None:
        return "None"
    if v is True:
        return "True"
    if v is False:
        return "False"
    if isinstance(v, int):
        return str(v)
    if isinstance(v, str):
        return "'" + v + "'"
    if d == 0:
        return "<deep>"
    if isinstance(v, list):
        return "[" + ", ".join(canon(x, d - 1) for x in v) + "]"
    if isinstance(v, tuple):
        return "(" + ", ".join(canon(x, d - 1) for x in v) + ")"
    if isinstance(v, dict):
        return "{" + ", ".join(canon(k, d - 1) + ": " + canon(x, d - 1) for k, x in v.items()) + "}"
    if isinstance(v, range):
        return f"range({v.start}, {v.stop}, {v.step})"
    if isinstance(v, type):
        return f"<class {v.__name__}>"
    if callable(v) and hasattr(v, "__name__"):
        return f"<function {v.__name__}>"
    if isinstance(v, float):
        return "<float>"
    if hasattr(v, "__dict__"):
        return "<" + type(v).__name__ + " {" + ", ".join(k + ": " + canon(x, d - 1) for k, x in vars(v).items()) + "}>"
    return "<" + type(v).__name__ + ">"


def norm_result(r):
    """error results are compared by class only."""
    if r.startswith("err:raise:"):
        cls = r.split(":")[2]
        if cls == "UnboundLocalError":
            cls = "NameError"
        return "err:raise:" + cls
    if r.startswith("err:"):
        return ":".join(r.split(":")[:2])
    return r


def _type_error():
    raise TypeError("simulated: one positional argument too many")


def run_cpython(src, entry, argvs, max_lines=MAX_LINES):
    """Execute `src` in a fresh namespace per argument vector; returns [(outs, result)]."""
    try:
        sys.set_int_max_str_digits(0)
    except Exception:
        pass
    res = []
    try:
        code = compile(src, "<generated>", "exec")
    except SyntaxError as e:
        return [([], "err:raise:SyntaxError")] * len(argvs)
    for args in argvs:
        outs = []
        count = [0]

        def _print(*a):
            outs.append(", ".join(canon(x) for x in a))

        def tracer(frame, event, arg):
            if event == "line":
                count[0] += 1
                if count[0] > max_lines:
                    raise StepLimit()
            return tracer

        ns = {"__name__": "__lv__", "print": _print,
              "_sand": (lambda a, b: b if a else a), "_sor": (lambda a, b: a if a else b), "_type_error": _type_error}
        old = sys.gettrace()
        sys.settrace(tracer)
        try:
            exec(code, ns)
            if entry:
                r = ns[entry](*args)
                result = "ok " + canon(r)
            else:
                result = "ok None"
        except StepLimit:
            result = "err:fuel"
        except RecursionError:
            result = "err:fuel"
        except Exception as e:
            result = "err:raise:" + type(e).__name__
        finally:
            sys.settrace(old)
        res.append((outs, result))
    return res


def same_obs(a, b):
    """a, b: (outs, result).  Equal observables (fuel exhaustion: compare a common output prefix)."""
    ra, rb = norm_result(a[1]), norm_result(b[1])
    if ra != rb:
        return False
    if ra == "err:fuel":
        n = min(len(a[0]), len(b[0]), 20)
        return a[0][:n] == b[0][:n]
    return list(a[0]) == list(b[0])


def same_all(xs, ys):
    return len(xs) == len(ys) and all(same_obs(x, y) for x, y in zip(xs, ys))


# ----------------------------------------------------------------------------- real lian
class Scratch:
    def __init__(self):
        self.root = os.path.join(common.SCRATCH_ROOT, f"lv-{os.getpid()}")
        os.makedirs(self.root, exist_ok=True)
        self.n = 0

    def new(self):
        self.n += 1
        d = os.path.join(self.root, f"b{self.n}")
        if os.path.exists(d):
            shutil.rmtree(d)
        os.makedirs(d)
        return d

    def cleanup(self):
        shutil.rmtree(self.root, ignore_errors=True)


def run_lian_lang(scratch, files):
    """files: {name.py: source}.  Runs the real `lang` phase on them (one subprocess).
    Returns ({name.py: structured program | Malformed | None}, log)."""
    d = scratch.new()
    src = os.path.join(d, "in")
    os.makedirs(src)
    for name, text in files.items():
        with open(os.path.join(src, name), "w") as f:
            f.write(text)
    ws = os.path.join(d, "ws")
    cmd = [PY, os.path.join(common.REPO, "src", "lian", "main.py"), "lang", "-l", "python", "-w", ws, "-f", "-q", src]
    env = dict(os.environ)
    env["PYTHONHASHSEED"] = "0"
    # main.py only *appends* its own src dir to sys.path; the venv's editable install would win otherwise
    env["PYTHONPATH"] = os.path.join(common.REPO, "src")
    p = subprocess.run(cmd, capture_output=True, text=True, env=env, timeout=1800)
    log = (p.stdout + p.stderr)[-3000:]
    res = {name: None for name in files}
    wsd = os.path.join(ws, "lian_workspace")
    try:
        progs = girconv.load_workspace(wsd)
    except Exception as e:
        return res, log + f"\n[load_workspace failed: {type(e).__name__}: {e}]"
    for path, prog in progs.items():
        base = os.path.basename(path)
        if base in res and "/src/" in path.replace("\\", "/"):
            res[base] = prog
    shutil.rmtree(d, ignore_errors=True)
    return res, log


def girexec(items):
    """items: [(structured program, entry, argvs)] -> [[(outs, result)...] | error string]."""
    reqs = [{"m": "girexec", "prog": prog, "entry": entry, "argvs": argvs, "fuel": FUEL} for prog, entry, argvs in items]
    out = []
    if not reqs:
        return out
    for rep in drv_batch(reqs):
        if "ok" in rep:
            out.append([(o["out"], o["result"]) for o in rep["ok"]])
        else:
            out.append("driver: " + str(rep.get("err"))[:300])
    return out


# ----------------------------------------------------------------------------- one batch through LEG 3
def evaluate(scratch, progs):
    """progs: list of program dicts (pygen).  Returns list of result dicts:
       {prog, source, real: [(outs,result)]|str, cpy: [...], ok: bool, status: "pass"|"reject"|"mismatch"|"nogir"}"""
    files = {f"p{i}.py": pygen.render(p) for i, p in enumerate(progs)}
    girs, log = run_lian_lang(scratch, files)
    results = []
    items, idx = [], []
    for i, p in enumerate(progs):
        src = files[f"p{i}.py"]
        cpy = run_cpython(src, p["entry"], p["argvs"], max_lines=ORIG_MAX_LINES)
        r = {"prog": p, "source": src, "cpy": cpy, "real": None, "status": None, "gir": None}
        if any(c[1].startswith("err:") for c in cpy):
            r["status"] = "reject"          # generator produced a raising/non-terminating program: not in the quantifier
        else:
            g = girs.get(f"p{i}.py")
            if g is None:
                r["status"] = "nogir"
                r["real"] = "no GIR emitted for this file; lian log tail: " + log[-600:]
            elif isinstance(g, Exception):
                r["status"] = "mismatch"
                r["real"] = "malformed rows: " + str(g)
            else:
                r["gir"] = g
                items.append((g, p["entry"], p["argvs"]))
                idx.append(len(results))
        results.append(r)
    for j, out in zip(idx, girexec(items)):
        r = results[j]
        r["real"] = out
        if isinstance(out, str):
            r["status"] = "mismatch"
        else:
            r["status"] = "pass" if same_all(out, r["cpy"]) else "mismatch"
    return results


def explain(r, open_ids):
    """For a mismatching result: which open findings (if any) predict the real behaviour exactly.
    Returns (list of finding ids, simulated cpython result) or (None, sim result)."""
    p = r["prog"]
    if not isinstance(r["real"], list):
        return None, None
    sh = pygen.shapes(p)
    shape_only = [fid for fid in open_ids if fid in OPEN_SHAPES and OPEN_SHAPES[fid] in sh]
    present = [fid for fid in open_ids if fid in OPEN_SIMS and OPEN_SIMS[fid][1] in sh]
    if not present:
        return (shape_only or None), None
    sims = [OPEN_SIMS[fid][0] for fid in present]
    src = pygen.render(p, sim=sims)
    sim = run_cpython(src, p["entry"], p["argvs"])
    if not same_all(r["real"], sim):
        return (shape_only or None), sim
    # attribute: findings whose simulation is needed (dropping it breaks the prediction)
    needed = []
    for fid in present:
        others = [OPEN_SIMS[f][0] for f in present if f != fid]
        alt = run_cpython(pygen.render(p, sim=others), p["entry"], p["argvs"])
        if not same_all(r["real"], alt):
            needed.append(fid)
    return (needed or present), sim


# ----------------------------------------------------------------------------- shrinking
def shrink_candidates(prog):
    """programs obtained by deleting one statement / replacing one compound statement by a part of it."""
    body = prog["body"]
    cands = []

    def paths(stmts, prefix):
        for i, s in enumerate(stmts):
            yield prefix + [i], s
            k = s[0]
            if k == "if":
                for a, (c, b) in enumerate(s[1]):
                    yield from paths(b, prefix + [i, ("if", a)])
                if s[2]:
                    yield from paths(s[2], prefix + [i, ("else",)])
            elif k == "while":
                yield from paths(s[2], prefix + [i, ("body",)])
            elif k == "for":
                yield from paths(s[3], prefix + [i, ("body",)])
            elif k == "def":
                yield from paths(s[3], prefix + [i, ("body",)])
            elif k == "class":
                for m, md in enumerate(s[4]):
                    yield from paths(md[3], prefix + [i, ("method", m)])

    def delete(stmts, path):
        i = path[0]
        if len(path) == 1:
            return stmts[:i] + stmts[i + 1:]
        s = stmts[i]
        sel = path[1]
        rest = path[2:]
        if sel[0] == "if":
            arms = list(s[1])
            c, b = arms[sel[1]]
            arms[sel[1]] = (c, delete(b, rest))
            ns = ("if", arms, s[2])
        elif sel[0] == "else":
            ns = ("if", s[1], delete(s[2], rest))
        elif sel[0] == "body" and s[0] == "while":
            ns = ("while", s[1], delete(s[2], rest), s[3])
        elif sel[0] == "body" and s[0] == "for":
            ns = ("for", s[1], s[2], delete(s[3], rest), s[4])
        elif sel[0] == "body" and s[0] == "def":
            ns = ("def", s[1], s[2], delete(s[3], rest))
        elif sel[0] == "method":
            ms = list(s[4])
            md = ms[sel[1]]
            ms[sel[1]] = ("def", md[1], md[2], delete(md[3], rest))
            ns = ("class", s[1], s[2], s[3], ms)
        else:
            return stmts
        return stmts[:i] + [ns] + stmts[i + 1:]

    for path, s in paths(body, []):
        if s[0] == "def" and s[1] == prog["entry"] and len(path) == 1:
            continue
        nb = delete(body, path)
        cands.append({"body": nb, "entry": prog["entry"], "argvs": prog["argvs"], "_top": path[0] if len(path) == 1 else None})
    # whole methods of top-level classes
    for i, s in enumerate(body):
        if s[0] == "class":
            for m in range(len(s[4])):
                ns = ("class", s[1], s[2], s[3], s[4][:m] + s[4][m + 1:])
                cands.append({"body": body[:i] + [ns] + body[i + 1:], "entry": prog["entry"], "argvs": prog["argvs"]})
    # fewer argument vectors
    if len(prog["argvs"]) > 1:
        for i in range(len(prog["argvs"])):
            cands.append({"body": body, "entry": prog["entry"], "argvs": [prog["argvs"][i]]})
    return cands


def trim(obs, n=30):
    """observations for a replay file: at most n output entries per run."""
    if not isinstance(obs, list):
        return obs
    return [[list(o[0][:n]) + (["… (%d more)" % (len(o[0]) - n)] if len(o[0]) > n else []), o[1]] for o in obs]


def shrink(scratch, prog, still_fails, max_rounds=30, budget_s=75):
    """greedy: evaluate all single-deletion candidates in ONE packed lian run per round."""
    cur = prog
    t0 = time.time()
    for _ in range(max_rounds):
        if time.time() - t0 > budget_s:
            break
        cands = shrink_candidates(cur)
        if not cands:
            break
        cands = cands[:120]
        res = evaluate(scratch, cands)
        nxt = None
        tops = []
        for r in res:
            if r["status"] in ("mismatch", "nogir") and still_fails(r):
                if r["prog"].get("_top") is not None:
                    tops.append(r["prog"]["_top"])
                if nxt is None or pygen.count_stmts(r["prog"]["body"]) < pygen.count_stmts(nxt["prog"]["body"]):
                    nxt = r
        if nxt is None:
            break
        if len(tops) > 1:
            # all top-level statements whose single deletion keeps the failure: try deleting them together
            comb = {"body": [st for i, st in enumerate(cur["body"]) if i not in set(tops)], "entry": cur["entry"], "argvs": cur["argvs"]}
            rc = evaluate(scratch, [comb])[0]
            if rc["status"] in ("mismatch", "nogir") and still_fails(rc):
                nxt = rc
        cur = {k: v for k, v in nxt["prog"].items() if k != "_top"}
    return cur


# ----------------------------------------------------------------------------- run
def load_corpus():
    d = os.path.join(common.VERIF, "corpus", "C01")
    items = []
    if os.path.isdir(d):
        for f in sorted(os.listdir(d)):
            if f.endswith(".json"):
                items.append((f, json.load(open(os.path.join(d, f)))))
    return items


def run_corpus(ctx, scratch, stats):
    """corpus entries: {"source", "entry", "argvs", "expect": "pass" | "known:<finding id>", "sim_source"?}."""
    items = load_corpus()
    if not items:
        return
    files = {f"c{i}.py": it["source"] for i, (_, it) in enumerate(items)}
    girs, log = run_lian_lang(scratch, files)
    reqs, idx = [], []
    for i, (name, it) in enumerate(items):
        g = girs.get(f"c{i}.py")
        if (g is None or isinstance(g, Exception)) and it.get("expect", "").startswith("known-shape:") \
                and it["expect"][12:] in ctx.finding_ids("open"):
            ctx.known(it["expect"][12:], f"corpus {name}: " + it.get("what", ""))
            continue
        if g is None or isinstance(g, Exception):
            stats["corpus_failed"] = stats.get("corpus_failed", 0) + 1
            if stats["corpus_failed"] <= 2:
                ctx.violation({"what": "corpus program: lian emitted no usable GIR", "corpus": name, "source": it["source"],
                               "entry": it["entry"], "argvs": it["argvs"], "real": str(g), "lian_log": log[-500:]})
            continue
        reqs.append((g, it["entry"], it["argvs"]))
        idx.append(i)
    for i, out in zip(idx, girexec(reqs)):
        name, it = items[i]
        stats["corpus"] += 1
        cpy = run_cpython(it["source"], it["entry"], it["argvs"])
        ok = not isinstance(out, str) and same_all(out, cpy)
        exp = it.get("expect", "pass")
        if ok:
            if exp.startswith("known:"):
                print(f"[C01] note: corpus {name} expected known finding {exp[6:]} but lian now agrees with CPython")
            continue
        if exp.startswith("known-shape:") and exp[12:] in ctx.finding_ids("open"):
            ctx.known(exp[12:], f"corpus {name}: " + it.get("what", ""))
            continue
        if exp.startswith("known:") and exp[6:] in ctx.finding_ids("open") and "sim_source" in it:
            sim = run_cpython(it["sim_source"], it["entry"], it["argvs"])
            if not isinstance(out, str) and same_all(out, sim):
                ctx.known(exp[6:], f"corpus {name}: " + it.get("what", ""))
                continue
        stats["corpus_failed"] = stats.get("corpus_failed", 0) + 1
        if stats["corpus_failed"] <= 2:
            ctx.violation({"what": "corpus program: executing lian's GIR differs from CPython", "corpus": name,
                           "source": it["source"], "entry": it["entry"], "argvs": it["argvs"],
                           "real_gir_exec": trim(out), "cpython": trim(cpy)})


def batch_sizes(tier):
    if tier == "quick":
        return {"n_batches": 6, "per_batch": 100}
    return {"n_batches": 160, "per_batch": 150}


def workers():
    return max(1, min(12, (os.cpu_count() or 2) - 2))


def process_batch(arg):
    """worker: (batch index, seeds, open finding ids) -> summary of LEG 3 on that batch (picklable, small)."""
    b, chunk, open_ids = arg
    scratch = Scratch()
    out = {"generated": 0, "rejected_by_oracle": 0, "pass": 0, "mismatch": 0, "nogir": 0, "known": {}, "known_example": {},
           "constructs": {}, "shapes": {}, "stmts_total": 0, "hashes": [], "samples": [], "unexplained": [],
           "with_class": 0, "with_fluent_chain": 0, "probes": {}}
    try:
        progs = [pygen.generate(s, size=("small" if i % 5 == 0 else "normal")) for i, s in enumerate(chunk)]
        results = evaluate(scratch, progs)
        for s, r in zip(chunk, results):
            out["generated"] += 1
            p = r["prog"]
            for k, v in pygen.constructs(p).items():
                out["constructs"][k] = out["constructs"].get(k, 0) + v
            for sh in pygen.shapes(p):
                out["shapes"][sh] = out["shapes"].get(sh, 0) + 1
            out["stmts_total"] += pygen.count_stmts(p["body"])
            for pk in p.get("probes", ()):
                out["probes"][pk] = out["probes"].get(pk, 0) + 1
            if "\nclass " in "\n" + r["source"]:
                out["with_class"] += 1
            if ").m" in r["source"]:
                out["with_fluent_chain"] += 1
            if r["status"] == "reject":
                out["rejected_by_oracle"] += 1
                continue
            nontriv = any(c[0] or c[1] != "ok None" for c in r["cpy"])
            out["hashes"].append((hashlib.sha256(r["source"].encode()).hexdigest()[:16], nontriv))
            if len(out["samples"]) < 1 and r["status"] == "pass" and len(r["source"]) < 1200:
                out["samples"].append({"seed": s, "source": r["source"], "argvs": p["argvs"], "cpython": r["cpy"], "gir_exec": r["real"]})
            if r["status"] == "pass":
                out["pass"] += 1
                continue
            out[r["status"] if r["status"] in ("mismatch", "nogir") else "mismatch"] += 1
            fids, sim = explain(r, open_ids)
            if fids:
                for fid in fids:
                    out["known"][fid] = out["known"].get(fid, 0) + 1
                    out["known_example"].setdefault(fid, (s, p["argvs"][0]))
            else:
                out["unexplained"].append((s, "small" if chunk.index(s) % 5 == 0 else "normal"))
    finally:
        scratch.cleanup()
    return out


def run(ctx):
    import multiprocessing
    common.use_repo()
    ctx.level = "translation_validation"
    timing = {}
    t = time.time()
    proofs_ok = ctx.proofs()
    timing["proofs_s"] = round(time.time() - t, 1)
    scratch = Scratch()
    stats = {"corpus": 0, "generated": 0, "rejected_by_oracle": 0, "pass": 0, "mismatch": 0, "nogir": 0,
             "known": {}, "constructs": {}, "shapes": {}, "stmts_total": 0, "with_class": 0, "with_fluent_chain": 0}
    try:
        open_ids = ctx.finding_ids("open")
        t = time.time()
        run_corpus(ctx, scratch, stats)
        timing["corpus_s"] = round(time.time() - t, 1)
        t = time.time()
        sizes = batch_sizes(ctx.tier)
        seeds = [ctx.rng.getrandbits(48) for _ in range(sizes["n_batches"] * sizes["per_batch"])]
        jobs = [(b, seeds[b * sizes["per_batch"]:(b + 1) * sizes["per_batch"]], open_ids) for b in range(sizes["n_batches"])]
        distinct = {}
        samples = []
        unexplained = []
        common.LeanSide.build()
        with multiprocessing.Pool(min(workers(), len(jobs))) as pool:
            for out in pool.imap(process_batch, jobs):
                for k in ("generated", "rejected_by_oracle", "pass", "mismatch", "nogir", "stmts_total", "with_class", "with_fluent_chain"):
                    stats[k] += out[k]
                ctx.cov["evaluations"] += out["generated"]
                for k, v in out["constructs"].items():
                    stats["constructs"][k] = stats["constructs"].get(k, 0) + v
                for k, v in out["shapes"].items():
                    stats["shapes"][k] = stats["shapes"].get(k, 0) + v
                for k, v in out["probes"].items():
                    stats.setdefault("probes", {})[k] = stats.setdefault("probes", {}).get(k, 0) + v
                for h, nt in out["hashes"]:
                    distinct[h] = nt
                if len(samples) < 2:
                    samples += out["samples"]
                for fid, n in out["known"].items():
                    stats["known"][fid] = stats["known"].get(fid, 0) + n
                    s, av = out["known_example"][fid]
                    ctx.known(fid, f"e.g. generator seed {s}: executing lian's GIR differs from CPython exactly as this "
                                   f"defect predicts (argv {av})")
                unexplained += out["unexplained"]
        timing["leg3_s"] = round(time.time() - t, 1)
        # ---- unexplained mismatches are violations: re-evaluate, shrink and report the first few
        for s, size in unexplained[:1]:
            r = evaluate(scratch, [pygen.generate(s, size=size)])[0]
            if r["status"] not in ("mismatch", "nogir") or explain(r, open_ids)[0]:
                ctx.violation({"what": "a mismatch between lian's executed GIR and CPython was seen in a worker but did not "
                                       "reproduce in the parent process (non-determinism of the lowering?)",
                               "generator_seed": s, "size": size, "source": r["source"]}, no_input=True)
                continue

            def still(rr, _open=open_ids):
                f, _ = explain(rr, _open)
                return not f
            small = shrink(scratch, r["prog"], still)
            rs = evaluate(scratch, [small])[0]
            if rs["status"] not in ("mismatch", "nogir") or explain(rs, open_ids)[0]:
                rs = r
            ctx.violation({"what": "executing the GIR lian emits differs from CPython on a generated program "
                                   "(not predicted by any recorded open finding)",
                           "generator_seed": s, "source": rs["source"], "entry": rs["prog"]["entry"],
                           "argvs": rs["prog"]["argvs"], "real_gir_exec": trim(rs["real"]), "cpython": trim(rs["cpy"]),
                           "gir": rs.get("gir"), "program_ast": pygen.to_json(rs["prog"]),
                           "unexplained_in_run": len(unexplained),
                           "other_unexplained_seeds": [x[0] for x in unexplained[1:6]]})
        ctx.cov["distinct_nontrivial"] = sum(1 for v in distinct.values() if v)
        ctx.cov["programs"] = stats["generated"]
        ctx.cov["disagreements_checked"] = stats["mismatch"] + stats["nogir"]
        ctx.cov["rule"] = ("corpus witnesses + typed random Python programs (pygen.generate, seeds drawn from VERIF_SEED) over the "
                           "quantifier's grammar, one file per program, packed runs of the real `lang` phase; each program runs with "
                           "3 argument vectors; non-trivial = distinct source whose CPython run prints something or returns a non-None value; "
                           "programs on which CPython itself raises / exceeds the step limit are rejected (counted); plus the "
                           "core-fragment programs of c01_core (counted in core_fragment)")
        ctx.cov["samples"] = samples
        ctx.cov["exhaustive"] = False
        ctx.cov["leg3"] = {k: stats[k] for k in ("corpus", "generated", "rejected_by_oracle", "pass", "mismatch", "nogir", "known",
                                                  "with_class", "with_fluent_chain")}
        ctx.cov["constructs_hit"] = dict(sorted(stats["constructs"].items()))
        ctx.cov["defect_shapes_generated"] = stats["shapes"]
        # evaluation-order / evaluation-time probes: constructs with >= 2 effectful sub-expressions (tracing helper) in
        # distinct operand positions, and definition-time vs call-time situations; count of generated instances per class
        ctx.cov["order_and_time_probe_positions"] = dict(sorted(stats.get("probes", {}).items()))
        ctx.cov["mean_statements_per_program"] = round(stats["stmts_total"] / max(1, stats["generated"]), 1)
        ctx.cov["fingerprints"] = fingerprints()
        t = time.time()
        legs12(ctx, scratch, proofs_ok)
        timing["core_fragment_s"] = round(time.time() - t, 1)
        ctx.cov["timing"] = timing
        if not proofs_ok and not ctx.violations:
            ctx.violation({"what": "proof obligation broken; the search over this run's generated programs found no failing input",
                           "broken_theorems": ctx.audit["failures"]}, no_input=True)
    finally:
        scratch.cleanup()


def fingerprints():
    """sha256 of the anchored source files as they are now (recorded in the evidence)."""
    res = {}
    for rel in ("src/lian/lang/python_parser.py", "src/lian/lang/common_parser.py", "src/lian/lang/lang_analysis.py",
                "src/lian/events/default_event_handlers/add_var_decl.py", "src/lian/events/default_event_handlers/basic.py",
                "src/lian/events/event_registers.py"):
        try:
            res[rel] = hashlib.sha256(open(os.path.join(common.REPO, rel), "rb").read()).hexdigest()[:16]
        except OSError:
            res[rel] = "missing"
    return res


def legs12(ctx, scratch, proofs_ok):
    """LEG 1 / LEG 2 (model of the lowering vs lian; source semantics vs CPython) — see c01_core."""
    try:
        import c01_core
    except ImportError:
        return
    c01_core.run(ctx, scratch, proofs_ok)


def replay(rp):
    common.use_repo()
    scratch = Scratch()
    try:
        if "source" not in rp:
            print(json.dumps({"note": "replay without a concrete input (proof/correspondence break): re-run ./check C01 quick"}))
            return 1
        files = {"r0.py": rp["source"]}
        girs, log = run_lian_lang(scratch, files)
        g = girs.get("r0.py")
        cpy = run_cpython(rp["source"], rp["entry"], rp["argvs"])
        if g is None or isinstance(g, Exception):
            print(json.dumps({"real": str(g), "cpython": cpy, "violates": True}))
            return 1
        out = girexec([(g, rp["entry"], rp["argvs"])])[0]
        viol = isinstance(out, str) or not same_all(out, cpy)
        print(json.dumps({"real_gir_exec": out, "cpython": cpy, "violates": viol}))
        return 1 if viol else 0
    finally:
        scratch.cleanup()
