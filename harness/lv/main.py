import importlib, json, os, sys, time, traceback
sys.path.insert(0, os.path.dirname(os.path.abspath(__file__)))
import common


def main():
    args = sys.argv[1:]
    if len(args) == 2 and args[0] == "--replay":
        rp = json.load(open(args[1]))
        mod = importlib.import_module(rp["property"].lower())
        sys.exit(mod.replay(rp))
    if len(args) < 1:
        print("usage: check <ID> <quick|thorough> | check --replay <file>")
        sys.exit(2)
    prop = args[0]
    tier = args[1] if len(args) > 1 else os.environ.get("VERIF_TIER", "quick")
    seed = int(os.environ.get("VERIF_SEED", "0"))
    ctx = common.Ctx(prop, tier, seed)
    try:
        mod = importlib.import_module(prop.lower())
        mod.run(ctx)
    except Exception:
        # a crash of the harness itself is not a verdict about the property
        traceback.print_exc()
        print(f"[{prop}] harness error (exit 2)")
        sys.exit(2)
    sys.exit(ctx.finish())


if __name__ == "__main__":
    main()
