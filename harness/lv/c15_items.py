"""C15 — loader families driven by the harness: constructors, key alphabets, value pools (built with the
real constructors of lian.common_structs) and per-family canonical forms.

Nothing here decides a verdict; c15.py does.  `use_repo()` must have been called before `families()`.

A *family* bundles
  make(ws, item_cap, bundle_cap)  -> a real loader instance writing under directory `ws`
  keys                            -> the id alphabet (python objects usable as loader ids)
  build(j, key)                   -> pool value number j (0 = the empty item) for that key, built fresh
  canon_saved(key, item)          -> canonical JSON-able form of an item as handed to save()
  canon_got(key, x)               -> canonical form of what get_item_by_id() returned for a *present* item
The canonical forms are the user-visible content: graphs as sorted edge lists, sets as sorted lists,
numpy scalars as ints, pandas rows as dicts without missing cells.
"""
import json, math, os


def _py(x):
    """numpy scalar / array / nested container -> plain python; NaN/None -> None."""
    import numpy as np
    if x is None:
        return None
    if isinstance(x, (bool, np.bool_)):
        return bool(x)
    if isinstance(x, (int, np.integer)):
        return int(x)
    if isinstance(x, (float, np.floating)):
        if math.isnan(x):
            return None
        return int(x) if float(x) == int(x) else float(x)
    if isinstance(x, str):
        return x
    if isinstance(x, np.ndarray):
        return [_py(y) for y in x.tolist()]
    if isinstance(x, (list, tuple)):
        return [_py(y) for y in x]
    if isinstance(x, (set, frozenset)):
        return sorted((_py(y) for y in x), key=lambda v: json.dumps(v, sort_keys=True, default=str))
    if isinstance(x, dict):
        return {str(_py(k)): _py(v) for k, v in x.items()}
    return repr(x)


def _sorted(xs):
    return sorted(xs, key=lambda v: json.dumps(v, sort_keys=True, default=str))


def _rows_of_datamodel(dm):
    """DataModel -> list of dicts without missing cells (row order kept)."""
    out = []
    cols = list(dm._data.columns)
    for row in dm:
        d = {}
        for c, v in zip(cols, row.raw_data()):
            pv = _py(v)
            if pv is None:
                continue
            d[str(c)] = pv
        out.append(d)
    return out


class Family:
    def __init__(self, name, cls, group, make, keys, build, canon_saved, canon_got, npool=5, exports_cached=True, probe_keys=()):
        self.name, self.cls, self.group = name, cls, group
        self.make, self.keys, self.build = make, keys, build
        self.canon_saved, self.canon_got = canon_saved, canon_got
        self.npool = npool
        self.exports_cached = exports_cached      # False for UnitGIRLoader: export() does not fill the bundle cache
        # ids that are only ever read (get/contain), never saved: twins of saved ids that must NOT be found
        # (a tuple equal to a CallSite's to_tuple(), a call site differing from the saved ones only in its callee, …)
        self.probe_keys = list(probe_keys)
        self.all_keys = list(keys) + self.probe_keys

    def spell(self, ki, n):
        """The id object handed to the real loader for key index ki at step n.  Different but EQUAL spellings of one id
        (python int / numpy.int64, a fresh CallSite object, a CallSite built from numpy ints) must name the same item."""
        import numpy as np
        from lian.common_structs import CallSite
        k = self.all_keys[ki]
        v = n % 3
        if isinstance(k, CallSite):
            if v == 1:
                return CallSite(*k.to_tuple())
            if v == 2:
                return CallSite(*[np.int64(x) for x in k.to_tuple()])
            return k
        if isinstance(k, int) and not isinstance(k, bool) and k != 0 and v == 1:
            # numpy.int64(0) is left out on purpose: util.isna() takes it for a missing value (`not element`), a DataModel
            # quirk that belongs to C16; ids of lian start at config.START_INDEX
            return np.int64(k)
        return k

    def key_json(self, k):
        from lian.common_structs import CallSite
        if isinstance(k, CallSite):
            return ["cs"] + list(k.to_tuple())
        if isinstance(k, tuple):
            return ["t"] + list(k)
        return k

    def key_from_json(self, j):
        from lian.common_structs import CallSite
        if isinstance(j, list):
            return CallSite(*j[1:]) if j[0] == "cs" else tuple(j[1:])
        return j


class _Opt:
    pass


def _options(ws):
    o = _Opt()
    o.workspace = ws
    return o


def families():
    import networkx as nx
    from lian.util import loader as L
    from lian.config import schema
    from lian.util.data_model import DataModel
    from lian import common_structs as S
    from lian.config.constants import SYMBOL_OR_STATE

    fams = []
    # id alphabet of the int-keyed families: 0 and 1 are also bundle numbers (and 0 is falsy), 3 an ordinary id, the fourth a
    # negative 64-bit value of the kind the P3 analyses use as context ids (hash of a call site)
    INT_KEYS = [0, 1, 3, -2181784832106254636]
    INT_PROBES = [2, -1]          # never saved; -1 is the "still active" bundle number and the id of the LRU sentinel nodes

    def other_id(key):
        """a different id of the same alphabet (rows that carry it must not end up under that id)"""
        return INT_KEYS[(INT_KEYS.index(key) + 1) % len(INT_KEYS)] if key in INT_KEYS else 1

    def own_unit_ids(j, key, n):
        """The unit_id the rows of pool item j carry THEMSELVES, before save() stamps the save key on them (the save key must
        win): agreeing, disagreeing (a foreign id, another saved id), missing (None -> field left at its default / absent),
        a numpy int — rows revived from another workspace or taken from a loaded table look like that."""
        import numpy as np
        plan = {1: [key], 2: [key + 1000, key + 1000], 3: [None, np.int64(key)],
                4: [np.int64(key), other_id(key), key + 1000, None]}.get(j, [])
        return [plan[i % len(plan)] if plan else None for i in range(n)]

    def general(cls, name, item_schema):
        def make(ws, ic, bc):
            return cls(_options(ws), item_schema, os.path.join(ws, name), ic, bc)
        return make

    # ---------------------------------------------------------------- unit level: scope hierarchy
    def scope_build(j, key):
        sp = S.ScopeSpace()
        n = [0, 1, 2, 1, 3][j]
        own = own_unit_ids(j, key, n)
        for i in range(n):
            sp.add(S.Scope(unit_id=(-1 if own[i] is None else own[i]), stmt_id=10 * j + i + 1, scope_id=10 * j, parent_stmt_id=i,
                           scope_kind=j, name=f"n{j}_{i}", attrs="a" if i else "", supers="", alias="", source=""))
        return sp

    def scope_saved(key, sp):
        out = []
        for s in sp:
            d = {k: _py(v) for k, v in s.to_dict().items()}
            d["unit_id"] = key
            out.append({k: v for k, v in d.items() if v is not None})
        return out

    def dm_got(key, x):
        if isinstance(x, DataModel):
            return _rows_of_datamodel(x)
        return _py(x)

    fams.append(Family("scope_hierarchy", "ScopeHierarchyLoader", "unit-level",
                       general(L.ScopeHierarchyLoader, "scope_hierarchy", []), INT_KEYS, scope_build, scope_saved, dm_got, probe_keys=INT_PROBES))

    # ---------------------------------------------------------------- unit level: GIR (export does not cache)
    def gir_build(j, key):
        rows = []
        n = [0, 1, 2, 2, 4][j]
        own = own_unit_ids(j, key, n)
        for i in range(n):
            r = {"operation": ["assign_stmt", "call_stmt", "return_stmt"][(i + j) % 3], "stmt_id": 100 * j + i + 1,
                 "parent_stmt_id": 0}
            if (i + j) % 3 == 0:
                r.update({"target": f"v{j}", "operand": str(i), "operator": "+", "operand2": "x"})
            elif (i + j) % 3 == 1:
                r.update({"target": "%vv1", "name": f"f{j}", "positional_args": "['a']"})
            else:
                r.update({"name": f"v{j}"})
            if own[i] is not None:
                r["unit_id"] = own[i]
            rows.append(r)
        return rows

    def gir_saved(key, rows):
        out = []
        for r in rows:
            d = {k: _py(v) for k, v in r.items()}
            d["unit_id"] = key
            out.append({k: v for k, v in d.items() if v is not None})
        return out

    fams.append(Family("gir", "UnitGIRLoader", "unit-level",
                       general(L.UnitGIRLoader, "gir", []), INT_KEYS, gir_build, gir_saved, dm_got, exports_cached=False, probe_keys=INT_PROBES))

    # ---------------------------------------------------------------- dict-of-sets per unit
    def names_build(j, key):
        return [{}, {"a": {1}}, {"a": {1, 2}, "b": {3}}, {"b": {1}}, {"a": {4}, "b": {5}, "c": {6, 7}}][j]

    def setdict_canon(key, d):
        return {str(k): _py(set(v)) for k, v in d.items()} if isinstance(d, dict) else _py(d)

    fams.append(Family("symbol_name_to_scope_ids", "SymbolNameToScopeIDsLoader", "unit-level",
                       general(L.SymbolNameToScopeIDsLoader, "symbol_name_to_scope_ids", []), INT_KEYS,
                       lambda j, k: {n: set(s) for n, s in names_build(j, k).items()}, setdict_canon, setdict_canon, probe_keys=INT_PROBES))
    fams.append(Family("symbol_name_to_decl_ids", "SymbolNameToDeclIDsLoader", "unit-level",
                       general(L.SymbolNameToDeclIDsLoader, "symbol_name_to_decl_ids", []), INT_KEYS,
                       lambda j, k: {n: set(s) for n, s in names_build(j, k).items()}, setdict_canon, setdict_canon, probe_keys=INT_PROBES))

    def avail_build(j, key):
        return [{}, {10: {1}}, {10: {1, 2}, 11: {3}}, {11: {1}}, {10: {4}, 11: {5}, 12: {6, 7}}][j]

    fams.append(Family("scope_to_available_scope_ids", "ScopeIDToAvailableScopeIDsLoader", "unit-level",
                       general(L.ScopeIDToAvailableScopeIDsLoader, "scope_to_available_scope_ids", []), INT_KEYS,
                       lambda j, k: {n: set(s) for n, s in avail_build(j, k).items()}, setdict_canon, setdict_canon, probe_keys=INT_PROBES))

    def syminfo_build(j, key):
        return [{}, {10: {"a": 1}}, {10: {"a": 1, "b": 2}, 11: {"c": 3}}, {11: {"a": 9}}, {10: {"z": 4}, 11: {"y": 5}, 12: {"x": 6, "w": 7}}][j]

    def dictdict_canon(key, d):
        return {str(k): {str(a): _py(b) for a, b in v.items()} for k, v in d.items()} if isinstance(d, dict) else _py(d)

    fams.append(Family("scope_to_symbol_info", "ScopeIDToSymbolInfoLoader", "unit-level",
                       general(L.ScopeIDToSymbolInfoLoader, "scope_to_symbol_info", []), INT_KEYS,
                       lambda j, k: {a: dict(b) for a, b in syminfo_build(j, k).items()}, dictdict_canon, dictdict_canon, probe_keys=INT_PROBES))

    def members_build(j, key):
        return [{}, {"f": {1}}, {"f": {1, 2}, "g": {3}}, {"g": {1}}, {"f": {4}, "g": {5}, "h": {6, 7}}][j]

    fams.append(Family("class_id_to_members", "ClassIDToMembersLoader", "unit-level",
                       general(L.ClassIDToMembersLoader, "class_to_members", []), INT_KEYS,
                       lambda j, k: {n: set(s) for n, s in members_build(j, k).items()}, setdict_canon, setdict_canon, probe_keys=INT_PROBES))

    # ---------------------------------------------------------------- graph: CFG
    def cfg_build(j, key):
        g = S.ControlFlowGraph(key)
        edges = [[], [(1, 2, 0)], [(1, 2, 0), (2, 3, 1), (2, 4, 2)], [(5, -1, 0)], [(1, 2, 0), (2, 3, 0), (3, 1, 3), (3, -1, 0)]][j]
        import numpy as np
        for u, v, w in edges:
            if j == 3:          # statement ids as they come out of a loaded table
                u, v = np.int64(u), np.int64(v)
            g.add_edge(u, v, w)
        return nx.DiGraph(g.graph)

    def edge_canon(key, g):
        if hasattr(g, "edges"):
            return _sorted([[_py(u), _py(v), _py(w)] for u, v, w in g.edges(data="weight", default=0)])
        return _py(g)

    fams.append(Family("cfg", "CFGLoader", "graph",
                       general(L.CFGLoader, "cfg", schema.control_flow_graph_schema), INT_KEYS, cfg_build, edge_canon, edge_canon, probe_keys=INT_PROBES))

    # ---------------------------------------------------------------- bit vectors
    def bv_build(j, key):
        m = S.BitVectorManager()
        ids = [[], [(0, 7, 11)], [(0, 7, 11), (1, 8, 12)], [(2, 9, 13)], [(0, 7, 11), (1, 8, 12), (2, 9, 13), (3, 7, 14)]][j]
        for ix, sid, st in ids:
            m.add_bit_id(S.SymbolDefNode(index=ix, symbol_id=sid, stmt_id=st))
        return m

    def bv_canon(key, m):
        if not isinstance(m, S.BitVectorManager):
            return _py(m)
        def node(n):
            if isinstance(n, S.SymbolDefNode):
                return ["sym", _py(n.index), _py(n.symbol_id), _py(n.stmt_id)]
            if isinstance(n, S.StateDefNode):
                return ["st", _py(n.index), _py(n.state_id), _py(n.stmt_id)]
            return _py(n)
        return {"pos_to_id": _sorted([[_py(p), node(n)] for p, n in m.bit_pos_to_id.items()]),
                "id_to_pos": _sorted([[node(n), _py(p)] for n, p in m.id_to_bit_pos.items()]),
                "next_free_pos": _py(m.counter)}

    fams.append(Family("symbol_bit_vector", "BitVectorManagerLoader", "bit-vector",
                       general(L.BitVectorManagerLoader, "symbol_bit_vector_p1", []), INT_KEYS, bv_build, bv_canon, bv_canon, probe_keys=INT_PROBES))

    def sbv_build(j, key):
        m = S.BitVectorManager()
        ids = [[], [(0, 107, 11)], [(0, 107, 11), (1, 108, 12)], [(2, 109, 13)], [(0, 107, 11), (1, 108, 12), (2, 109, 13), (3, 107, 14)]][j]
        for ix, sid, st in ids:
            m.add_bit_id(S.StateDefNode(index=ix, state_id=sid, stmt_id=st))
        return m

    fams.append(Family("state_bit_vector", "BitVectorManagerLoader", "bit-vector",
                       general(L.BitVectorManagerLoader, "state_bit_vector_p2", []), INT_KEYS, sbv_build, bv_canon, bv_canon, probe_keys=INT_PROBES))

    # ---------------------------------------------------------------- statement status
    def status_build(j, key):
        out = {}
        for i in range([0, 1, 2, 1, 3][j]):
            sid = 10 * j + i + 1
            out[sid] = S.StmtStatus(
                stmt_id=sid, defined_symbol=20 + i, used_symbols=[30 + i, 31], implicitly_defined_symbols=[],
                implicitly_used_symbols=[40] if i else [],
                in_symbol_bits={S.SymbolDefNode(0, 7, 11)} if i else set(),
                out_symbol_bits={S.SymbolDefNode(0, 7, 11), S.SymbolDefNode(i, 20 + i, sid)},
                defined_states={100 + i}, in_state_bits=set(), out_state_bits={S.StateDefNode(i, 100 + i, sid)},
                field_name="fld" if j == 3 else "")
        return out

    def status_canon(key, d):
        if not isinstance(d, dict):
            return _py(d)
        out = {}
        for sid, st in d.items():
            out[str(_py(sid))] = {
                "stmt_id": _py(st.stmt_id), "defined_symbol": _py(st.defined_symbol), "used_symbols": _py(list(st.used_symbols)),
                "implicitly_defined_symbols": _py(list(st.implicitly_defined_symbols)),
                "implicitly_used_symbols": _py(list(st.implicitly_used_symbols)),
                "in_symbol_bits": _sorted([_py(n.to_tuple()) for n in st.in_symbol_bits]),
                "out_symbol_bits": _sorted([_py(n.to_tuple()) for n in st.out_symbol_bits]),
                "defined_states": _py(set(st.defined_states)),
                "in_state_bits": _sorted([[_py(n.index), _py(n.state_id), _py(n.stmt_id)] for n in st.in_state_bits]),
                "out_state_bits": _sorted([[_py(n.index), _py(n.state_id), _py(n.stmt_id)] for n in st.out_state_bits]),
                "field_name": _py(st.field_name) or "",
            }
        return out

    fams.append(Family("stmt_status", "StmtStatusLoader", "status",
                       general(L.StmtStatusLoader, "stmt_status_p1", []), INT_KEYS, status_build, status_canon, status_canon, probe_keys=INT_PROBES))

    # ---------------------------------------------------------------- symbol/state space
    def space_build(j, key):
        sp = S.SymbolStateSpace()
        n = [0, 1, 2, 2, 4][j]
        for i in range(n):
            if (i + j) % 2 == 1:
                sp.add(S.Symbol(stmt_id=10 + i, name=f"s{j}{i}", default_data_type="", states={i + 1} if i + 1 < n else set(),
                                symbol_id=50 + i, source_unit_id=101))        # a unit id, not the loader id: a 64-bit id in this
                # column (float64 because State rows leave it empty) would lose precision — pandas, not the loader
            else:
                sp.add(S.State(stmt_id=10 + i, state_id=200 + 10 * j + i, data_type="int", value=str(i),
                               fields={"f": {1}} if i == 2 else {}, array=[{2}] if i == 3 else [],
                               tangping_elements=set(), tangping_flag=False, source_symbol_id=50, source_state_id=200 + 10 * j + i,
                               access_path=[S.AccessPoint(kind=0, key=f"s{j}", state_id=-1)]))
        return sp

    def space_canon(key, sp):
        if not isinstance(sp, S.SymbolStateSpace):
            return _py(sp)
        out = []
        for it in sp:
            if isinstance(it, S.Symbol):
                out.append({"k": "symbol", "stmt_id": _py(it.stmt_id), "name": it.name, "default_data_type": _py(it.default_data_type) or "",
                            "states": _py(set(it.states)), "symbol_id": _py(it.symbol_id), "source_unit_id": _py(it.source_unit_id)})
            else:
                out.append({"k": "state", "stmt_id": _py(it.stmt_id), "state_id": _py(it.state_id), "data_type": _py(it.data_type),
                            "state_type": _py(it.state_type), "value": it.value if isinstance(it.value, str) else {"nonstr": str(it.value)},
                            "fields": {str(a): _py(set(b)) for a, b in it.fields.items()},
                            "array": [_py(set(b)) for b in it.array],
                            "tangping_flag": _py(it.tangping_flag), "tangping_elements": _py(set(it.tangping_elements)),
                            "access_path": [[_py(a.kind), _py(a.key), _py(a.state_id)] for a in it.access_path]})
        return out

    fams.append(Family("s2space", "SymbolStateSpaceLoader", "state-space",
                       general(L.SymbolStateSpaceLoader, "s2space_p1", []), INT_KEYS, space_build, space_canon, space_canon, probe_keys=INT_PROBES))

    # ---------------------------------------------------------------- parameter mapping (CallSite keys)
    # call sites that differ ONLY in the callee (one call statement, two callees), only in the call statement, only in the
    # caller: rows inside a bundle are found through hash(call_site), so any two of them must stay distinguishable
    CS_KEYS = [S.CallSite(1, 2, 3), S.CallSite(1, 2, 9), S.CallSite(1, 4, 3), S.CallSite(5, 2, 3)]
    # never saved: the tuple twin of a saved call site (same hash, not equal), a third callee of the same call statement,
    # the call site with caller and callee swapped
    CS_PROBES = [(1, 2, 3), S.CallSite(1, 2, 4), S.CallSite(3, 2, 1)]

    def pm_build(j, key):
        out = []
        for i in range([0, 1, 2, 1, 3][j]):
            out.append(S.ParameterMapping(arg_index_in_space=i, arg_state_id=300 + 10 * j + i, arg_source_symbol_id=60 + i,
                                          arg_access_path=[S.AccessPoint(kind=0, key=f"a{j}", state_id=-1)] if i != 1 else [],
                                          parameter_symbol_id=70 + i, parameter_type=1,
                                          parameter_access_path=S.AccessPoint(kind=9, key=f"p{i}", state_id=5) if i == 2 else None,
                                          is_default_value=(i == 1)))
        return out

    def pm_canon(key, l):
        if not isinstance(l, list) or any(not isinstance(p, S.ParameterMapping) for p in l):
            return _py(l)
        def ap(a):
            # a missing parameter access path is read back as the default AccessPoint() on purpose (callers use .key unguarded)
            a = S.AccessPoint() if a is None else a
            return [_py(a.kind), _py(a.key), _py(a.state_id)]
        return [{"arg_index_in_space": _py(p.arg_index_in_space), "arg_state_id": _py(p.arg_state_id),
                 "arg_source_symbol_id": _py(p.arg_source_symbol_id), "arg_access_path": [ap(a) for a in p.arg_access_path],
                 "parameter_symbol_id": _py(p.parameter_symbol_id), "parameter_type": _py(p.parameter_type),
                 "parameter_access_path": ap(p.parameter_access_path), "is_default_value": _py(p.is_default_value)} for p in l]

    fams.append(Family("callee_parameter_mapping", "CalleeParameterMapping", "method-level",
                       general(L.CalleeParameterMapping, "callee_parameter_mapping_p3", []), CS_KEYS, pm_build, pm_canon, pm_canon, probe_keys=CS_PROBES))

    # ---------------------------------------------------------------- defined / used maps
    def defsym_build(j, key):
        d = [{}, {7: [(0, 11)]}, {7: [(0, 11), (1, 12)], 8: [(2, 13)]}, {9: [(3, 14)]}, {7: [(0, 11)], 8: [(1, 12)], 9: [(2, 13), (3, 14)]}][j]
        return {sid: {S.SymbolDefNode(index=ix, symbol_id=sid, stmt_id=st) for ix, st in l} for sid, l in d.items()}

    def defsym_canon(key, d):
        if not isinstance(d, dict):
            return _py(d)
        return {str(_py(k)): _sorted([[_py(n.index), _py(n.symbol_id), _py(n.stmt_id)] if isinstance(n, S.SymbolDefNode) else _py(n) for n in v])
                for k, v in d.items()}

    fams.append(Family("defined_symbols", "MethodSymbolToDefinedLoader", "method-level",
                       general(L.MethodSymbolToDefinedLoader, "defined_symbols_p1", []), INT_KEYS, defsym_build, defsym_canon, defsym_canon, probe_keys=INT_PROBES))

    def defst_build(j, key):
        d = [{}, {107: [(0, 11)]}, {107: [(0, 11), (1, 12)], 108: [(2, 13)]}, {109: [(3, 14)]}, {107: [(0, 11)], 108: [(1, 12)], 109: [(2, 13), (3, 14)]}][j]
        return {sid: {S.StateDefNode(index=ix, state_id=sid, stmt_id=st) for ix, st in l} for sid, l in d.items()}

    def defst_canon(key, d):
        if not isinstance(d, dict):
            return _py(d)
        return {str(_py(k)): _sorted([[_py(n.index), _py(n.state_id), _py(n.stmt_id)] if isinstance(n, S.StateDefNode) else _py(n) for n in v])
                for k, v in d.items()}

    fams.append(Family("defined_states", "MethodStateToDefinedLoader", "method-level",
                       general(L.MethodStateToDefinedLoader, "defined_states_p1", []), INT_KEYS, defst_build, defst_canon, defst_canon, probe_keys=INT_PROBES))

    def used_build(j, key):
        return [{}, {7: {11}}, {7: {11, 12}, 8: {13}}, {9: {14}}, {7: {11}, 8: {12}, 9: {13, 14}}][j]

    fams.append(Family("used_symbols", "MethodSymbolToUsedLoader", "method-level",
                       general(L.MethodSymbolToUsedLoader, "used_symbols", []), INT_KEYS,
                       lambda j, k: {a: set(b) for a, b in used_build(j, k).items()}, setdict_canon, setdict_canon, probe_keys=INT_PROBES))

    # ---------------------------------------------------------------- symbol graph
    def sg_build(j, key):
        g = S.SymbolGraph(key)
        e = [[], [("d", 11, (0, 7, 11), 1)], [("d", 11, (0, 7, 11), 1), ("u", (0, 7, 11), 12, 2)], [("u", (1, 8, 12), 13, 4)],
             [("d", 11, (0, 7, 11), 1), ("u", (0, 7, 11), 12, 2), ("d", 12, (1, 8, 12), 3), ("u", (1, 8, 12), 13, 2)]][j]
        import numpy as np
        for n_, (kind, a, b, w) in enumerate(e):
            if kind == "d":
                g.add_edge(np.int64(a) if (j + n_) % 2 else a, S.SymbolDefNode(*b), w)
            else:
                g.add_edge(S.SymbolDefNode(*a), np.int64(b) if (j + n_) % 2 else b, w)
        return g.graph

    def sg_canon(key, g):
        if not hasattr(g, "edges"):
            return _py(g)
        def node(n):
            return ["sym"] + _py(list(n.to_tuple())) if isinstance(n, S.SymbolDefNode) else _py(n)
        return _sorted([[node(u), node(v), _py(w)] for u, v, w in g.edges(data="weight", default=0)])

    fams.append(Family("symbol_graph", "SymbolGraphLoader", "graph",
                       general(L.SymbolGraphLoader, "symbol_graph", schema.symbol_graph_schema_p2), INT_KEYS, sg_build, sg_canon, sg_canon, probe_keys=INT_PROBES))

    # ---------------------------------------------------------------- state flow graph
    def sfg_node(t):
        kind, stmt, ix, nid, ctx, name = t
        return S.SFGNode(node_type=kind, def_stmt_id=stmt, index=ix, node_id=nid, context=ctx, name=name)

    def sfg_build(j, key):
        g = S.StateFlowGraph(key)
        A, B, C, D = (1, 11, -1, -1, 0, "call_stmt"), (2, 11, 0, 7, 0, "x"), (3, 11, 1, 107, 0, ""), (2, 12, 2, 8, 0, "y")
        e = [[], [(A, B, (1, 11))], [(A, B, (1, 11)), (B, C, (5, 11))], [(D, A, (2, 12))], [(A, B, (1, 11)), (B, C, (5, 11)), (C, D, (7, 12)), (D, A, (2, 12))]][j]
        for a, b, (et, st) in e:
            g.add_edge(sfg_node(a), sfg_node(b), S.SFGEdge(edge_type=et, stmt_id=st, round=0, pos=0, name=""))
        return g.graph

    def sfg_canon(key, g):
        if not hasattr(g, "edges"):
            return _py(g)
        def node(n):
            return [_py(n.node_type), _py(n.def_stmt_id), _py(n.index), _py(n.node_id), _py(n.context_id), _py(n.name)]
        def edge(e):
            return None if e is None else [_py(e.edge_type), _py(e.stmt_id), _py(e.round), _py(e.pos), _py(e.name)]
        return _sorted([[node(u), node(v), edge(w)] for u, v, w in g.edges(data="weight", default=None)])

    fams.append(Family("state_flow_graph", "StateFlowGraphLoader", "graph",
                       general(L.StateFlowGraphLoader, "state_flow_graph_p3", schema.state_flow_graph_schema_p2), INT_KEYS,
                       sfg_build, sfg_canon, sfg_canon, probe_keys=INT_PROBES))
    return fams


def generic_canon(key, x, _depth=0):
    """Fallback canonical form for loader classes without a hand-written one: structural, order-insensitive for
    sets/dicts/graphs; objects by class name and public attributes.  Used only to compare two reads of the same item."""
    import numpy as np
    if _depth > 12:
        return "<deep>"
    try:
        from lian.util.data_model import DataModel
        if isinstance(x, DataModel):
            return _rows_of_datamodel(x)
    except Exception:
        pass
    if x is None or isinstance(x, (bool, int, float, str, np.generic, np.ndarray)):
        return _py(x)
    if isinstance(x, (list, tuple)):
        return [generic_canon(key, y, _depth + 1) for y in x]
    if isinstance(x, (set, frozenset)):
        return _sorted([generic_canon(key, y, _depth + 1) for y in x])
    if isinstance(x, dict):
        return {str(generic_canon(key, k, _depth + 1)): generic_canon(key, v, _depth + 1) for k, v in x.items()}
    if hasattr(x, "edges") and hasattr(x, "nodes"):
        return _sorted([[generic_canon(key, u, _depth + 1), generic_canon(key, v, _depth + 1), generic_canon(key, w, _depth + 1)]
                        for u, v, w in x.edges(data="weight", default=None)])
    if hasattr(x, "__dict__"):
        return [type(x).__name__, {k: generic_canon(key, v, _depth + 1) for k, v in sorted(vars(x).items()) if not k.startswith("_")}]
    return repr(x)
