"""C12 — results are invariant under meaning-preserving edits of the input.

Monitor (`meta` engine, the failing-input detector; needs no oracle): for each base project (generated Python /
JavaScript projects with a custom taint settings directory, and small corpus files of lian's own tests in
Python / JavaScript / Java) and each edit kind — blank lines, comments, a no-op statement, consistent renaming of one
local / parameter / function / class to a fresh name, exchanging two independent adjacent top-level definitions, moving
a top-level function into a new file and importing it — 1-3 edits are applied, BOTH versions are analysed by the real
`lian run` (subprocess, $LIAN_REPO/src), and three observables are compared after mapping the base observation through
the edit: call graph (static P1 graph and P3 call paths, as (caller file, caller name, call line, callee file, callee
name)), resolved bindings (per occurrence (file, line, operation, name) -> declaration (file, line, operation, name) |
unresolved), reported taint flows ((source file, source line), (sink file, sink line)).  Any difference is a failing
input for C12.

Lean side: (1) `pyimportpre` — the real `preprocess_python_import_statements` vs the Lean model on generated line
lists; (2) `meta` — the driver applies the edit's id / name / line map to the REAL GIR rows of the base program and
checks that the result equals the REAL rows of the edited program (ties the lemmas' notion of "edit" to what the
frontend emits: a blank line changes nothing but locations, a no-op statement shifts ids monotonically, …), and
re-evaluates the scope / resolver model on both sides of the equivariance theorems.
"""
import collections, glob, hashlib, json, os, re, shutil, subprocess, sys, time
from concurrent.futures import ThreadPoolExecutor
import common
from common import drv_batch, drv_ok
import c12_edits as E
import c12_gen as G

PROP = "C12"
INTERNAL = "%"


def n_workers():
    return max(1, min(os.cpu_count() or 4, int(os.environ.get("LV_WORKERS", "8"))))


def scratch_root():
    d = os.path.join(common.SCRATCH_ROOT, "lv-%d" % os.getpid())
    os.makedirs(d, exist_ok=True)
    return d


# ====================================================================================== running lian

LANG_OF_EXT = {".py": "python", ".js": "javascript", ".java": "java"}


def project_langs(proj):
    return sorted({LANG_OF_EXT[os.path.splitext(r)[1]] for r in proj["files"] if os.path.splitext(r)[1] in LANG_OF_EXT})


def run_lian(proj, d, keep=False):
    """write the project + settings under directory `d`, run `lian run`, return the observation (or {"error":…})"""
    if os.path.exists(d):
        shutil.rmtree(d)
    pdir, sdir = os.path.join(d, "proj"), os.path.join(d, "settings")
    for rel, text in sorted(proj["files"].items()):      # creation order = name order, whatever the dict order is
        p = os.path.join(pdir, rel)
        os.makedirs(os.path.dirname(p), exist_ok=True)
        with open(p, "w") as f:
            f.write(text)
    langs = project_langs(proj)
    os.makedirs(sdir, exist_ok=True)
    for fn, text in G.settings_files(langs).items():
        with open(os.path.join(sdir, fn), "w") as f:
            f.write(text)
    env = dict(os.environ)
    env["PYTHONPATH"] = os.path.join(common.REPO, "src")
    env["PYTHONHASHSEED"] = "0"
    cmd = ["/venv/bin/python", os.path.join(common.REPO, "src", "lian", "main.py"), "run", "-l", ",".join(langs),
           "-w", "ws", "-f", "--default-settings", "settings", "proj"]
    t = time.time()
    try:
        p = subprocess.run(cmd, cwd=d, env=env, capture_output=True, text=True, timeout=600)
    except subprocess.TimeoutExpired:
        return {"error": "timeout"}
    wsd = os.path.join(d, "ws", "lian_workspace")
    try:
        obs = observe(wsd)
    except Exception as ex:
        obs = {"error": "cannot read workspace: %s: %s" % (type(ex).__name__, ex),
               "tail": (p.stdout + p.stderr)[-1200:]}
    obs["rc"] = p.returncode
    obs["wall"] = round(time.time() - t, 1)
    if not keep:
        shutil.rmtree(d, ignore_errors=True)
    return obs


def _nan(x):
    return x is None or (isinstance(x, float) and x != x)


def _read_bundles(out, rel):
    import pandas as pd
    files = glob.glob(os.path.join(out, rel + ".bundle*"))
    files.sort(key=lambda f: int(f.rsplit("bundle", 1)[1]))
    if not files:
        return None
    return pd.concat([pd.read_feather(f) for f in files], ignore_index=True)


IMPORT_OPS = ("import_stmt", "from_import_stmt", "from_export_stmt", "export_stmt")
DECL_OPS = ("variable_decl", "parameter_decl", "method_decl", "class_decl")
ID_ATTRS_EXTRA = ("original_stmt",)
LOC_KEYS = ("start_row", "start_col", "end_row", "end_col")
# `original_stmt` is written by flatten's back-patch (a variable_decl row directly followed by an assign/call row gets the
# id of that row) and never read by any analysis; for Python's hoisted declarations it depends on which statement happens
# to stand first in the body, so a no-op statement inserted there makes it disappear.  Not compared.
IGNORED_ATTRS = ("original_stmt",)
LINE_ATTRS = ("decorators",)          # python_parser: row of the first decorator (or of the def) — a location


def observe(wsd):
    """everything C12 compares, read from one lian workspace.  Files are named relative to the project root."""
    import pandas as pd
    mods = pd.read_feather(os.path.join(wsd, "frontend", "module_symbols"))
    unit_rel = {}
    for r in mods.to_dict("records"):
        if not _nan(r.get("unit_id")) and not bool(r["is_extern"]):
            p = str(r["unit_path"])
            marker = "/src/proj/"
            if marker in p:
                unit_rel[int(r["module_id"])] = p.split(marker, 1)[1]
    gir = _read_bundles(wsd, "frontend/gir")
    cols = list(gir.columns)
    rows = {}                   # unit rel -> list of row dicts (table order), own units only
    by_id = {}
    block_ids = set()
    for r in gir.to_dict("records"):
        u = int(r["unit_id"])
        d = {"op": r["operation"], "id": int(r["stmt_id"]), "parent": int(r["parent_stmt_id"]), "unit": u, "attrs": {}}
        for k in cols:
            if k in ("operation", "stmt_id", "parent_stmt_id", "unit_id"):
                continue
            v = r[k]
            if _nan(v):
                continue
            if isinstance(v, float):
                if v != int(v):
                    raise ValueError("non-integral number %r in column %s" % (v, k))
                v = int(v)
            elif not isinstance(v, (int, str)):
                v = int(v) if hasattr(v, "__int__") and not isinstance(v, (bytes, list)) else str(v)
            d["attrs"][k] = v
        if d["op"] == "block_start":
            block_ids.add(d["id"])
        if d["id"] not in by_id:
            by_id[d["id"]] = d
        if u in unit_rel:
            rows.setdefault(unit_rel[u], []).append(d)

    def line(d):
        sr = d["attrs"].get("start_row") if d else None
        return None if sr is None else sr + 1

    def fileof(d):
        return unit_rel.get(d["unit"], "<extern>") if d else None

    # enclosing method of each statement
    def method_of(sid):
        seen = 0
        d = by_id.get(sid)
        while d is not None and seen < 10000:
            if d["op"] == "method_decl":
                return d
            d = by_id.get(d["parent"])
            seen += 1
        return None

    def mkey(mid):
        """a method is identified by (file, line of its declaration, name)"""
        d = by_id.get(mid)
        if d is None:
            return None
        return (fileof(d), line(d), d["attrs"].get("name"))

    obs = {"files": sorted(unit_rel.values()), "unit_order": [unit_rel[u] for u in sorted(unit_rel)]}
    # ---- call graph (P1 static): multiset of (caller, call line, callee text, callee | None)
    calls1 = collections.Counter()
    p = os.path.join(wsd, "semantic_p1", "call_graph_p1")
    if os.path.exists(p):
        for r in pd.read_feather(p).to_dict("records"):
            src, tgt, st = int(r["source_method_id"]), int(r["target_method_id"]), int(r["stmt_id"])
            sd = by_id.get(src)
            if sd is None or sd["unit"] not in unit_rel:
                continue
            cs = by_id.get(st)
            txt = cs["attrs"].get("name") if cs else None
            if isinstance(txt, str) and txt.startswith(INTERNAL):
                txt = INTERNAL
            calls1[(mkey(src), fileof(cs), line(cs), txt, mkey(tgt) if tgt > 0 else None)] += 1
    obs["calls_p1"] = calls1
    # ---- call graph (P3 call paths): set of edges (caller, call line, callee)
    calls3 = set()
    p = os.path.join(wsd, "semantic_p3", "call_paths_p3")
    if os.path.exists(p):
        for r in pd.read_feather(p).to_dict("records"):
            for site in r["call_path"]:
                src, st, tgt = int(site[0]), int(site[1]), int(site[2])
                cs = by_id.get(st)
                calls3.add((mkey(src), fileof(cs), line(cs), mkey(tgt)))
    obs["calls_p3"] = calls3
    # ---- bindings
    binds = collections.Counter()
    s2 = _read_bundles(wsd, "semantic_p1/s2space_p1")
    if s2 is not None:
        s2 = s2[s2["symbol_or_state"] == 0]
        for r in s2[["stmt_id", "name", "symbol_id", "source_unit_id"]].to_dict("records"):
            st = by_id.get(int(r["stmt_id"]))
            if st is None or st["unit"] not in unit_rel:
                continue
            name = str(r["name"])
            if name.startswith(INTERNAL) or st["op"] in IMPORT_OPS:
                continue
            sid = int(r["symbol_id"])
            if sid <= 0:
                tgt = ("unresolved",)
            else:
                dd = by_id.get(sid)
                if dd is None:
                    tgt = ("unit", unit_rel.get(sid, "<extern unit>")) if sid in set(mods["module_id"]) else ("symbol?",)
                elif dd["unit"] not in unit_rel:
                    tgt = ("extern", dd["op"], dd["attrs"].get("name"))
                else:
                    tgt = ("decl", fileof(dd), line(dd), dd["op"], dd["attrs"].get("name"))
            binds[(fileof(st), line(st), st["op"], name, tgt)] += 1
    obs["binds"] = binds
    # ---- taint flows
    flows = set()
    flow_paths = {}      # flow -> lines of the statements on its reported data-flow path (used by matchers only)
    tf = os.path.join(wsd, "taint", "taint_data_flow.json")
    if os.path.exists(tf):
        for f in json.load(open(tf)):
            def rel(p_):
                return p_.split("/src/proj/", 1)[1] if "/src/proj/" in p_ else p_
            key = (rel(f["source_file_path"]), int(f["source_line"]), rel(f["sink_file_path"]), int(f["sink_line"]))
            flows.add(key)
            for n in f.get("data_flow", []):
                flow_paths.setdefault(key, set()).add((rel(n["file_path"]), int(n["start_line"])))
    obs["flows"] = flows
    obs["flow_paths"] = flow_paths
    obs["rows"] = rows
    obs["block_ids"] = block_ids
    return obs


# ====================================================================================== mapping and comparison

def map_obs(obs, em):
    """the observation the EDITED program must produce, computed from the base observation and one edit map"""
    def P(f, l):
        return em.pos(f, l)

    def M(m):
        if m is None:
            return None
        f, l, n = m
        f2, l2 = P(f, l)
        return (f2, l2, em.name(f, l, n) if n is not None else None)

    out = {}
    c1 = collections.Counter()
    for (caller, cf, ln, txt, callee), k in obs["calls_p1"].items():
        cf2, ln2 = P(cf, ln)
        c1[(M(caller), cf2, ln2, em.name(cf, ln, txt) if txt is not None else None, M(callee))] += k
    out["calls_p1"] = c1
    out["calls_p3"] = {(M(caller), ) + P(cf, ln) + (M(callee),) for caller, cf, ln, callee in obs["calls_p3"]}
    out["binds"] = collections.Counter()
    for (f, l, op, n, tgt), k in obs["binds"].items():
        f2, l2 = P(f, l)
        n2 = em.name(f, l, n)
        if tgt[0] == "decl":
            df, dl = P(tgt[1], tgt[2])
            tgt = ("decl", df, dl, tgt[3], em.name(tgt[1], tgt[2], tgt[4]) if tgt[4] is not None else None)
        out["binds"][(f2, l2, op, n2, tgt)] += k
    out["flows"] = {P(sf, sl) + P(kf, kl) for sf, sl, kf, kl in obs["flows"]}
    return out


OBS_KEYS = ("calls_p1", "calls_p3", "binds", "flows")


def diff_obs(expected, real):
    """differences between the mapped base observation and the observation of the edited program:
    list of {"what", "side": "only_expected"|"only_edited", "item"}"""
    out = []
    for k in OBS_KEYS:
        a, b = expected[k], real[k]
        if isinstance(a, collections.Counter):
            for item in sorted(set(a) | set(b), key=repr):
                if a.get(item, 0) != b.get(item, 0):
                    out.append({"what": k, "item": item, "expected_count": a.get(item, 0), "edited_count": b.get(item, 0)})
        else:
            for item in sorted(a - b, key=repr):
                out.append({"what": k, "item": item, "expected_count": 1, "edited_count": 0})
            for item in sorted(b - a, key=repr):
                out.append({"what": k, "item": item, "expected_count": 0, "edited_count": 1})
    return out


# ====================================================================================== choosing edits

KINDS = ["blank", "comment", "noop", "rename_local", "rename_global", "swap", "move"]
KIND_GROUP = {"blank": "lines", "comment": "lines", "noop": "noop", "rename_local": "rename", "rename_global": "rename",
              "swap": "reorder", "move": "move"}


def dotted_imports(text):
    out = []
    for l in E.split_lines(text):
        s = l.strip()
        if s.startswith("import "):
            for n in s[len("import "):].split(","):
                n = n.strip()
                if "." in n and re.match(r"^[\w.]+$", n):
                    out.append(n)
    return out


def choose_edit(rng, proj, kind, keep=G.KEEP):
    """one valid edit of `kind` on a random file of the project, or None.  For swap / move the interesting variants
    (definitions that mention each other at call time; functions other files import = re-export after the move) are
    looked for in every file and preferred with probability 0.7."""
    if kind in ("swap", "move") and rng.random() < 0.7:
        special = []
        rels0 = sorted(r for r in proj["files"] if os.path.splitext(r)[1] in LANG_OF_EXT)
        for rel in rels0:
            for _ in range(3):
                e = _choose_edit_in(rng, proj, kind, keep, [rel])
                if e is not None and (e.get("call_time_dependency") or e.get("reexport_importers")):
                    special.append(e)
                    break
        if special:
            return rng.choice(special)
    rels = sorted(r for r in proj["files"] if os.path.splitext(r)[1] in LANG_OF_EXT)
    rng.shuffle(rels)
    return _choose_edit_in(rng, proj, kind, keep, rels)


def _choose_edit_in(rng, proj, kind, keep, rels):
    for rel in rels:
        text = proj["files"][rel]
        lang = LANG_OF_EXT[os.path.splitext(rel)[1]]
        e = None
        if lang == "python":
            if kind in ("blank", "comment", "noop"):
                e = E.candidates_py_insert(text, rel, rng, kind, dotted=dotted_imports(text))
            elif kind == "rename_local":
                e = E.candidates_py_rename_local(text, rel, rng, keep)
            elif kind == "rename_global":
                e = E.candidates_py_rename_global(proj, rel, rng, keep)
            elif kind == "swap":
                e = E.candidates_py_swap(text, rel, rng)
            elif kind == "move":
                e = E.candidates_py_move(proj, rel, rng, keep, G.EXTERNALS)
        elif lang == "javascript":
            if kind in ("blank", "comment", "noop"):
                e = E.candidates_braces_insert(text, rel, rng, kind, lang)
            elif kind == "rename_local":
                e = E.candidates_js_rename_local(text, rel, rng, keep)
            elif kind == "rename_global":
                e = E.candidates_js_rename_function(proj, rel, rng, keep)
            elif kind == "swap":
                e = E.candidates_js_swap(text, rel, rng)
            elif kind == "move":
                e = E.candidates_js_move(proj, rel, rng, keep, G.EXTERNALS, "esm")
        elif lang == "java":
            if kind in ("blank", "comment", "noop"):
                e = E.candidates_braces_insert(text, rel, rng, kind, lang)
        if e is not None:
            e["edit_kind"] = kind
            # the edited program must still be a program of the language (Python: it must compile)
            new = E.apply_edit(proj, e)
            if not all(E.py_parse(t) is not None for r, t in new["files"].items()
                       if r.endswith(".py") and E.py_parse(proj["files"].get(r, "")) is not None):
                continue
            if lang == "python" and kind in ("blank", "comment"):
                # independent sanity check of the edit itself: blank lines and comments leave the CPython AST unchanged
                import ast as _ast
                t0, t1 = E.py_parse(text), E.py_parse(new["files"][rel])
                if t0 is not None and (t1 is None or _ast.dump(t0) != _ast.dump(t1)):
                    continue
            return e
    return None


def gen_chain(rng, proj, kinds, n):
    """n successive edits (each valid on the program the previous ones produced); the first one of kind kinds[0]"""
    edits, cur = [], proj
    for i in range(n):
        kind = kinds[i] if i < len(kinds) else rng.choice(KINDS)
        e = choose_edit(rng, cur, kind)
        if e is None:
            continue
        edits.append(e)
        cur = E.apply_edit(cur, e)
    return edits


def versions(proj, edits):
    out = [proj]
    for e in edits:
        out.append(E.apply_edit(out[-1], e))
    return out


def proj_key(proj):
    return hashlib.sha256(json.dumps(proj["files"], sort_keys=True).encode()).hexdigest()[:16]


class Runner:
    """runs each distinct program once (bounded pool), keeps the observations"""

    def __init__(self, root):
        self.root = root
        self.obs = {}
        self.runs = 0
        self.wall = []

    def need(self, projs):
        todo = {}
        for p in projs:
            k = proj_key(p)
            if k not in self.obs and k not in todo:
                todo[k] = p
        if not todo:
            return
        items = list(todo.items())
        with ThreadPoolExecutor(max_workers=n_workers()) as ex:
            res = list(ex.map(lambda kp: run_lian(kp[1], os.path.join(self.root, "r_" + kp[0])), items))
        for (k, p), o in zip(items, res):
            if o.get("error") == "timeout":
                o = run_lian(p, os.path.join(self.root, "r_" + k))
                if o.get("error") == "timeout":
                    raise RuntimeError("a lian run timed out twice (600 s each)")
            self.obs[k] = o
            self.runs += 1
            self.wall.append(o.get("wall", 0))

    def get(self, proj):
        return self.obs[proj_key(proj)]


def jsonable(x):
    if isinstance(x, (set, frozenset)):
        return sorted((jsonable(v) for v in x), key=repr)
    if isinstance(x, collections.Counter):
        return sorted(([jsonable(k), v] for k, v in x.items()), key=repr)
    if isinstance(x, dict):
        return {str(k): jsonable(v) for k, v in x.items()}
    if isinstance(x, (list, tuple)):
        return [jsonable(v) for v in x]
    return x


def pair_diff(obs_a, obs_b, edit):
    """differences between version A mapped through `edit` and version B; a failed run is a difference of its own"""
    if "error" in obs_a or "error" in obs_b:
        if ("error" in obs_a) != ("error" in obs_b):
            return [{"what": "run", "item": ["analysis failed on one side only", obs_a.get("error"), obs_b.get("error")],
                     "expected_count": 0, "edited_count": 0}]
        return []
    return diff_obs(map_obs(obs_a, E.EditMap(edit)), obs_b)


# ====================================================================================== tie: edit maps on REAL GIR rows

def mrow(d, block_ids):
    """abstract one real GIR row (dict of `observe`) to the `MRow` of LianVerif.Meta"""
    a = d["attrs"]
    loc = [a[k] for k in LOC_KEYS] if all(k in a for k in LOC_KEYS) else None
    line_attrs, refs, names, other = [], [], [], []
    for k, v in sorted(a.items()):        # column order of the feather table is not an observable
        if k in LOC_KEYS or k in IGNORED_ATTRS:
            continue
        if isinstance(v, int):
            if k in LINE_ATTRS:
                line_attrs.append([k, v])
            elif v in block_ids or k in ID_ATTRS_EXTRA:
                refs.append([k, v])
            else:
                other.append([k, str(v)])
        else:
            items = None
            if v.startswith("[") and v.endswith("]"):
                try:
                    import ast as _ast
                    lit = _ast.literal_eval(v)
                    if isinstance(lit, list) and all(isinstance(x, str) for x in lit):
                        items = lit
                except (ValueError, SyntaxError, MemoryError, RecursionError):
                    items = None
            names.append([k, items if items is not None else [v]])
    return [d["op"], d["id"], d["parent"], loc, line_attrs, refs, names, other]


def subtrees(rows):
    """split a unit's table into top-level subtrees: maximal runs that start at a row with parent 0"""
    out = []
    for r in rows:
        if r["parent"] == 0 or not out:
            out.append([r])
        else:
            out[-1].append(r)
    return out


def line_of(r):
    sr = r["attrs"].get("start_row")
    return None if sr is None else sr + 1


def tie_request(obs_a, obs_b, edit, ops):
    """the driver request that checks `editRows (ρ, σ, λ) rowsA = rowsB minus inserted rows` for one edit.
    Returns (request, note) or (None, reason) when the alignment itself fails (reported as a tie failure)."""
    em = E.EditMap(edit)
    k = edit["kind"]
    added = em.added()
    files_a, files_b = obs_a["rows"], obs_b["rows"]
    pieces = []
    # ---- table alignment, file by file
    pairs = []          # (rows of A in the order they must appear, rows of B minus inserted)
    for rel in sorted(set(files_a) | set(files_b)):
        ra = list(files_a.get(rel, []))
        rb = list(files_b.get(rel, []))
        ins = [r["id"] for r in rb if (rel, line_of(r)) in added]
        if ins and k == "insert":
            # a no-op statement inserted at the top level of a unit that had no top-level statement makes add_main_func
            # create the synthetic %unit_init method (three rows without location): they are inserted rows too
            def init_rows(rows_):
                m = [r for r in rows_ if r["op"] == "method_decl" and r["parent"] == 0 and r["attrs"].get("name") == "%unit_init"]
                if not m:
                    return []
                body = m[0]["attrs"].get("body")
                return [m[0]["id"]] + [r["id"] for r in rows_ if r["id"] == body][:1]
            if not init_rows(ra) and init_rows(rb):
                ins += init_rows(rb)
        if k == "swap" and rel == edit["file"]:
            st = subtrees(ra)
            (s1, e1), (s2, e2) = edit["a"], edit["b"]
            ia = [i for i, t in enumerate(st) if line_of(t[0]) is not None and s1 <= line_of(t[0]) <= e1]
            ib = [i for i, t in enumerate(st) if line_of(t[0]) is not None and s2 <= line_of(t[0]) <= e2]
            inside_init = [r for t in st if t[0]["attrs"].get("name") == "%unit_init" for r in t[1:]
                           if line_of(r) is not None and s1 <= line_of(r) <= e2]
            if len(ia) != 1 or len(ib) != 1 or ia[0] + 1 != ib[0] or inside_init:
                # e.g. default values evaluated at definition time: statements of the two definitions also live in
                # %unit_init; the simple alignment below does not apply
                return None, "skip: swap of definitions that own top-level statements"
            st[ia[0]], st[ib[0]] = st[ib[0]], st[ia[0]]
            ra = [r for t in st for r in t]
        if k == "move" and rel == edit["file"]:
            st = subtrees(ra)
            s, t_ = edit["range"]
            im = [i for i, t in enumerate(st) if line_of(t[0]) is not None and s <= line_of(t[0]) <= t_]
            inside_init = [r for t in st if t[0]["attrs"].get("name") == "%unit_init" for r in t[1:]
                           if line_of(r) is not None and s <= line_of(r) <= t_]
            if len(im) != 1 or inside_init:
                return None, "skip: move of a definition that owns top-level statements"
            moved = st.pop(im[0])
            ra = [r for t in st for r in t]
            nb = list(files_b.get(edit["newfile"], []))
            pairs.append((edit["file"] + "->" + edit["newfile"], moved, nb,
                          [r["id"] for r in nb if (edit["newfile"], line_of(r)) in added]))
        if k == "move" and rel == edit["newfile"]:
            continue
        pairs.append((rel, ra, rb, ins))
    ids, names = {}, {}
    # line pieces (0-based rows), per file they are the same function as EditMap.pos; the driver gets one piecewise map
    # per request, so a request covers ONE file pair
    reqs = []
    for tag, ra, rb_all, dropped in pairs:
        rb = [r for r in rb_all if r["id"] not in dropped]
        if len(ra) != len(rb):
            return None, "%s: %d base rows vs %d edited rows (after removing inserted rows)" % (tag, len(ra), len(rb))
        rel_a = tag.split("->")[0]
        idm, nm = {}, {}
        for x, y in zip(ra, rb):
            if idm.setdefault(x["id"], y["id"]) != y["id"]:
                return None, "%s: id %d maps to two ids" % (tag, x["id"])
            # temporaries are numbered per unit in emission order: their renaming is read off the alignment
            for key, v in x["attrs"].items():
                w = y["attrs"].get(key)
                if isinstance(v, str) and isinstance(w, str):
                    for s_, t_ in zip(re.findall(r"%d?vv\d+", v), re.findall(r"%d?vv\d+", w)):
                        if nm.setdefault(s_, t_) != t_:
                            return None, "%s: temporary %s maps to two names" % (tag, s_)
        if k == "rename":
            nm[edit["old"]] = edit["new"]
        # line map of this file as pieces over the rows that occur
        rowsset = sorted({v for x in ra for kk, v in x["attrs"].items()
                          if kk in ("start_row", "end_row") + LINE_ATTRS and isinstance(v, int)})
        pcs = []
        for r0 in rowsset:
            f2, l2 = em.pos(rel_a, r0 + 1)
            if l2 - 1 != r0:
                pcs.append([r0, r0, l2 - 1])
        blocks = obs_a["block_ids"] | obs_b["block_ids"]
        req = {"m": "meta", "base": [mrow(x, blocks) for x in ra], "edited": [mrow(y, blocks) for y in rb_all],
               "ids": sorted([a, b] for a, b in idm.items()), "names": sorted([a, b] for a, b in nm.items()),
               "lines": pcs, "drop": sorted(dropped),
               # a renaming changes the width of tokens, a trailing comment the end column of the enclosing compound
               # statements: columns are not compared for these two
               "drop_cols": k in ("rename", "append"),
               # a comment right after a block is counted into the extent of the enclosing compound statements
               "drop_end": edit.get("flavour") == "comment"}
        if k == "rename":
            # identifiers are renamed on the rows of the renamed occurrences only
            req["rename_rows"] = sorted(x["id"] for x in ra if line_of(x) in em.lines.get(rel_a, ()))
        if ops is not None:
            req["ops"] = ops
            qs = []
            for x in ra:
                for key in ("name", "target", "operand", "operand2", "receiver_object"):
                    v = x["attrs"].get(key)
                    if isinstance(v, str) and re.match(r"^[A-Za-z_]\w*$", v) and x["op"] not in IMPORT_OPS + DECL_OPS \
                            and x["op"] not in ("block_start", "block_end"):
                        qs.append([x["id"], v, "use"])
            req["queries"] = qs[:400]
        reqs.append((tag, req))
    return reqs, None


def tie_check(obs_a, obs_b, edit, ops):
    """[] when the real rows of B are the edit applied to the real rows of A; else list of reasons"""
    reqs, why = tie_request(obs_a, obs_b, edit, ops)
    if reqs is None:
        if why.startswith("skip:"):
            return [], {"skipped": 1}
        return [why], {"files": 0, "rows": 0, "mono": 0, "bind": 0}
    replies = drv_ok(drv_batch([r for _, r in reqs]))
    bad = []
    st = {"files": len(reqs), "rows": 0, "mono": 0, "bind": 0}
    for (tag, req), rep in zip(reqs, replies):
        st["rows"] += rep["n_base"]
        st["mono"] += 1 if rep["mono"] else 0
        st["bind"] += rep["bind_checked"]
        if not rep["equal"]:
            bad.append("%s: row %s differs: want %s got %s" % (tag, rep["first"], str(rep["want"])[:300], str(rep["got"])[:300]))
        if not rep["inj"]:
            bad.append("%s: the id map is not injective" % tag)
        if edit["kind"] in ("insert", "append", "rename") and not rep["mono"]:
            bad.append("%s: the id map of a %s edit is not strictly monotone" % (tag, edit["kind"]))
        if rep["bind_bad"] is not None and rep["equal"]:
            bad.append("%s: scope/resolver model does not commute with the edit on query %s" % (tag, req["queries"][rep["bind_bad"]]))
    return bad, st


# ====================================================================================== layer 1: pyimportpre

_PRE = {}


def real_preprocess(code):
    """the real handler, as it is in $LIAN_REPO now"""
    if "f" not in _PRE:
        common.use_repo()
        from lian.events.default_event_handlers import basic
        from lian.events.handler_template import EventData
        _PRE["f"] = basic.preprocess_python_import_statements
        _PRE["spans"] = getattr(basic, "python_literal_spans", None)
        _PRE["ED"] = EventData
    d = _PRE["ED"]("python", 0, code)
    _PRE["f"](d)
    return d.out_data


def real_spans(code):
    real_preprocess("")
    f = _PRE["spans"]
    ls = code.splitlines()
    if f is None:
        return None
    return [[list(s) for s in sp] for sp in f(code, ls)]


def pinned_preprocess():
    """the function at the root commit of the repository (the pinned code), for the frozen model; None when git
    cannot deliver it"""
    if "pinned" in _PRE:
        return _PRE["pinned"]
    _PRE["pinned"] = None
    try:
        root = subprocess.run(["git", "-C", common.REPO, "rev-list", "--max-parents=0", "HEAD"], capture_output=True,
                              text=True, timeout=30).stdout.split()[0]
        src = subprocess.run(["git", "-C", common.REPO, "show", root + ":src/lian/events/default_event_handlers/basic.py"],
                             capture_output=True, text=True, timeout=30).stdout
        i = src.index("def preprocess_python_import_statements(")
        j = src.index("\ndef ", i + 10)
        ns = {"re": re, "er": type("er", (), {"EventHandlerReturnKind": type("K", (), {"SUCCESS": 0})})}
        exec("class EventData: pass\n" + src[i:j], ns)

        def run(code):
            d = type("D", (), {})()
            d.in_data = code
            ns["preprocess_python_import_statements"](d)
            return d.out_data
        _PRE["pinned"] = run
    except Exception:
        _PRE["pinned"] = None
    return _PRE["pinned"]


PRE_ATOMS = ["import ", "import ", "from ", " import ", "os.path", "a.b", "a.b.c", "x.y", "os", "a", "b", "ab", "a_b", ".",
             ",", ", ", " ", "  ", "\t", "(", ")", "=", " = ", "\"", "'", "#", " # ", "\"\"\"", "_", "1", "xa.b", "a.bx", "a.b.",
             ".a.b", "as", " as ", ";", ":", "def f():", "return ", "f\"", "{", "}", "\\", "s", "q.r", "import"]


def gen_pre_case(rng):
    """a list of lines over an alphabet rich in what the handler looks at"""
    n = rng.randint(1, 6)
    lines = []
    for _ in range(n):
        r = rng.random()
        if r < 0.3:
            k = rng.randint(1, 3)
            names = [rng.choice(["os.path", "a.b", "a.b.c", "x.y", "os", "sys", "a", "q.r", " a.b ", "a.b as c", ""]) for _ in range(k)]
            l = rng.choice(["", "", "    ", "\t"]) + "import " + rng.choice([",", ", ", " , "]).join(names) + \
                rng.choice(["", "", "  # c", " ; x = 1", "  # see a.b, q.r", "#x", " # 'q' \"s\""])
        elif r < 0.55:
            l = rng.choice(["", "    "]) + rng.choice([
                "s = \"see %s docs\"", "t = %s.join(c)", "u = '%s' + %s.sep", "# about %s", "v = f\"{%s.k} %s\"",
                "w = x%s", "w = %sx + %s", "return self.%s", "z = %s.%s", "from %s import k", "\"\"\" %s", "%s\"\"\"",
                "r = (%s)", "k[%s] = 1  # %s"]).replace("%s", rng.choice(["os.path", "a.b", "a.b.c", "x.y", "q.r"]))
        else:
            l = "".join(rng.choice(PRE_ATOMS) for _ in range(rng.randint(0, 7)))
        lines.append(l)
    if lines[-1] == "":
        lines[-1] = "pass"
    return lines


def pre_oracle(lines, out_text):
    """independent of lian and of the model: (1) one output line per input line; (2) the text of every string literal
    and comment that Python's tokenizer finds in the input stands unchanged at the same place in the output; (3) a line
    is changed only if it is an import line or contains, outside literals, a dotted name imported by an earlier plain
    `import` line.  Evaluated only on inputs that tokenize completely."""
    import io, tokenize, warnings
    warnings.simplefilter("ignore", SyntaxWarning)
    code = "\n".join(lines)
    out_lines = out_text.split("\n") if lines else ([] if out_text == "" else out_text.split("\n"))
    why = []
    if len(out_lines) != len(lines):
        return ["%d input lines became %d output lines" % (len(lines), len(out_lines))]
    try:
        toks = list(tokenize.generate_tokens(io.StringIO(code).readline))
    except (tokenize.TokenError, SyntaxError, ValueError):
        return []
    fm = getattr(tokenize, "FSTRING_MIDDLE", -1)
    lit = []                 # (row, a, b) literal spans
    for t in toks:
        if t.type in (tokenize.STRING, tokenize.COMMENT, fm):
            (r1, c1), (r2, c2) = t.start, t.end
            for r in range(r1, r2 + 1):
                if 1 <= r <= len(lines):
                    lit.append((r, c1 if r == r1 else 0, c2 if r == r2 else len(lines[r - 1])))
    # an import line (first non-blank character is code) is rewritten wholesale, trailing comment included
    imp = set()
    for r, l in enumerate(lines, 1):
        lead = len(l) - len(l.lstrip())
        if l.lstrip().startswith("import ") and not any(rr == r and a <= lead < b for rr, a, b in lit):
            imp.add(r)
    # … but its trailing comment must come out as it went in, at the end of the line
    for t in toks:
        if t.type == tokenize.COMMENT and t.start[0] in imp and t.start[0] == t.end[0]:
            r = t.start[0]
            if not out_lines[r - 1].endswith(lines[r - 1][t.start[1]:]):
                why.append("comment of import line %d not kept: %r -> %r" % (r, lines[r - 1], out_lines[r - 1]))
            head = lines[r - 1][:t.start[1]].rstrip()
            names = [n.strip() for n in head.lstrip()[6:].split(",")]
            for n in names:
                want = ("from %s import %s" % (n, n.replace(".", "_"))) if "." in n else ("import %s" % n)
                if want not in out_lines[r - 1]:
                    why.append("import line %d: %r missing from %r" % (r, want, out_lines[r - 1]))
    for r, a, b in lit:
        if r not in imp and out_lines[r - 1][a:b] != lines[r - 1][a:b]:
            why.append("literal text changed on line %d: %r -> %r" % (r, lines[r - 1][a:b], out_lines[r - 1][a:b]))
    for r, l in enumerate(lines, 1):
        if r not in imp and out_lines[r - 1] != l and not any("." in n for q in range(1, r) if q in imp
                                                              for n in lines[q - 1].lstrip()[6:].split(",")):
            why.append("line %d changed although no dotted import precedes it" % r)
    return why


def layer_pre(ctx, n, corr_breaks, failing, stats):
    cases = [["import os.path", "s = \"see os.path docs\""], ["import os, sys", "x = 1"],
             ["import a.b, c", "    y = a.b.f()  # a.b", "'''", "import q.r", "'''", "z = q.r"],
             ["def g(conf):", "    return conf.db", "import conf.db", "    return conf.db"],
             ["import os.path  # def f(): pass", "x = os.path.join(a)"], ["import os  # a, b.c", "y = 1"],
             ["    import x.y, z#c", "    v = x.y"]]
    for _ in range(n):
        cases.append(gen_pre_case(ctx.rng))
    live = real_spans("") is not None
    reqs, metas = [], []
    pinned = pinned_preprocess()
    for ls in cases:
        code = "\n".join(ls)
        if any(ord(ch) > 126 or (ord(ch) < 32 and ch != "\t") for l_ in ls for ch in l_):
            continue
        if code.splitlines() != ls:
            continue
        real = real_preprocess(code)
        if live:
            reqs.append({"m": "pyimportpre", "variant": "current", "lines": ls, "spans": real_spans(code)})
        else:
            reqs.append({"m": "pyimportpre", "variant": "pinned", "lines": ls})
        metas.append(("live", ls, real))
        if pinned is not None:
            reqs.append({"m": "pyimportpre", "variant": "pinned", "lines": ls})
            metas.append(("pinned", ls, pinned(code)))
    if not common.LeanSide.build()[0]:
        replies = [None] * len(reqs)
    else:
        replies = drv_ok(drv_batch(reqs))
    seen = set()
    for (which, ls, real), rep in zip(metas, replies):
        if which == "live":
            ctx.cov["evaluations"] += 1
            stats["pre_cases"] += 1
            changed = real != "\n".join(ls)
            key = json.dumps(ls)
            if changed and key not in seen:
                stats["pre_nontrivial"] += 1
            seen.add(key)
            why = pre_oracle(ls, real)
            if why:
                failing.append({"layer": "pyimportpre", "lines": ls, "real": real, "why": why})
        if rep is not None and "\n".join(rep["lines"]) != real:
            corr_breaks.append({"layer": "pyimportpre", "variant": which, "lines": ls, "real": real,
                                "model": "\n".join(rep["lines"])})
        elif rep is not None and which == "pinned":
            stats["pre_pinned_agree"] += 1
    stats["pre_live_variant"] = "current" if live else "pinned (python_literal_spans not present in the repo)"
    stats["pre_pinned_checked"] = pinned is not None


# ====================================================================================== known findings (narrow matchers)

def preprocessed_lines(text):
    """what tree-sitter sees for a Python file, line by line (the real handler of the repo as it is now)"""
    out = real_preprocess(text)
    return out.split("\n")


def match_scope_blind(version_a, version_b, edit, diffs, obs_a=None, obs_b=None):
    """C12/import-rewrite-scope-blind: the shrunk pair differs ONLY on lines that mention, outside string literals and
    comments, a dotted module name `a.b` that some plain `import a.b` of the project imports, and that text is
    rewritten to `a_b` by preprocess_python_import_statements in exactly one of the two versions (it follows the import
    line in one version, precedes it or lives in another file in the other)."""
    em = E.EditMap(edit)

    def rewritten(proj):
        res = {}
        for rel, text in proj["files"].items():
            if not rel.endswith(".py"):
                continue
            src = E.split_lines(text)
            pre = preprocessed_lines(text)
            for i, l in enumerate(src):
                if i < len(pre) and pre[i] != l and not l.lstrip().startswith("import "):
                    res[(rel, i + 1)] = True
        return res

    dotted = set()
    for proj in (version_a, version_b):
        for rel, text in proj["files"].items():
            if rel.endswith(".py"):
                dotted |= set(dotted_imports(text))
    if not dotted:
        return False
    ra, rb = rewritten(version_a), rewritten(version_b)
    # lines rewritten on exactly one side, expressed in B coordinates
    asym = set()
    for (rel, ln) in ra:
        p = em.pos(rel, ln)
        if p not in rb:
            asym.add(p)
    for p in rb:
        if not any(em.pos(rel, ln) == p for (rel, ln) in ra):
            asym.add(p)
    if not asym:
        return False

    import ast as _ast
    fn_ranges = []          # (rel, first, last) of the functions of version B that contain an asymmetric line
    for rel, text in version_b["files"].items():
        tree = E.py_parse(text) if rel.endswith(".py") else None
        if tree is None:
            continue
        for n in _ast.walk(tree):
            if isinstance(n, (_ast.FunctionDef, _ast.AsyncFunctionDef)) and \
                    any(r == rel and n.lineno <= l <= n.end_lineno for r, l in asym):
                fn_ranges.append((rel, n.lineno, n.end_lineno))

    def in_asym_function(p):
        return any(p[0] == r and p[1] is not None and a <= p[1] <= b for r, a, b in fn_ranges)

    def positions(item, what):
        out = []
        def walk(x):
            if isinstance(x, (list, tuple)):
                if len(x) >= 2 and isinstance(x[0], str) and (isinstance(x[1], int) or x[1] is None) and \
                        (x[0].endswith((".py", ".js", ".java"))):
                    out.append((x[0], x[1]))
                if len(x) >= 3 and x[0] == "decl" and isinstance(x[1], str):
                    out.append((x[1], x[2]))
                for y in x:
                    walk(y)
        walk(item)
        return out
    for d in diffs:
        if d["what"] == "run":
            return False
        pos = positions(d["item"], d["what"])
        # the occurrence itself (first position of a binding item; any position of a call item; source, sink or any
        # statement of the reported data-flow path of a flow item) must sit on an asymmetrically rewritten line
        if d["what"] == "binds":
            if pos[0] not in asym:
                return False
        elif d["what"] == "flows":
            item = tuple(d["item"])
            path = set(pos)
            if obs_b is not None and item in obs_b.get("flow_paths", {}):
                path |= obs_b["flow_paths"][item]
            if obs_a is not None:
                for k, lines in obs_a.get("flow_paths", {}).items():
                    if em.pos(k[0], k[1]) + em.pos(k[2], k[3]) == item:
                        path |= {em.pos(f_, l_) for f_, l_ in lines}
            # … or its source / sink lies in the function that contains such a line
            if not any(p in asym for p in path) and not any(in_asym_function(p) for p in pos):
                return False
        elif not any(p in asym for p in pos):
            return False
    return True


def match_nested_param_source(version_a, version_b, edit, diffs, obs_a=None, obs_b=None):
    """C12/nested-def-param-source-flips-with-noop: the edit inserts a Python `pass`; the ONLY differences are taint flows
    whose source is the parameter of a function defined INSIDE another function (source line = the `def` line of the
    nested function), and the `pass` was inserted into the body of the function that directly encloses that nested
    definition."""
    import ast as _ast
    if edit["kind"] != "insert" or edit.get("flavour") != "noop" or not edit["file"].endswith(".py"):
        return False
    if [l.strip() for l in edit["lines"]] != ["pass"]:
        return False
    if not diffs or any(d["what"] != "flows" for d in diffs):
        return False
    nested = {}          # rel -> {def line of nested function: (first line, last line) of the directly enclosing function}
    for rel, text in version_b["files"].items():
        tree = E.py_parse(text) if rel.endswith(".py") else None
        if tree is None:
            continue
        m = {}
        for outer in _ast.walk(tree):
            if isinstance(outer, (_ast.FunctionDef, _ast.AsyncFunctionDef)):
                for st in _ast.walk(outer):
                    if st is not outer and isinstance(st, (_ast.FunctionDef, _ast.AsyncFunctionDef)) and st in \
                            [x for b in (outer.body,) for x in _direct_defs(b)]:
                        if any(a.arg == "tp" for a in st.args.args):
                            m[st.lineno] = (outer.lineno, outer.end_lineno)
        nested[rel] = m
    direct = False
    for d in diffs:
        sf, sl, kf, kl = d["item"]
        rng_ = nested.get(sf, {}).get(sl)
        if rng_ is None:
            return False              # a flow whose source is not the parameter of a nested function
        if sf == edit["file"] and rng_[0] < edit["at"] <= rng_[1]:
            direct = True
    return direct                     # at least one of them is nested in the function that received the `pass`


def _direct_defs(body):
    """function definitions that are statements of `body` or of the compound statements in it (not of nested defs)"""
    import ast as _ast
    out = []
    for st in body:
        if isinstance(st, (_ast.FunctionDef, _ast.AsyncFunctionDef)):
            out.append(st)
        elif isinstance(st, _ast.ClassDef):
            continue
        else:
            for fld in ("body", "orelse", "finalbody"):
                out += _direct_defs(getattr(st, fld, []) or [])
            for h in getattr(st, "handlers", []) or []:
                out += _direct_defs(h.body)
    return out


def _method_ranges(proj):
    """rel -> [(first, last)] line ranges of functions / methods (innermost lookup by smallest range)"""
    import ast as _ast
    out = {}
    for rel, text in proj["files"].items():
        rs = []
        if rel.endswith(".py"):
            tree = E.py_parse(text)
            if tree is not None:
                for n in _ast.walk(tree):
                    if isinstance(n, (_ast.FunctionDef, _ast.AsyncFunctionDef)):
                        rs.append((n.lineno, n.end_lineno))
        elif rel.endswith(".js"):
            rs = [(s_, e_) for _, s_, e_ in E.js_toplevel_functions(text)]
        out[rel] = rs
    return out


def _method_of(ranges, rel, line):
    """innermost function range containing the line; (0, 0) = top-level code of the file"""
    best = None
    for a, b in ranges.get(rel, []):
        if a <= line <= b and (best is None or (b - a) < (best[1] - best[0])):
            best = (a, b)
    return best or (0, 0)


def match_sink_site(version_a, version_b, edit, diffs, obs_a=None, obs_b=None):
    """C12/sink-site-recognition-unstable (C10's defect seen through C12): ALL differences are taint flows; the sink of
    every differing flow lies in a method (or in the top-level code of a file) that contains at least TWO calls of the
    sink function; and the source of every differing flow has, in BOTH versions, at least one reported flow into that
    same method — the tainted data reaches the method either way, only WHICH of its sink calls is flagged differs."""
    if obs_a is None or obs_b is None or "error" in obs_a or "error" in obs_b:
        return False
    if not diffs or any(d["what"] != "flows" for d in diffs):
        return False
    em = E.EditMap(edit)
    ranges = _method_ranges(version_b)
    flows_b = obs_b["flows"]
    flows_a_mapped = {em.pos(sf, sl) + em.pos(kf, kl) for sf, sl, kf, kl in obs_a["flows"]}

    def sink_calls(rel, rng_):
        ls = E.split_lines(version_b["files"].get(rel, ""))
        if rng_ == (0, 0):
            inner = ranges.get(rel, [])
            return sum(1 for i, l in enumerate(ls, 1) if "sink(" in l and not any(a <= i <= b for a, b in inner))
        return sum(1 for i in range(rng_[0], min(rng_[1], len(ls)) + 1) if "sink(" in ls[i - 1]
                   and _method_of(ranges, rel, i) == rng_)

    for d in diffs:
        sf, sl, kf, kl = d["item"]
        m = _method_of(ranges, kf, kl)
        if sink_calls(kf, m) < 2:
            return False
        def reaches(flows):
            return any(f[0] == sf and f[1] == sl and f[2] == kf and _method_of(ranges, kf, f[3]) == m for f in flows)
        if not (reaches(flows_b) and reaches(flows_a_mapped)):
            return False
    return True


def match_unit_order(version_a, version_b, edit, diffs, obs_a=None, obs_b=None, runner=None):
    """C12/flows-depend-on-unit-order: the edit moves a function into a NEW file; ALL differences are taint flows; and the
    differences vanish when the new file is given a name that sorts after every other file of its directory (so that
    the units of the existing files keep their relative order and ids): the probe version — identical to the edited
    version except for the name of the new module — agrees with the mapped base observation on every observable."""
    if edit["kind"] != "move" or runner is None or obs_a is None or "error" in obs_a:
        return False
    if not diffs or any(d["what"] != "flows" for d in diffs):
        return False
    old = edit["newfile"]
    d_, base = os.path.split(old)
    stem, ext = os.path.splitext(base)
    new = os.path.join(d_, "zzzz_" + stem + ext) if d_ else "zzzz_" + stem + ext
    if new in version_a["files"] or not all(r <= new for r in version_b["files"] if os.path.dirname(r) == d_ and r != old):
        return False
    e2 = json.loads(json.dumps(edit))
    e2["newfile"] = new
    e2["import"] = [l.replace(stem, "zzzz_" + stem) for l in edit["import"]]
    if e2["import"] == edit["import"]:
        return False
    try:
        probe = E.apply_edit(version_a, e2)
    except (AssertionError, KeyError, IndexError):
        return False
    runner.need([probe])
    return not pair_diff(obs_a, runner.get(probe), e2)


PAD_SIZES = (3, 13, 27, 41)


def pad_versions(proj, rel_hint):
    """the same project plus ONE unrelated file (a function of k no-op statements that nobody calls): wherever the
    directory listing puts the new unit, every unit after it has all its ids translated by a constant"""
    ext = os.path.splitext(rel_hint)[1]
    out = []
    for i, k in enumerate(PAD_SIZES):
        name = ("aaaa_pad%d" % k if i % 2 == 0 else "zz_pad%d" % k) + ext
        d_ = os.path.dirname(rel_hint)
        rel = os.path.join(d_, name) if d_ else name
        if rel in proj["files"]:
            continue
        if ext == ".py":
            text = "def c12_pad%d(arg):\n" % k + "    pass\n" * k + "    return arg\n"
        elif ext == ".js":
            text = "function c12_pad%d(arg) {\n" % k + "    ;\n" * k + "    return arg;\n}\n"
        else:
            return []
        files = dict(proj["files"])
        files[rel] = text
        out.append({"files": files})
    return out


def match_abs_ids(version_a, version_b, edit, diffs, obs_a=None, obs_b=None, runner=None):
    """C12/flows-depend-on-absolute-ids: ALL differences are taint flows, and EVERY differing flow is shown by PROBE runs
    to depend on the absolute values of the statement ids: adding to one of the two versions an unrelated file (a
    function of k no-op statements nobody calls — the analysed files are untouched, the ids of the units listed after
    the new one are translated by a constant) makes that very flow appear / disappear in that version."""
    if runner is None or obs_a is None or obs_b is None or "error" in obs_a or "error" in obs_b:
        return False
    if not diffs or any(d["what"] != "flows" for d in diffs):
        return False
    em = E.EditMap(edit)
    hint = edit.get("file") or (edit["occ"][0][0] if edit.get("occ") else None)
    if hint is None:
        return False
    toggled_b = set()       # flows (B coordinates) whose presence changes under a pure translation of ids
    pads_b, pads_a = pad_versions(version_b, hint), pad_versions(version_a, hint)
    if not pads_b or not pads_a:
        return False
    for pb, pa in zip(pads_b, pads_a):            # one pad size at a time (2 runs), stop as soon as all is explained
        runner.need([pb, pa])
        ob, oa = runner.get(pb), runner.get(pa)
        if "error" not in ob:
            toggled_b |= {tuple(f) for f in (set(ob["flows"]) ^ set(obs_b["flows"]))}
        if "error" not in oa:
            toggled_b |= {tuple(em.pos(f[0], f[1]) + em.pos(f[2], f[3])) for f in (set(oa["flows"]) ^ set(obs_a["flows"]))}
        if all(tuple(d["item"]) in toggled_b for d in diffs):
            return True
    return False


MATCHERS = [("C12/sink-site-recognition-unstable", match_sink_site),
            ("C12/import-rewrite-scope-blind", match_scope_blind),
            ("C12/nested-def-param-source-flips-with-noop", match_nested_param_source),
            ("C12/flows-depend-on-unit-order", match_unit_order),
            ("C12/flows-depend-on-absolute-ids", match_abs_ids)]


# ====================================================================================== shrinking

def shift_edit(e, rel, after, delta):
    """the same edit after `delta` lines were removed (delta < 0) strictly after line `after` of file `rel`;
    None when the edit touches the removed lines"""
    e = json.loads(json.dumps(e))
    lo, hi = after + 1, after - delta            # removed lines lo..hi

    def sh(l):
        if l > hi:
            return l + delta
        if l >= lo:
            raise KeyError
        return l
    try:
        k = e["kind"]
        if k == "insert":
            if e["file"] == rel:
                if lo < e["at"] <= hi:
                    raise KeyError
                e["at"] = e["at"] + delta if e["at"] > hi else e["at"]
        elif k == "append":
            if e["file"] == rel:
                e["line"] = sh(e["line"])
        elif k == "rename":
            e["occ"] = [[r, sh(l) if r == rel else l, c] for r, l, c in e["occ"]]
        elif k == "swap":
            if e["file"] == rel:
                e["a"] = [sh(e["a"][0]), sh(e["a"][1])]
                e["b"] = [sh(e["b"][0]), sh(e["b"][1])]
        elif k == "move":
            if e["file"] == rel:
                e["range"] = [sh(e["range"][0]), sh(e["range"][1])]
    except KeyError:
        return None
    return e


def removable_ranges(proj, deep=False):
    """[(rel, first, last)] of line ranges that may be deleted: top-level statements (definitions first: the largest
    pieces), and with `deep` every statement of a body that has more than one statement"""
    out = []
    for rel, text in proj["files"].items():
        if rel.endswith(".py"):
            tree = E.py_parse(text)
            if tree is None:
                continue
            for st in tree.body:
                out.append((rel, E._stmt_first_line(st), st.end_lineno))
            if deep:
                import ast as _ast
                for node in _ast.walk(tree):
                    if node is tree:
                        continue
                    for fld in ("body", "orelse", "finalbody"):
                        body = getattr(node, fld, None)
                        if isinstance(body, list) and len(body) > 1:
                            for st in body:
                                if isinstance(st, _ast.stmt):
                                    out.append((rel, E._stmt_first_line(st), st.end_lineno))
        elif rel.endswith(".js"):
            for name, s, e in E.js_toplevel_functions(text):
                out.append((rel, s, e))
    return out


def shrink_pair(runner, proj, edit, diffs0, budget=2, deep=False, width=12):
    """delete top-level statements of the base program while the pair (proj, edit) still shows a difference"""
    kinds0 = {d["what"] for d in diffs0}
    cur, cur_e, cur_d = proj, edit, diffs0
    for _ in range(budget):
        cands = []
        for rel, s, e in removable_ranges(cur, deep):
            e2 = shift_edit(cur_e, rel, s - 1, -(e - s + 1))
            if e2 is None:
                continue
            ls = E.split_lines(cur["files"][rel])
            p2 = {"files": dict(cur["files"])}
            p2["files"][rel] = E.join_lines(ls[:s - 1] + ls[e:])
            if rel.endswith(".py") and E.py_parse(p2["files"][rel]) is None:
                continue
            try:
                q2 = E.apply_edit(p2, e2)
            except (AssertionError, KeyError, IndexError):
                continue
            cands.append((p2, e2, q2, (rel, s, e)))
        cands = cands[:width]
        if not cands:
            break
        runner.need([c[0] for c in cands] + [c[2] for c in cands])
        good = []
        for p2, e2, q2, rng_ in cands:
            d = pair_diff(runner.get(p2), runner.get(q2), e2)
            if d and ({x["what"] for x in d} & kinds0):
                good.append((p2, e2, q2, rng_, d))
        if not good:
            break
        # try to take all deletions of this round at once (bottom-up so that line numbers stay valid), else the first
        p3, e3 = cur, cur_e
        ok = True
        for _, _, _, (rel, s, e), _ in sorted(good, key=lambda g: (g[3][0], -g[3][1])):
            e4 = shift_edit(e3, rel, s - 1, -(e - s + 1))
            if e4 is None:
                ok = False
                break
            ls = E.split_lines(p3["files"][rel])
            p3 = {"files": dict(p3["files"])}
            p3["files"][rel] = E.join_lines(ls[:s - 1] + ls[e:])
            e3 = e4
        took = False
        if ok and len(good) > 1 and all(E.py_parse(t) is not None for r, t in p3["files"].items() if r.endswith(".py")):
            try:
                q3 = E.apply_edit(p3, e3)
                runner.need([p3, q3])
                d3 = pair_diff(runner.get(p3), runner.get(q3), e3)
                if d3 and ({x["what"] for x in d3} & kinds0):
                    cur, cur_e, cur_d = p3, e3, d3
                    took = True
            except (AssertionError, KeyError, IndexError):
                pass
        if not took:
            cur, cur_e, cur_d = good[0][0], good[0][1], good[0][4]
    return cur, cur_e, cur_d


# ====================================================================================== the run

def corpus_src_project():
    """the small files of lian's own tests kept under corpus/C12/src, as ONE project (python + javascript + java)"""
    root = os.path.join(common.VERIF, "corpus", "C12", "src")
    files = {}
    for d, _, fs in os.walk(root):
        for fn in sorted(fs):
            p = os.path.join(d, fn)
            files[os.path.relpath(p, root)] = open(p, encoding="utf-8").read()
    return {"files": files}


def load_witnesses():
    d = os.path.join(common.VERIF, "corpus", "C12")
    out = []
    if os.path.isdir(d):
        for fn in sorted(os.listdir(d)):
            if fn.endswith(".json"):
                c = json.load(open(os.path.join(d, fn)))
                c["name"] = fn[:-5]
                out.append(c)
    return out


GROUPS = [["blank", "comment"], ["noop"], ["rename_local", "rename_global"], ["swap"], ["move"]]


def plan_chains(rng, proj, tier):
    chains = []
    if tier == "quick":
        for g in GROUPS:
            chains.append(gen_chain(rng, proj, [rng.choice(g)], 1))
        chains.append(gen_chain(rng, proj, [rng.choice(KINDS) for _ in range(2)], 2))
    else:
        for k in KINDS:
            chains.append(gen_chain(rng, proj, [k], 1))
        for _ in range(3):
            n = rng.randint(2, 3)
            chains.append(gen_chain(rng, proj, [rng.choice(KINDS) for _ in range(n)], n))
    return [c for c in chains if c]


def nontrivial(obs):
    return "error" not in obs and len(obs["calls_p3"]) > 0 and len(obs["flows"]) > 0 and \
        any(t[0] == "decl" for (_, _, _, _, t) in obs["binds"])


def anchoring(proj, obs):
    """generated programs only: every reported sink line holds a call of `sink`, every reported source line holds the
    parameter `tp` or a `req.get()` call (the flows are 'identified by source line and sink line')"""
    bad = []
    if "error" in obs:
        return bad
    for sf, sl, kf, kl in obs["flows"]:
        src = E.split_lines(proj["files"].get(sf, ""))
        snk = E.split_lines(proj["files"].get(kf, ""))
        if not (1 <= kl <= len(snk) and "sink(" in snk[kl - 1]):
            bad.append(["sink line does not hold a sink call", kf, kl])
        if not (1 <= sl <= len(src) and (re.search(r"\btp\b", src[sl - 1]) or "req.get(" in src[sl - 1])):
            bad.append(["source line does not hold a source", sf, sl])
    return bad


def run(ctx):
    common.use_repo()
    proofs_ok = ctx.proofs()
    root = scratch_root()
    try:
        _run(ctx, proofs_ok, root)
    finally:
        shutil.rmtree(root, ignore_errors=True)


def _run(ctx, proofs_ok, root):
    tier = ctx.tier
    rng = ctx.rng
    stats = collections.Counter()
    info = {}
    corr_breaks, failing = [], []
    lean_ok = common.LeanSide.build()[0]
    # ---- layer 1
    layer_pre(ctx, 3000 if tier == "quick" else 60000, corr_breaks, failing, info_counter := collections.Counter())
    for k, v in info_counter.items():
        info[k] = v
    # ---- layer 2: metamorphic pairs on real runs
    try:
        import c05
        ops, _kinds = c05.live_params()
    except Exception:
        ops = None
    runner = Runner(root)
    cases = []          # (label, base project, edits, generated?, witness meta)
    for w in load_witnesses():
        cases.append(("corpus/" + w["name"], {"files": w["files"]}, w["edits"], False, w))
    n_py, n_js = (2, 1) if tier == "quick" else (22, 8)
    bases = []
    for i in range(n_py):
        bases.append(("gen-py-%d" % i, G.gen_py_project(rng), True))
    for i in range(n_js):
        bases.append(("gen-js-%d" % i, G.gen_js_project(rng), True))
    bases.append(("corpus-src", corpus_src_project(), False))
    for label, proj, gen in bases:
        chains = plan_chains(rng, proj, tier)
        if label == "corpus-src" and tier != "quick":
            for _ in range(12):
                c = gen_chain(rng, proj, [rng.choice(["blank", "comment", "noop", "rename_local", "swap"])], 1)
                if c:
                    chains.append(c)
        for j, ed in enumerate(chains):
            cases.append(("%s/chain%d" % (label, j), proj, ed, gen, None))
    all_versions = []
    for _, proj, ed, _, _ in cases:
        all_versions += versions(proj, ed)
    t0 = time.time()
    runner.need(all_versions)
    info["lian_runs"] = runner.runs
    info["lian_runs_wall_s"] = round(time.time() - t0, 1)
    seen_pairs = set()
    anchored = set()
    samples = []
    tie_stats = collections.Counter()
    by_kind = collections.Counter()
    fail_pairs = []     # (label, version A, edit, diffs, generated, witness)
    for label, proj, ed, gen, w in cases:
        vs = versions(proj, ed)
        for i, e in enumerate(ed):
            a, b = runner.get(vs[i]), runner.get(vs[i + 1])
            ctx.cov["evaluations"] += 1
            kind = e.get("edit_kind", e["kind"])
            by_kind[kind] += 1
            key = (proj_key(vs[i]), json.dumps(e, sort_keys=True))
            if key not in seen_pairs and nontrivial(a):
                stats["distinct_nontrivial"] += 1
            seen_pairs.add(key)
            if "error" in a and "error" in b:
                stats["both_sides_failed"] += 1
                failing.append({"layer": "meta", "label": label, "why": ["lian run failed on both versions: " + str(a.get("error"))[:300]],
                                "files": vs[i]["files"], "edits": [e]})
                continue
            if e["kind"] == "move" and e.get("reexport_importers") and "error" not in b:
                order = b.get("unit_order", [])
                for imp_ in e["reexport_importers"]:
                    if imp_ in order and e["file"] in order:
                        stats["move_reexport_importer_%s_reexporter" % ("after" if order.index(imp_) > order.index(e["file"]) else "before")] += 1
            if e["kind"] == "swap" and e.get("call_time_dependency"):
                stats["swap_with_call_time_dependency"] += 1
            d = pair_diff(a, b, e)
            if gen:
                # 'flows are identified by source line and sink line': on generated programs the reported lines must
                # hold a source / a sink (checked once per distinct version)
                for v, o in ((vs[i], a), (vs[i + 1], b)):
                    kk = proj_key(v)
                    if kk not in anchored:
                        anchored.add(kk)
                        stats["anchoring_checked_versions"] += 1
                        bad = anchoring(v, o)
                        if bad:
                            failing.append({"layer": "anchoring", "label": label, "files": v["files"], "edits": [],
                                            "why": [json.dumps(x) for x in bad[:5]], "n": len(bad)})
            if d:
                fail_pairs.append((label, vs[i], e, d, gen, w))
            elif w is not None and w.get("status") == "open":
                stats["open_witness_no_longer_fails"] += 1
                info.setdefault("open_witnesses_passing", []).append(label)
            if lean_ok and "error" not in a and "error" not in b:
                try:
                    bad, st = tie_check(a, b, e, ops)
                except RuntimeError as ex:
                    bad, st = ["driver: " + str(ex)[:300]], {}
                for k2, v2 in st.items():
                    tie_stats[k2] += v2
                tie_stats["pairs"] += 1
                if bad and not d:
                    corr_breaks.append({"layer": "meta-tie", "label": label, "files": vs[i]["files"], "edits": [e], "why": bad[:4]})
                elif bad:
                    tie_stats["pairs_differing_with_monitor"] += 1
            if len(samples) < 3 and "error" not in a:
                samples.append({"label": label, "edit": e, "base_observation_sizes": {k: len(a[k]) for k in OBS_KEYS},
                                "differences": len(d)})
    # ---- verdicts for failing pairs: shrink, then known / violation
    reported = {}
    shrink_budget = 3 if tier == "quick" else 8
    n_reported = 0
    for label, va, e, d, gen, w in fail_pairs:
        # EVERY failing pair is classified (known finding or violation); only the number of replay files is capped
        if shrink_budget > 0 and w is None:
            shrink_budget -= 1
            va, e, d = shrink_pair(runner, va, e, d)
        vb = E.apply_edit(va, e)
        runner.need([va, vb])
        fid = None
        for name, m in MATCHERS:
            kw = {"runner": runner} if m in (match_unit_order, match_abs_ids) else {}
            if name in ctx.finding_ids("open") and m(va, vb, e, d, runner.get(va) if proj_key(va) in runner.obs else None,
                                                     runner.get(vb) if proj_key(vb) in runner.obs else None, **kw):
                fid = name
                break
        if fid is not None:
            ctx.known(fid, "%s edit %s: %d differences, e.g. %s" % (label, e.get("edit_kind", e["kind"]), len(d),
                                                                   json.dumps(jsonable(d[0]))[:300]))
            stats["known_pairs"] += 1
        elif n_reported >= 6 and w is None:
            stats["violations_not_reported_separately"] += 1
        else:
            n_reported += 1
            ctx.violation({"what": "analysis results differ across a meaning-preserving edit",
                           "label": label, "files": va["files"], "edits": [e],
                           "differences": jsonable(d[:40]), "n_differences": len(d)})
    shown = 0
    for f in failing:
        if shown >= 3:
            stats["monitor_failures_not_reported_separately"] += 1
            continue
        shown += 1
        if f.get("layer") == "pyimportpre":
            small = common.shrink_list(f["lines"], lambda ls: len(ls) > 0 and "\n".join(ls).splitlines() == ls
                                       and bool(pre_oracle(ls, real_preprocess("\n".join(ls)))))
            real = real_preprocess("\n".join(small))
            f = {"layer": "pyimportpre", "lines": small, "real": real, "why": pre_oracle(small, real)}
        ctx.violation({"what": "monitor failed on real output", **jsonable(f)})
    # ---- coverage
    ctx.cov["distinct_nontrivial"] = stats["distinct_nontrivial"] + info.get("pre_nontrivial", 0)
    ctx.cov["rule"] = (
        "layer pyimportpre: %d line lists (4 fixed + random over an alphabet of import lines, dotted names, quotes, comments, "
        "f-strings) through the real preprocess_python_import_statements vs the Lean model (live and frozen), non-trivial = "
        "distinct list that the handler changes; layer meta: witnesses of corpus/C12 + %d generated projects + the corpus-src "
        "project, each with %s; every version analysed by `lian run`; one evaluation = one (version, edit) pair compared on "
        "call graph / bindings / taint flows after mapping through the edit, non-trivial = distinct pair whose base "
        "observation has at least one P3 call edge, one resolved binding and one taint flow"
        % (info.get("pre_cases", 0), len(bases) - 1,
           "one edit per kind group (lines, no-op, rename, reorder, move) + one chain of 2 random edits" if tier == "quick"
           else "one edit per kind (7) + 3 chains of 2-3 random edits"))
    ctx.cov["samples"] = samples
    ctx.cov["exhaustive"] = False
    ctx.cov["pairs_by_edit_kind"] = dict(by_kind)
    ctx.cov["pyimportpre"] = info
    ctx.cov["tie"] = dict(tie_stats)
    ctx.cov["failing_pairs"] = len(fail_pairs)
    ctx.cov["stats"] = dict(stats)
    ctx.cov["correspondence"] = {"pyimportpre_cases": info.get("pre_cases", 0), "tie_pairs": tie_stats.get("pairs", 0),
                                 "differences": len(corr_breaks)}
    ctx.cov["correspondence_breaks"] = jsonable([{k: v for k, v in cb.items() if k != "files"} for cb in corr_breaks[:5]])
    ctx.cov["fingerprints"] = fingerprints()
    ctx.assumptions += [
        "edits are generated by the harness: their being meaning-preserving rests on ast/symtable-free syntactic side "
        "conditions stated in c12_edits.py (fresh names, no captured variables, adjacent independent definitions, leaf "
        "functions)",
        "Python's tokenizer delimits string literals and comments (input of the live pyimportpre model and of its oracle)",
    ]
    if (corr_breaks or not proofs_ok) and not ctx.violations:
        cb = corr_breaks[0] if corr_breaks else None
        ctx.violation({"what": "proof obligation or correspondence broken; no pair of this run violates the metamorphic relation",
                       "broken_theorems": ctx.audit["failures"] if ctx.audit else None,
                       "correspondence": jsonable(cb), "n_correspondence_breaks": len(corr_breaks)}, no_input=True)


def fingerprints():
    import inspect
    out = {}
    try:
        common.use_repo()
        from lian.events.default_event_handlers import basic
        from lian.core import resolver
        from lian.taint import taint_analysis
        for name, fn in (("preprocess_python_import_statements", basic.preprocess_python_import_statements),
                         ("add_main_func", basic.add_main_func),
                         ("resolve_symbol_source_decl", resolver.Resolver.resolve_symbol_source_decl),
                         ("print_and_write_flows", taint_analysis.TaintAnalysis.print_and_write_flows)):
            out[name] = hashlib.sha256(inspect.getsource(fn).encode()).hexdigest()[:16]
    except Exception as ex:
        out["error"] = "%s: %s" % (type(ex).__name__, ex)
    return out


def replay(rp):
    common.use_repo()
    root = scratch_root()
    try:
        if rp.get("layer") == "pyimportpre":
            real = real_preprocess("\n".join(rp["lines"]))
            why = pre_oracle(rp["lines"], real)
            print(json.dumps({"real": real, "why": why}))
            return 1 if why else 0
        if "files" not in rp or "edits" not in rp:
            print(json.dumps({"note": "no concrete input in this replay file", "what": rp.get("what")}))
            return 1 if rp.get("no_failing_input_found") else 0
        proj = {"files": rp["files"]}
        vs = versions(proj, rp["edits"])
        runner = Runner(root)
        runner.need(vs)
        if rp.get("layer") == "anchoring":
            bad = anchoring(proj, runner.get(proj))
            print(json.dumps({"anchoring": bad[:10], "n": len(bad)}))
            return 1 if bad else 0
        total = []
        for i, e in enumerate(rp["edits"]):
            total += pair_diff(runner.get(vs[i]), runner.get(vs[i + 1]), e)
        print(json.dumps({"differences": jsonable(total[:20]), "n": len(total)}))
        return 1 if total else 0
    finally:
        shutil.rmtree(root, ignore_errors=True)
