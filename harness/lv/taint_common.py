"""Shared machinery of the C10 / C11 checks (taint engine + rule matching).

Pieces:
  extract_params()      constants and the literal list of propagating operations, read from the live modules
  ser_graph / ser_rules serialisation of a real (or synthetic) SFG and rule set for the Lean driver
  RealEngine            calls the REAL find_sources / find_sinks / propagate_taint / get_sink_tag_by_rules /
                        find_flows on a graph and records sources, sinks, tag maps, sink tags, flows
  model_batch()         the same through lvdrv (models "taint", "taintrules")
  Oracle                independent Python restatement of the property's vocabulary on the serialised graph
                        (id-level reachability closure, documented rule semantics)
  synthetic graphs      random typed graphs + stub loader
  program generator     small Python programs with source()/sink() sites + CPython identity-tracking ground truth
"""
import ast, inspect, json, os, random, re, shutil, sys, textwrap, time, traceback
import common

# --------------------------------------------------------------------------------------------------
# parameters extracted from the live code
# --------------------------------------------------------------------------------------------------

class ParamError(Exception):
    pass


def assert_lian_from_repo():
    """The checks run lian IN-PROCESS (also in the fork workers); `lian` must resolve to $LIAN_REPO/src, not to the
    /venv editable install of /repo.  (Any lian SUBPROCESS would need PYTHONPATH=<REPO>/src; this harness starts none.)"""
    import lian
    want = os.path.realpath(os.path.join(common.REPO, "src", "lian"))
    got = os.path.realpath(os.path.dirname(lian.__file__))
    if got != want:
        raise RuntimeError(f"lian imported from {got}, expected {want}")


def extract_params():
    from lian.config import constants as C, config
    from lian.taint import taint_analysis as TA
    consts = {
        "K_STMT": C.SFG_NODE_KIND.STMT, "K_SYMBOL": C.SFG_NODE_KIND.SYMBOL, "K_STATE": C.SFG_NODE_KIND.STATE,
        "E_DEFINED": C.SFG_EDGE_KIND.SYMBOL_IS_DEFINED, "E_USED": C.SFG_EDGE_KIND.SYMBOL_IS_USED,
        "E_FLOW": C.SFG_EDGE_KIND.SYMBOL_FLOW, "E_IFLOW": C.SFG_EDGE_KIND.INDIRECT_SYMBOL_FLOW,
        "E_SYMSTATE": C.SFG_EDGE_KIND.SYMBOL_STATE, "E_INCL": C.SFG_EDGE_KIND.STATE_INCLUSION,
        "E_IINCL": C.SFG_EDGE_KIND.INDIRECT_STATE_INCLUSION,
        "ANY_LANG": config.ANY_LANG,
        "KW_ARG0": C.TAG_KEYWORD.ARG0, "KW_ARG1": C.TAG_KEYWORD.ARG1, "KW_ARG2": C.TAG_KEYWORD.ARG2,
        "KW_ARG3": C.TAG_KEYWORD.ARG3, "KW_ARG4": C.TAG_KEYWORD.ARG4, "KW_TARGET": C.TAG_KEYWORD.TARGET,
        "KW_RECEIVER": C.TAG_KEYWORD.RECEIVER, "KW_ANYNAME": C.TAG_KEYWORD.ANYNAME,
    }
    src = textwrap.dedent(inspect.getsource(TA.TaintRuleApplier.apply_propagation_rules))
    tree = ast.parse(src)
    prop_ops = None
    for node in ast.walk(tree):
        if (isinstance(node, ast.Compare) and len(node.ops) == 1 and isinstance(node.ops[0], ast.In)
                and isinstance(node.left, ast.Name) and node.left.id == "operation"
                and isinstance(node.comparators[0], (ast.List, ast.Tuple, ast.Set))):
            elts = node.comparators[0].elts
            if all(isinstance(e, ast.Constant) and isinstance(e.value, str) for e in elts):
                prop_ops = [e.value for e in elts]
                break
    if prop_ops is None:
        raise ParamError("cannot find the literal list of propagating operations in apply_propagation_rules")
    return {"consts": consts, "prop_ops": prop_ops}


def fingerprints():
    import hashlib
    from lian.taint import taint_analysis as TA, rule_manager as RM, taint_structs as TS
    out = {}
    for name, fn in [("PathFinder", TA.PathFinder), ("TaintRuleApplier", TA.TaintRuleApplier),
                     ("TaintAnalysis.find_flows", TA.TaintAnalysis.find_flows),
                     ("TaintAnalysis.find_sources", TA.TaintAnalysis.find_sources),
                     ("TaintAnalysis.find_sinks", TA.TaintAnalysis.find_sinks),
                     ("RuleManager", RM.RuleManager), ("TaintEnv", TS.TaintEnv)]:
        out[name] = hashlib.sha256(inspect.getsource(fn).encode()).hexdigest()[:16]
    return out


# --------------------------------------------------------------------------------------------------
# serialisation
# --------------------------------------------------------------------------------------------------

class OutOfFragment(Exception):
    pass


def _int(x, what):
    if x is None:
        raise OutOfFragment(f"{what} is None")
    try:
        i = int(x)
    except Exception:
        raise OutOfFragment(f"{what}={x!r} is not integral")
    if i != x:
        raise OutOfFragment(f"{what}={x!r} is not integral")
    return i


def _s(x):
    return x if isinstance(x, str) else ""


def ser_graph(sfg, loader):
    """-> (graph json, node list). Node order = sfg.nodes order; out/in edge order = adjacency order."""
    nodes = list(sfg.nodes)
    idx = {n: i for i, n in enumerate(nodes)}
    units, unit_idx = [], {}
    jn = []
    for n in nodes:
        uid = loader.convert_stmt_id_to_unit_id(n.def_stmt_id)
        info = loader.convert_module_id_to_module_info(uid)
        if info is None:
            raise OutOfFragment(f"node with def_stmt_id {n.def_stmt_id} has no unit")
        key = (_s(info.original_path), _s(loader.convert_unit_id_to_lang_name(uid)))
        if key not in unit_idx:
            unit_idx[key] = len(units)
            units.append(list(key))
        ap = n.access_path
        if isinstance(ap, str):
            raise OutOfFragment("string access path")
        japs = []
        for p in (ap or []):
            k = getattr(p, "key", p)
            japs.append([1 if isinstance(k, str) else 0, k if isinstance(k, str) else str(k)])
        st = n.stmt
        jn.append([
            _int(n.node_type, "node_type"), _int(n.def_stmt_id, "def_stmt_id"), _int(n.index, "index"),
            _int(n.node_id, "node_id"), _int(n.context_id, "context_id"), _s(n.name), _int(n.line_no, "line_no"),
            _s(n.operation), japs,
            _s(getattr(st, "field", None)) if st is not None else "",
            _s(getattr(st, "receiver_object", None)) if st is not None else "",
            _s(getattr(st, "name", None)) if st is not None else "",
            _s(getattr(st, "key", None)) if st is not None else "",
            _int(getattr(st, "start_row", -1), "start_row") if st is not None else -1,
            unit_idx[key]])
    out, inn = [], []
    for u in nodes:
        row = []
        for v in sfg.successors(u):
            w = sfg[u][v]["weight"]
            row.append([idx[v], _int(w.edge_type, "edge_type"), _int(w.pos, "pos")])
        out.append(row)
        row = []
        for p in sfg.predecessors(u):
            w = sfg[p][u]["weight"]
            row.append([idx[p], _int(w.edge_type, "edge_type"), _int(w.pos, "pos")])
        inn.append(row)
    return {"units": units, "nodes": jn, "out": out, "in": inn}, nodes


def _optstr(x):
    if x is None:
        return None
    if isinstance(x, str):
        return x
    raise OutOfFragment(f"non-string rule attribute {x!r}")


def ser_rule(r):
    t = r.target
    if t is None or isinstance(t, str):
        jt = t
    elif isinstance(t, list):
        jt = [_optstr(x) for x in t]
    else:
        raise OutOfFragment(f"rule target {t!r}")
    ln = r.line_num
    if ln is not None and not isinstance(ln, int):
        raise OutOfFragment(f"rule line_num {ln!r}")
    return [_optstr(r.lang) or "", _optstr(r.name), _optstr(r.operation), jt, _optstr(getattr(r, "attr", None)),
            _optstr(r.unit_path), _optstr(r.unit_name), ln, _optstr(r.key), _optstr(getattr(r, "vuln_type", None))]


def ser_code_rule(r):
    if not (isinstance(r.unit_path, str) and isinstance(r.line_num, int) and isinstance(r.symbol_name, str)):
        raise OutOfFragment(f"code rule {r!r}")
    return [r.unit_path, r.line_num, r.symbol_name, _optstr(r.lang) or ""]


def ser_rules(rm, graph_json=None):
    """Serialise a RuleManager(-like). The *_from_code lists (≈10^4 rules each in the repo's defaults) are
    restricted to rules whose line number occurs in the graph and whose unit_path occurs in a unit path of the graph:
    both the real matchers and the model require `node.line_no + 1 == rule.line_num` and `rule.unit_path in
    unit_path` before anything else can make the rule match."""
    lines = paths = None
    if graph_json is not None:
        lines = {n[6] + 1 for n in graph_json["nodes"]}
        paths = [u[0] for u in graph_json["units"]]
    def code(lst):
        out = []
        for r in lst:
            if lines is not None and r.line_num not in lines:
                continue
            # every use of a from-code rule in the code as it is now (and in the model `current`) also requires
            # `rule.unit_path in unit_path`; a real run that ignores it still differs from the model and is reported
            if paths is not None and isinstance(r.unit_path, str) and not any(r.unit_path in up for up in paths):
                continue
            out.append(ser_code_rule(r))
        return out
    return {"sources": [ser_rule(r) for r in rm.all_sources], "sinks": [ser_rule(r) for r in rm.all_sinks],
            "src_code": code(rm.all_sources_from_code), "sink_code": code(rm.all_sinks_from_code)}


# --------------------------------------------------------------------------------------------------
# the real engine
# --------------------------------------------------------------------------------------------------

class NonTermination(BaseException):
    """raised from inside the real worklist loop when it runs past the model's fuel bound
    (BaseException: propagate_taint wraps mark_processed_node in `except Exception: pass`)"""


class _Opts:
    graph = False
    complete_graph = False
    debug = False
    quiet = True
    workspace = "/var/tmp"
    default_settings = ""


def make_ta(loader, rule_manager, options=None):
    """A TaintAnalysis object around an existing loader and rule manager (no yaml parsing)."""
    from lian.taint import taint_analysis as TA
    from lian.taint.taint_structs import TaintEnv
    ta = TA.TaintAnalysis.__new__(TA.TaintAnalysis)
    ta.lian = None
    ta.loader = loader
    ta.options = options or _Opts()
    ta.default_settings = getattr(ta.options, "default_settings", "")
    ta.taint_manager = TaintEnv()
    ta.rule_manager = rule_manager
    ta.current_entry_point = -1
    ta.sfg = None
    ta.rule_applier = TA.TaintRuleApplier(ta)
    ta.path_finder = TA.PathFinder(ta)
    return ta


def real_engine(ta, sfg, nodes, entry=-1):
    """Run the real taint functions on `sfg`. Returns a dict shaped like the model's reply
    (node objects replaced by their index in `nodes`)."""
    from lian.taint.taint_structs import TaintEnv
    idx = {n: i for i, n in enumerate(nodes)}
    res = {"sources": None, "sinks": None, "props": [], "tags": [], "flows": None, "err": None, "exc": None}
    ta.current_entry_point = entry
    ta.sfg = sfg
    ta._update_sfg(sfg)
    ta.taint_manager = TaintEnv()
    try:
        sources = ta.find_sources()
        sinks = ta.find_sinks()
    except Exception as e:
        res["exc"] = "find: " + type(e).__name__ + ": " + str(e)[:200]
        return res
    res["sources"] = [None if s is None else idx[s] for s in sources]
    res["sinks"] = [idx[s] for s in sinks]
    # invariants of the SYMBOL tag table (C11_symbol_table_holds_symbols, C11_sink_consults_symbols_only), checked on
    # the REAL tables: (i) after every propagation each key is the id of a SYMBOL node or of a node some statement
    # defines; (ii) at sink-tag lookup only nodes that are symbols (or SYMBOL_IS_USED predecessors of the sink, which
    # on an ill-typed graph may be anything) are looked up
    from lian.config.constants import SFG_NODE_KIND as _NK, SFG_EDGE_KIND as _EK
    res["inv"] = []
    owner_ids = {int(n.node_id) for n in nodes if n.node_type == _NK.SYMBOL}
    for u_, v_, d_ in sfg.edges(data=True):
        if d_["weight"].edge_type == _EK.SYMBOL_IS_DEFINED:
            owner_ids.add(int(v_.node_id))
    looked_up = []
    orig_lookup = ta.get_symbol_with_states_tag
    def rec_lookup(node, _o=orig_lookup):
        looked_up.append(node)
        return _o(node)
    ta.get_symbol_with_states_tag = rec_lookup
    seen = []
    for s in sources:
        if s is None or idx[s] in seen:
            continue
        seen.append(idx[s])
        env = TaintEnv()
        popped = []
        orig = env.mark_processed_node
        n_nodes = len(nodes)
        limit = 4 * n_nodes * n_nodes + 8 * n_nodes + 1      # = Taint.fuelFor: proved sufficient on every consistent, edge-typed graph
        def mark(node, _o=orig, _p=popped):
            _p.append(node)
            if len(_p) > limit:
                raise NonTermination()
            return _o(node)
        env.mark_processed_node = mark
        ta.taint_manager = env
        try:
            tag = ta.path_finder.propagate_taint(s)
        except NonTermination:
            # (propagate_taint swallows exceptions of mark_processed_node, so this is raised by the re-check below)
            res["exc"] = "nonterm"
            return res
        except Exception as e:
            res["exc"] = "propagate: " + type(e).__name__ + ": " + str(e)[:200]
            return res
        sym = {int(k): v for k, v in env.symbols_to_bv.items()}
        st = {int(k): v for k, v in env.states_to_bv.items()}
        res["props"].append({"src": idx[s], "tag": tag, "sym": sym, "st": st,
                             "processed": sorted({idx[n] for n in popped})})
        bad_keys = sorted(k for k in sym if k not in owner_ids)
        if bad_keys and len(res["inv"]) < 5:
            res["inv"].append({"kind": "symbol-table-key", "src": idx[s], "ids": bad_keys[:5]})
        for k in sinks:
            del looked_up[:]
            try:
                sink_tag, vuln = ta.rule_applier.get_sink_tag_by_rules(k)
                res["tags"].append([idx[s], idx[k], bool(sink_tag & tag), vuln, False])
            except UnboundLocalError:
                res["tags"].append([idx[s], idx[k], False, None, True])
            for nd in looked_up:
                if nd.node_type != _NK.SYMBOL and len(res["inv"]) < 5:
                    ed = sfg.get_edge_data(nd, k)
                    if ed is not None and ed["weight"].edge_type == _EK.SYMBOL_IS_USED:
                        continue          # ill-typed synthetic graph: a SYMBOL_IS_USED edge from a non-symbol (the model follows it too)
                    res["inv"].append({"kind": "sink-lookup", "src": idx[s], "sink": idx[k], "node": idx.get(nd, -1),
                                       "node_kind": int(nd.node_type), "node_id": int(nd.node_id),
                                       "edge": None if ed is None else int(ed["weight"].edge_type)})
    ta.get_symbol_with_states_tag = orig_lookup
    ta.taint_manager = TaintEnv()
    try:
        flows = ta.find_flows(sources, sinks)
        res["flows"] = [[int(f.source_stmt_id), int(f.sink_stmt_id), f.vuln_type] for f in flows]
    except UnboundLocalError as e:
        res["err"] = "unbound-target-pos"
    except AttributeError as e:
        if any(s is None for s in sources) and sinks:
            res["err"] = "none-source"
        else:
            res["exc"] = "find_flows: AttributeError: " + str(e)[:200]
    except Exception as e:
        res["exc"] = "find_flows: " + type(e).__name__ + ": " + str(e)[:200]
    return res


# --------------------------------------------------------------------------------------------------
# model side
# --------------------------------------------------------------------------------------------------

def model_requests(cases, params, variant="current", m="taint"):
    return [{"m": m, "variant": variant, "params": params, "graph": c["graph"], "rules": c["rules"]} for c in cases]


def canon_real(res):
    """Canonical comparison form of a real_engine() result."""
    if res["exc"]:
        return {"exc": res["exc"]}
    out = {"sources": res["sources"], "sinks": res["sinks"],
           "props": [[p["src"], sorted(p["sym"]), sorted(p["st"]), p["processed"]] for p in res["props"]],
           "tags": [[t[0], t[1], t[2], t[3], t[4]] for t in res["tags"]],
           "flows": res["flows"], "err": res["err"]}
    if out["err"]:
        out["flows"] = None
    return out


def canon_model(rep, graph):
    N = graph["nodes"]
    if any(not p[4] for p in rep["props"]):
        return {"exc": "nonterm"}        # the model's worklist is not empty after fuelFor iterations
    out = {"sources": rep["sources"], "sinks": rep["sinks"],
           "props": [[p[0], sorted(p[1]), sorted(p[2]), sorted(p[3])] for p in rep["props"]],
           "tags": [[t[0], t[1], t[2], t[3], t[4]] for t in rep["tags"]],
           "flows": [[N[f[0]][1], N[f[1]][1], f[2]] for f in rep["flows"]], "err": rep["err"]}
    if out["err"]:
        out["flows"] = None
    return out


def bad_tag_values(res):
    """every stored real tag must be exactly the pair's single bit"""
    bad = []
    for p in res["props"]:
        for table in ("sym", "st"):
            for k, v in p[table].items():
                if v != p["tag"]:
                    bad.append((p["src"], table, k, v))
    return bad


def diff_keys(a, b):
    if "exc" in a or "exc" in b:
        return ["exc"] if a != b else []
    return [k for k in ("sources", "sinks", "props", "tags", "flows", "err") if a.get(k) != b.get(k)]


# --------------------------------------------------------------------------------------------------
# independent oracle on the serialised graph
# --------------------------------------------------------------------------------------------------

class Oracle:
    """Restates, directly on the JSON graph, the vocabulary of C10 / C11 at engine level:
    locations = (table, id); one-step consequences of a node; least fixed point from the source."""

    def __init__(self, graph, params):
        self.g = graph
        self.N = graph["nodes"]
        c = params["consts"]
        self.c = c
        self.prop_ops = set(params["prop_ops"])

    def kind(self, i):
        return self.N[i][0]

    def nid(self, i):
        return self.N[i][3]

    def opname(self, i):
        return self.N[i][5]

    def conseq(self, u, no_state_down=False):
        c, g = self.c, self.g
        k = self.kind(u)
        res = set()
        if k == c["K_SYMBOL"]:
            for v, et, pos in g["out"][u]:
                if et == c["E_SYMSTATE"]:
                    res.add(("st", self.nid(v)))
                elif et in (c["E_FLOW"], c["E_IFLOW"]) and self.kind(v) == c["K_SYMBOL"]:
                    res.add(("sym", self.nid(v)))
        elif k == c["K_STATE"]:
            for p, et, pos in g["in"][u]:
                # since the repair C11/state-id-tagged-as-symbol only SYMBOL predecessors (Params.stateUpSymOnly)
                if et in (c["E_SYMSTATE"], c["E_INCL"]) and self.kind(p) == c["K_SYMBOL"]:
                    res.add(("sym", self.nid(p)))
            for v, et, pos in g["out"][u]:
                if self.kind(v) == c["K_STATE"] and et in (c["E_INCL"], c["E_IINCL"]) and not no_state_down:
                    res.add(("st", self.nid(v)))
        elif k == c["K_STMT"]:
            if self.opname(u) in self.prop_ops:
                for v, et, pos in g["out"][u]:
                    if et == c["E_DEFINED"]:
                        res.add(("sym", self.nid(v)))
                if self.opname(u) == "object_call_stmt":
                    for p, et, pos in g["in"][u]:
                        if et == c["E_USED"] and pos == 0 and self.kind(p) == c["K_SYMBOL"]:
                            res.add(("sym", self.nid(p)))
        return res

    def hot(self, T, u):
        c = self.c
        k = self.kind(u)
        if k == c["K_SYMBOL"]:
            return ("sym", self.nid(u)) in T
        if k == c["K_STATE"]:
            return ("st", self.nid(u)) in T
        if k == c["K_STMT"]:
            return any(et == c["E_USED"] and ("sym", self.nid(p)) in T for p, et, pos in self.g["in"][u])
        return False

    def reach(self, src, no_state_down=False):
        c = self.c
        T = set()
        k = self.kind(src)
        if k == c["K_SYMBOL"]:
            T.add(("sym", self.nid(src)))
            for v, et, pos in self.g["out"][src]:
                if et == c["E_SYMSTATE"]:
                    T.add(("st", self.nid(v)))
        elif k == c["K_STATE"]:
            T.add(("st", self.nid(src)))
        changed = True
        cons = [self.conseq(u, no_state_down) for u in range(len(self.N))]
        while changed:
            changed = False
            for u in range(len(self.N)):
                if cons[u] - T and self.hot(T, u):
                    T |= cons[u]
                    changed = True
        return T

    # ---- lower bound (what C10_propagation_complete guarantees): node-level reachability in which a step over an
    # edge whose target is only enqueued when its id is newly tagged requires the target's id to have a unique owner
    def typed(self):
        c, g = self.c, self.g
        for u in range(len(self.N)):
            for v, et, pos in g["out"][u]:
                if et == c["E_SYMSTATE"] and not (self.kind(u) == c["K_SYMBOL"] and self.kind(v) == c["K_STATE"]):
                    return False
                if et == c["E_USED"] and self.kind(v) != c["K_STMT"]:
                    return False
        return True

    def sym_owner(self, x):
        c, g = self.c, self.g
        return (self.kind(x) == c["K_SYMBOL"] or any(et == c["E_INCL"] for _, et, _ in g["out"][x])
                or any(et == c["E_DEFINED"] for _, et, _ in g["in"][x]))

    def unique_sym(self, v):
        return all(x == v or self.nid(x) != self.nid(v) or not self.sym_owner(x) for x in range(len(self.N)))

    def unique_st(self, v):
        c = self.c
        return self.kind(v) == c["K_STATE"] and all(
            x == v or self.nid(x) != self.nid(v) or self.kind(x) != c["K_STATE"] for x in range(len(self.N)))

    def live(self, src):
        """nodes certainly dequeued while carrying the tag"""
        c, g = self.c, self.g
        L = set()
        todo = []
        def add(v):
            if v not in L:
                L.add(v)
                todo.append(v)
        k = self.kind(src)
        if k == c["K_SYMBOL"]:
            add(src)
            for v, et, pos in g["out"][src]:
                if et == c["E_SYMSTATE"]:
                    add(v)
        elif k == c["K_STATE"]:
            add(src)
        while todo:
            u = todo.pop()
            ku = self.kind(u)
            if ku == c["K_SYMBOL"]:
                for v, et, pos in g["out"][u]:
                    if et == c["E_USED"] and self.kind(v) == c["K_STMT"]:
                        add(v)
                    elif et == c["E_SYMSTATE"] and self.unique_st(v):
                        add(v)
                    elif et in (c["E_FLOW"], c["E_IFLOW"]) and self.kind(v) == c["K_SYMBOL"] and self.unique_sym(v):
                        add(v)
            elif ku == c["K_STATE"]:
                for p, et, pos in g["in"][u]:
                    if et in (c["E_SYMSTATE"], c["E_INCL"]) and self.kind(p) == c["K_SYMBOL"] and self.unique_sym(p):
                        add(p)
                for v, et, pos in g["out"][u]:
                    if self.kind(v) == c["K_STATE"] and et in (c["E_INCL"], c["E_IINCL"]) and self.unique_st(v):
                        add(v)
            elif ku == c["K_STMT"] and self.opname(u) in self.prop_ops:
                for v, et, pos in g["out"][u]:
                    if et == c["E_DEFINED"] and self.kind(v) == c["K_SYMBOL"]:
                        add(v)
                if self.opname(u) == "object_call_stmt":
                    for p, et, pos in g["in"][u]:
                        if et == c["E_USED"] and pos == 0 and self.kind(p) == c["K_SYMBOL"]:
                            add(p)
        return L

    def live_locs(self, src):
        """locations certainly tagged: the initial ones and every consequence of a live node"""
        c = self.c
        T = set()
        k = self.kind(src)
        if k == c["K_SYMBOL"]:
            T.add(("sym", self.nid(src)))
            for v, et, pos in self.g["out"][src]:
                if et == c["E_SYMSTATE"]:
                    T.add(("st", self.nid(v)))
        elif k == c["K_STATE"]:
            T.add(("st", self.nid(src)))
        L = self.live(src)
        for u in L:
            T |= self.conseq(u)
        return L, T

    def incl_states(self, v):
        c = self.c
        seen, todo = {v}, [v]
        while todo:
            u = todo.pop()
            for w, et, pos in self.g["out"][u]:
                if self.kind(w) == c["K_STATE"] and et in (c["E_INCL"], c["E_IINCL"]) and w not in seen:
                    seen.add(w)
                    todo.append(w)
        return seen

    def sym_locs(self, p):
        """locations whose tag counts for predecessor symbol p at a sink: its own id, its states, their sub-states"""
        c = self.c
        locs = {("sym", self.nid(p))}
        for v, et, pos in self.g["out"][p]:
            if et == c["E_SYMSTATE"]:
                for x in self.incl_states(v):
                    locs.add(("st", self.nid(x)))
        return locs


# --------------------------------------------------------------------------------------------------
# synthetic graphs (tie b) with a stub loader, and rule-set generators (tie c)
# --------------------------------------------------------------------------------------------------

class _Info:
    def __init__(self, path):
        self.original_path = path


class StubLoader:
    """What the matchers ask the loader: unit of a statement, its path and language."""

    def __init__(self, stmt_unit, units):
        self.stmt_unit = stmt_unit      # def_stmt_id -> unit id
        self.units = units              # unit id -> (path, lang)

    def convert_stmt_id_to_unit_id(self, sid):
        return self.stmt_unit.get(int(sid), 0)

    def convert_module_id_to_module_info(self, uid):
        return _Info(self.units[uid][0])

    def convert_unit_id_to_lang_name(self, uid):
        return self.units[uid][1]

    def convert_stmt_id_to_method_id(self, sid):
        return 1


class _Key:
    def __init__(self, key):
        self.key = key


class _Stmt:
    def __init__(self, **kw):
        self.__dict__.update(kw)


class StubRules:
    def __init__(self, sources=(), sinks=(), props=(), src_code=(), sink_code=()):
        self.all_sources = list(sources)
        self.all_sinks = list(sinks)
        self.all_propagations = list(props)
        self.all_sources_from_code = list(src_code)
        self.all_sinks_from_code = list(sink_code)


NAMES = ["src", "sink", "req", "get", "db", "execute", "x", "y", "secret", "cfg"]
STMT_OPS = ["call_stmt", "object_call_stmt", "assign_stmt", "field_read", "field_write", "record_write",
            "parameter_decl", "return_stmt", "if_stmt", "array_read", "new_object", "variable_decl"]
UNITS = {0: ("/w/app/main.py", "python"), 1: ("/w/app/util.py", "python"), 2: ("/w/lib/Main.java", "java"), 3: ("/w/lib/m.c", "c")}
# rule-group languages: every lian language whose name CONTAINS the name of a unit language must not apply to that unit
# (java < javascript; c < csharp, abc, typescript, javascript; python < python3 is no lian language but a legal group name)
RULE_LANGS = ["python", "java", "c", "%", "", "javascript", "csharp", "typescript", "abc", "python3"]
RULE_LANG_W = [6, 2, 1.5, 1, 0.5, 1.2, 0.6, 0.6, 0.6, 0.4]
SUPER_LANGS = {"java": ["javascript"], "c": ["csharp", "abc", "typescript", "javascript"], "python": ["python3", "cpython"]}
E_STATE_IS_USED = 11


def gen_synth_graph(rng, consts):
    """A random SFG built from the REAL SFGNode / SFGEdge classes in a networkx DiGraph: program-like skeleton
    (statements with a callee/receiver symbol at position 0, argument symbols, a defined symbol, states with access
    paths and inclusion chains), deliberately few distinct ids (so that several nodes share a symbol / state id and
    symbol ids collide with state ids), plus arbitrary noise edges and cycles."""
    import networkx as nx
    from lian.common_structs import SFGNode, SFGEdge
    K_STMT, K_SYM, K_ST = consts["K_STMT"], consts["K_SYMBOL"], consts["K_STATE"]
    E = consts
    g = nx.DiGraph()
    stmt_unit = {}
    counter = [0]
    sym_pool = rng.sample([11, 12, 13, 14, 15, -21, -22, -1, 101], rng.randint(2, 5))
    st_pool = rng.sample([11, 12, 101, 102, 103, 104], rng.randint(2, 5))
    syms, sts, stmts = [], [], []

    def fresh_stmt_id():
        counter[0] += 1
        sid = 100 + counter[0]
        stmt_unit[sid] = rng.choices([0, 1, 2, 3], [6, 2, 1.2, 1.2])[0]
        return sid

    def edge(u, v, et, pos=-1):
        g.add_edge(u, v, weight=SFGEdge(edge_type=et, stmt_id=int(u.def_stmt_id), pos=pos))

    def mk_state(ap_keys):
        nd = SFGNode(node_type=K_ST, def_stmt_id=fresh_stmt_id(), index=counter[0], node_id=rng.choice(st_pool),
                     access_path=[_Key(k) for k in ap_keys])
        sts.append(nd)
        g.add_node(nd)
        return nd

    def mk_sym(name, with_state=True, ap=None):
        nd = SFGNode(node_type=K_SYM, def_stmt_id=fresh_stmt_id(), index=counter[0], node_id=rng.choice(sym_pool), name=name)
        syms.append(nd)
        g.add_node(nd)
        if with_state and rng.random() < 0.8:
            st = mk_state(ap if ap is not None else [name])
            edge(nd, st, E["E_SYMSTATE"])
            if rng.random() < 0.3:
                sub = mk_state((ap or [name]) + [rng.choice(NAMES)])
                edge(st, sub, rng.choice([E["E_INCL"], E["E_IINCL"]]))
        return nd

    n_vars = rng.randint(1, 4)
    for _ in range(n_vars):
        mk_sym(rng.choice(NAMES))
    for _ in range(rng.randint(1, 5)):
        op = rng.choice(STMT_OPS) if rng.random() < 0.4 else rng.choice(["call_stmt", "call_stmt", "object_call_stmt", "field_write", "parameter_decl", "field_read", "assign_stmt"])
        line = rng.randint(0, 5)
        a, b = rng.choice(NAMES), rng.choice(NAMES)
        sid = fresh_stmt_id()
        if op == "object_call_stmt":
            text = f"%vv{sid} = {a}.{b}()"
        elif op == "call_stmt":
            text = f"%vv{sid} = {a}([{b!r}])"
        elif op == "field_write":
            text = f"{a}.{b} = {rng.choice(NAMES)}"
        else:
            text = f"{op} {a} {b}"
        st = _Stmt(operation=op, field=b, receiver_object=a, name=a, key=rng.choice(['"data"', '"k"']),
                   start_row=float(line))
        nd = SFGNode(node_type=K_STMT, def_stmt_id=sid, index=-1, node_id=-1, name=op)
        nd.stmt = st
        nd.line_no = float(line)
        nd.operation = text
        stmts.append(nd)
        g.add_node(nd)
        if op in ("call_stmt", "object_call_stmt", "field_write") and rng.random() < 0.85:
            ap = rng.choice([[a], [a], [rng.choice(NAMES), a], ["", a], [0, a]])
            callee = mk_sym(a, ap=ap) if rng.random() < 0.7 or not syms else rng.choice(syms)
            edge(callee, nd, E["E_USED"], rng.choice([0, 0, 0, 0, -1]))
        for pos in range(1, rng.randint(1, 4)):
            if rng.random() < 0.8 and syms:
                edge(rng.choice(syms), nd, E["E_USED"], pos if rng.random() < 0.9 else rng.choice([0, -1, pos + 1]))
            elif rng.random() < 0.7:
                # a literal operand: a STATE node used by the statement at this position (STATE_IS_USED), whose state
                # id is drawn from the SYMBOL id pool as often as not (state ids and symbol ids overlap in real runs)
                lit = SFGNode(node_type=K_ST, def_stmt_id=sid, index=counter[0] + 1000, node_id=rng.choice(sym_pool + st_pool),
                              access_path=[])
                counter[0] += 1
                sts.append(lit)
                g.add_node(lit)
                edge(lit, nd, E_STATE_IS_USED, pos)
        if rng.random() < 0.8:
            tgt = mk_sym(rng.choice(NAMES + [""]), ap=[rng.choice(NAMES), rng.choice(NAMES)] if op == "field_read" and rng.random() < 0.7 else None) \
                if rng.random() < 0.6 or not syms else rng.choice(syms)
            edge(nd, tgt, E["E_DEFINED"])
    nodes = list(g.nodes)
    for _ in range(rng.randint(0, len(nodes))):
        r = rng.random()
        if r < 0.3 and syms and sts:
            edge(rng.choice(syms), rng.choice(sts), E["E_SYMSTATE"])
        elif r < 0.5 and sts:
            edge(rng.choice(sts), rng.choice(sts), rng.choice([E["E_INCL"], E["E_IINCL"]]))
        elif r < 0.75 and syms:
            edge(rng.choice(syms), rng.choice(syms), rng.choice([E["E_FLOW"], E["E_IFLOW"]]))
        elif r < 0.85 and syms and stmts:
            edge(rng.choice(syms), rng.choice(stmts), E["E_USED"], rng.choice([0, 1, 2, 3, -1]))
        else:
            u, v = rng.choice(nodes), rng.choice(nodes)
            edge(u, v, rng.choice([1, 2, 3, 4, 5, 7, 8, 9, 10, 11]), rng.choice([-1, 0, 1, 2]))
    if rng.random() < 0.1:
        odd = SFGNode(node_type=0, def_stmt_id=fresh_stmt_id(), index=counter[0], node_id=rng.choice(sym_pool))
        g.add_node(odd)
        edge(rng.choice(nodes), odd, rng.choice([1, 3, 5]))
    # the real parameter matcher indexes successors()[0]
    for s_ in stmts:
        if s_.name == "parameter_decl" and g.out_degree(s_) == 0:
            edge(s_, rng.choice(syms) if syms else s_, E["E_DEFINED"])
    # planted def-use path between two statements (so that sources and sinks are often connected)
    focus = None
    if len(stmts) >= 2 and rng.random() < 0.6:
        s1, s2 = rng.sample(stmts, 2)
        defs = [v for v in g.successors(s1) if g[s1][v]["weight"].edge_type == E["E_DEFINED"] and v.node_type == K_SYM]
        if defs:
            d = rng.choice(defs)
            if rng.random() < 0.4:
                mid = SFGNode(node_type=K_STMT, def_stmt_id=fresh_stmt_id(), index=-1, node_id=-1, name="assign_stmt")
                mid.stmt = _Stmt(operation="assign_stmt", field="", receiver_object="", name="", key="", start_row=1.0)
                mid.line_no = 1.0
                mid.operation = "t = u"
                g.add_node(mid)
                t = mk_sym("t")
                edge(d, mid, E["E_USED"], 0)
                edge(mid, t, E["E_DEFINED"])
                d = t
            edge(d, s2, E["E_USED"], rng.choice([1, 1, 1, 2, 0]))
            focus = (s1, s2)
    loader = StubLoader(stmt_unit, UNITS)
    loader.focus = focus
    return g, loader


def targeted_rule(rng, kind, g, loader, consts):
    """A rule crafted to match (or nearly match) some statement of the graph."""
    from lian.taint.rule_manager import Rule
    K_STMT = consts["K_STMT"]
    stmts = [n for n in g.nodes if n.node_type == K_STMT]
    r = gen_rule(rng, kind, consts)
    if not stmts:
        return r
    n = rng.choice(stmts)
    focus = getattr(loader, "focus", None)
    if focus and rng.random() < 0.6:
        n = focus[0] if kind == "source" else focus[1]
    op = n.name
    preds = list(g.predecessors(n))
    aps = []
    for p in preds:
        for s_ in g.successors(p):
            if s_.node_type == consts["K_STATE"] and not isinstance(s_.access_path, str):
                aps.append([str(k.key) for k in s_.access_path])
    if kind == "source":
        if op == "parameter_decl":
            succ = list(g.successors(n))
            r.name = succ[0].name if succ else r.name
            r.operation = rng.choice(["parameter_decl", "parameter_decl", "call_stmt", None])
        elif op == "object_call_stmt":
            r.name = n.stmt.receiver_object + "." + n.stmt.field
            r.operation = rng.choice(["object_call_stmt", "object_call", "call_stmt"])
        elif op == "call_stmt":
            r.operation = "call_stmt"
            if aps:
                ap = rng.choice(aps)
                r.name = ".".join(k for k in ap if k != "") or n.stmt.name
            else:
                r.name = n.stmt.name
        elif op == "field_read":
            r.operation = "field_read"
            for s_ in g.successors(n):
                for t in g.successors(s_):
                    if t.node_type == consts["K_STATE"]:
                        r.name = ".".join(str(k.key) for k in t.access_path if str(k.key) != "")
    else:
        if op == "call_stmt":
            r.operation = "call_stmt"
            ap = rng.choice(aps) if aps else [n.stmt.name]
            r.name = rng.choice([ap[-1] if ap else n.stmt.name, ".".join(ap[-2:]) if ap else n.stmt.name,
                                 consts["KW_ANYNAME"] + "." + (ap[-1] if ap else "x"), n.stmt.name])
        elif op == "object_call_stmt":
            r.operation = rng.choice(["object_call_stmt", "object_call"])
            r.name = rng.choice([n.stmt.receiver_object + "." + n.stmt.field, n.stmt.field])
        elif op == "field_write":
            r.operation = "field_write"
            r.name = rng.choice([n.stmt.field, n.stmt.receiver_object, "="])
        elif op == "record_write":
            r.operation = "record_write"
            r.key = n.stmt.key
    if rng.random() < 0.85:
        uid = loader.convert_stmt_id_to_unit_id(n.def_stmt_id)
        ul = loader.units[uid][1]
        # the unit's language, the any-language marker, or a language whose NAME contains the unit's (must not apply)
        r.lang = rng.choice([ul, ul, ul, "%"] + SUPER_LANGS.get(ul, [])[:2])
    if rng.random() < 0.8:
        r.unit_path = None
        r.unit_name = None
    elif rng.random() < 0.5:
        uid = loader.convert_stmt_id_to_unit_id(n.def_stmt_id)
        r.unit_path = rng.choice([None, loader.units[uid][0]])
        r.unit_name = rng.choice([None, os.path.basename(loader.units[uid][0])])
    if rng.random() < 0.8:
        r.line_num = rng.choice([None, None, int(n.line_no) + 1])
    if kind == "source" and rng.random() < 0.8:
        r.attr = None
    if kind == "sink" and rng.random() < 0.6:
        kw = consts
        r.target = rng.choice([[kw["KW_ARG0"]], [kw["KW_ARG0"], kw["KW_ARG1"]], [kw["KW_TARGET"]], None, [kw["KW_ARG1"]],
                               [kw["KW_RECEIVER"]]])
    return r


def gen_rule(rng, kind, consts):
    """One Rule object (real class). kind: 'source' | 'sink'."""
    from lian.taint.rule_manager import Rule
    ops_src = ["call_stmt", "object_call_stmt", "object_call", "parameter_decl", "field_read", None]
    ops_snk = ["call_stmt", "object_call_stmt", "object_call", "field_write", "record_write"]
    op = rng.choice(ops_src if kind == "source" else ops_snk)
    a, b = rng.choice(NAMES), rng.choice(NAMES)
    name = rng.choice([a, a, f"{a}.{b}", f"{consts['KW_ANYNAME']}.{b}", f"{a}.{b}.{rng.choice(NAMES)}",
                       a[1:] or a, a[:-1] or a, "x" + a, a + "0", f"{a[1:] or a}.{b}", f"{a}.{b[:-1] or b}"])
    if op == "record_write" and rng.random() < 0.7:
        name = None
    kw = consts
    tgt_pool = [[kw["KW_ARG0"]], [kw["KW_ARG0"]], [kw["KW_ARG1"]], [kw["KW_ARG2"]], [kw["KW_ARG0"], kw["KW_ARG1"]],
                [kw["KW_RECEIVER"]], [kw["KW_TARGET"]], [], None, kw["KW_ARG0"], ["%arg0"], ["bogus", kw["KW_ARG1"]],
                [kw["KW_ARG3"]], [kw["KW_ARG4"]], [""]]
    r = Rule(kind=kind, lang=rng.choices(RULE_LANGS, RULE_LANG_W)[0], name=name, operation=op,
             target=rng.choice(tgt_pool) if kind == "sink" else None,
             attr=rng.choice([None, None, None, "", "x"]) if kind == "source" else None,
             unit_path=rng.choice([None] * 6 + ["/w/app/main.py", "/w/app/other.py"]),
             unit_name=rng.choice([None] * 5 + ["main.py", "util.py", ""]),
             line_num=rng.choice([None] * 5 + [1, 2, 3, 0]),
             key=rng.choice([None, '"data"', '"k"', ""]) if op == "record_write" else None,
             vuln_type=rng.choice([None, "v1", "v2"]) if kind == "sink" else None)
    return r


def gen_code_rule(rng, kind):
    from lian.taint.rule_manager import SourceCodeRule
    return SourceCodeRule(kind=kind, lang=rng.choices(RULE_LANGS, RULE_LANG_W)[0] or "%",
                          unit_path=rng.choice(["app/main.py", "main.py", "util", "/w/", "nomatch.py"]),
                          line_num=rng.randint(1, 6), symbol_name=rng.choice(NAMES + ["=", "vv"]))


def gen_ruleset(rng, consts, g=None, loader=None, n_src=None, n_snk=None):
    n_src = rng.choice([0, 1, 2, 2, 3, 4]) if n_src is None else n_src
    n_snk = rng.choice([0, 1, 2, 2, 3, 4]) if n_snk is None else n_snk
    def mk(kind):
        if g is not None and rng.random() < 0.85:
            return targeted_rule(rng, kind, g, loader, consts)
        return gen_rule(rng, kind, consts)
    return StubRules(sources=[mk("source") for _ in range(n_src)],
                     sinks=[mk("sink") for _ in range(n_snk)],
                     src_code=[gen_code_rule(rng, "source") for _ in range(rng.choice([0, 0, 1]))],
                     sink_code=[gen_code_rule(rng, "sink") for _ in range(rng.choice([0, 0, 1]))])


def rule_to_dict(r, kind):
    d = {}
    for k in ("operation", "name", "key", "unit_path", "unit_name", "line_num", "vuln_type"):
        v = getattr(r, k, None)
        if v is not None:
            d[k] = v
    if kind == "source" and getattr(r, "attr", None) is not None:
        d["attr"] = r.attr
    if kind == "sink" and r.target is not None:
        d["target"] = r.target
    return d


def groups_of(rules, kind):
    """consecutive rules of the same lang form one YAML group (several groups = 'several files' for the loader)"""
    groups = []
    for r in rules:
        lang = r.lang
        if groups and groups[-1][0] == lang:
            groups[-1][1].append(rule_to_dict(r, kind))
        else:
            groups.append([lang, [rule_to_dict(r, kind)]])
    return groups


class _NoCode:
    all_sources_from_code = []
    all_sinks_from_code = []


def yaml_lang(lang):
    return json.dumps(lang) if lang in ("", "%") or not lang.isalnum() else lang


def load_via_rule_manager(src_groups, sink_groups, stub_rs=None):
    """Writes the groups as source.yaml / sink.yaml and loads them with the REAL RuleManager (the from-code lists are
    taken from `stub_rs`). Returns (rule manager, loader differences)."""
    d = os.path.join(scratch_dir(), "synth_settings")
    shutil.rmtree(d, ignore_errors=True)
    write_settings(d, [(yaml_lang(l), rs) for l, rs in src_groups], [(yaml_lang(l), rs) for l, rs in sink_groups])
    rm = fast_rule_manager(d, _NoCode, 10 ** 9)
    if stub_rs is not None:
        rm.all_sources_from_code = list(stub_rs.all_sources_from_code)
        rm.all_sinks_from_code = list(stub_rs.all_sinks_from_code)
    return rm, loader_differences(d, rm, "synthetic")


def yaml_safe_ruleset(rs):
    """can the rule set be written as YAML and read back unchanged? (scalar targets, '' and None are all fine; only
    attributes the generator never puts into files are excluded)"""
    return all(isinstance(r.name, (str, type(None))) for r in rs.all_sources + rs.all_sinks)


def extend_ruleset(rng, rs, consts, g=None, loader=None):
    """R ⊆ R' with order preserved (for monotonicity)."""
    def mk(kind, lst):
        r = rng.random()
        if lst and r < 0.45:
            # a rule that shares operation / name / key with an existing one but differs in target or location
            import copy
            nr = copy.copy(rng.choice(lst))
            what = rng.choice(["target", "unit_name", "unit_path", "line_num", "lang", "affix"])
            kw = consts
            if what == "target" and kind == "sink":
                nr.target = rng.choice([[kw["KW_ARG0"]], [kw["KW_ARG1"]], [kw["KW_ARG2"]], [kw["KW_RECEIVER"]], [kw["KW_TARGET"]], None, []])
            elif what == "unit_name":
                nr.unit_name = rng.choice(["main.py", "util.py", "legacy_client.py", None])
            elif what == "unit_path":
                nr.unit_path = rng.choice(["/w/app/main.py", "/w/app/other.py", None])
            elif what == "line_num":
                nr.line_num = rng.choice([1, 2, 3, 9999, None])
            elif what == "lang":
                nr.lang = rng.choices(RULE_LANGS, RULE_LANG_W)[0]
            elif isinstance(nr.name, str) and nr.name:
                nr.name = rng.choice([nr.name[1:] or nr.name, nr.name[:-1] or nr.name, "x" + nr.name])
            return nr
        if g is not None and r < 0.85:
            return targeted_rule(rng, kind, g, loader, consts)
        return gen_rule(rng, kind, consts)
    def ext(lst, kind):
        out = list(lst)
        for _ in range(rng.randint(1, 2)):
            out.insert(rng.randint(0, len(out)), mk(kind, lst))
        return out
    return StubRules(sources=ext(rs.all_sources, "source"), sinks=ext(rs.all_sinks, "sink"),
                     src_code=list(rs.all_sources_from_code), sink_code=list(rs.all_sinks_from_code))


# --------------------------------------------------------------------------------------------------
# settings directories (rule configurations parsed by the REAL RuleManager) and packed lian runs
# --------------------------------------------------------------------------------------------------

def yaml_rules(groups):
    """groups: list of (lang, [rule dict]) -> YAML text (hand-written to control quoting of the \\%keywords)."""
    if not groups:
        return "[]\n"
    out = []
    for lang, rules in groups:
        out.append(f"- lang: {lang}")
        out.append("  rules:")
        if not rules:
            out[-1] = "  rules: []"
        for r in rules:
            first = True
            for k, v in r.items():
                if isinstance(v, list):
                    val = "[" + ", ".join(json.dumps(x) for x in v) + "]"
                elif isinstance(v, int):
                    val = str(v)
                else:
                    val = json.dumps(v)          # a JSON string is a valid (double-quoted) YAML scalar
                out.append(("    - " if first else "      ") + f"{k}: {val}")
                first = False
    return "\n".join(out) + "\n"


def decoy_rules(n_src, n_sink, n_param):
    """Rules whose names are proper prefixes / suffixes / extensions of the names the programs use, naming OTHER
    argument positions.  Under exact name matching (what every matcher except the field_write one does) they apply
    to nothing, so a configuration with them must report exactly what it reports without them."""
    src, snk = [], []
    for i in range(n_src):
        src += [{"operation": "call_stmt", "name": f"rc{i}"}, {"operation": "call_stmt", "name": f"xsrc{i}"}]
    src += [{"operation": "call_stmt", "name": "src"}, {"operation": "object_call_stmt", "name": "eq.get"},
            {"operation": "object_call_stmt", "name": "req.ge"}, {"operation": "object_call_stmt", "name": "get"},
            {"operation": "parameter_decl", "name": "preq"}, {"operation": "parameter_decl", "name": "req0"},
            {"operation": "field_read", "name": "cfg.secre"}, {"operation": "field_read", "name": "fg.secret"},
            {"operation": "field_read", "name": "secret"}]
    for i in range(n_sink):
        snk += [{"operation": "call_stmt", "name": f"ink{i}", "target": ["\\%arg1"], "vuln_type": "decoy"},
                {"operation": "call_stmt", "name": f"xsink{i}", "target": ["\\%arg1"], "vuln_type": "decoy"},
                {"operation": "call_stmt", "name": f"a.sink{i}", "target": ["\\%arg1"], "vuln_type": "decoy"}]
    snk += [{"operation": "call_stmt", "name": "sink", "target": ["\\%arg1"], "vuln_type": "decoy"},
            {"operation": "call_stmt", "name": "k0", "target": ["\\%arg1"], "vuln_type": "decoy"},
            {"operation": "object_call_stmt", "name": "b.execute", "target": ["\\%arg1"], "vuln_type": "decoy"},
            {"operation": "object_call_stmt", "name": "db.execut", "target": ["\\%arg1"], "vuln_type": "decoy"},
            {"operation": "record_write", "key": "\"dat\"", "target": [], "vuln_type": "decoy"}]
    return src, snk


def dup_rules(src, snk):
    """For every rule a second rule with the SAME operation / name / key but another target and a location
    restriction that holds nowhere in the programs.  Appending them must not change anything."""
    dsrc, dsnk = [], []
    for i, r in enumerate(src):
        d = dict(r)
        d.update({"line_num": 9999} if i % 2 == 0 else {"unit_name": "legacy_client.py"})
        dsrc.append(d)
    for i, r in enumerate(snk):
        d = dict(r)
        if r.get("target") == ["\\%arg0"]:
            d["target"] = ["\\%arg1"]
        elif "target" in r:
            d["target"] = ["\\%arg0"]
        d.update({"unit_name": "legacy_client.py"} if i % 2 == 0 else {"line_num": 9999})
        d["vuln_type"] = "dup"
        dsnk.append(d)
    return dsrc, dsnk


def base_rules(n_src, n_sink, n_param):
    src = [{"operation": "call_stmt", "name": f"src{i}"} for i in range(n_src)]
    src.append({"operation": "object_call_stmt", "name": "req.get"})
    src += [{"operation": "parameter_decl", "name": f"preq{i}"} for i in range(n_param)]
    src.append({"operation": "field_read", "name": "cfg.secret"})
    snk = [{"operation": "call_stmt", "name": f"sink{i}", "target": ["\\%arg0"], "vuln_type": "v_call"} for i in range(n_sink)]
    snk.append({"operation": "object_call_stmt", "name": "db.execute", "target": ["\\%arg0"], "vuln_type": "v_objcall"})
    snk.append({"operation": "field_write", "name": "secret_field", "target": ["\\%target"], "vuln_type": "v_fieldwrite"})
    snk.append({"operation": "record_write", "key": "\"data\"", "target": [], "vuln_type": "v_recordwrite"})
    return src, snk


def write_settings(d, src_groups, sink_groups, entry_methods=None):
    os.makedirs(d, exist_ok=True)
    open(os.path.join(d, "entry.yaml"), "w").write("- method_list: " + json.dumps(["%unit_init"] + list(entry_methods or [])) + "\n")
    open(os.path.join(d, "source.yaml"), "w").write(yaml_rules(src_groups))
    open(os.path.join(d, "sink.yaml"), "w").write(yaml_rules(sink_groups))
    shutil.copy(os.path.join(common.REPO, "default_settings", "propagation.yaml"), os.path.join(d, "propagation.yaml"))


def loader_differences(settings_dir, rm, cfg_name):
    """Specification of RuleManager.init for source.yaml / sink.yaml: every rule entry of every group becomes exactly
    one Rule, in file order, carrying the group's lang and the entry's fields.  Returns the differences."""
    import yaml
    diffs = []
    for fname, lst, kind in (("source.yaml", rm.all_sources, "source"), ("sink.yaml", rm.all_sinks, "sink")):
        data = yaml.safe_load(open(os.path.join(settings_dir, fname))) or []
        want = []
        for grp in data:
            for r in (grp.get("rules") or []):
                want.append((grp.get("lang"), r.get("name"), r.get("operation"), r.get("target"), r.get("unit_path"),
                             r.get("unit_name"), r.get("line_num"), r.get("key")))
        got = [(r.lang, r.name, r.operation, r.target, r.unit_path, r.unit_name, r.line_num, r.key) for r in lst]
        if want != got:
            missing = [w for w in want if w not in got]
            diffs.append({"config": cfg_name, "file": fname, "entries_in_yaml": len(want), "rules_loaded": len(got),
                          "first_missing_or_changed": missing[:2], "yaml": open(os.path.join(settings_dir, fname)).read()[:3000]})
    return diffs


def fast_rule_manager(settings_dir, code_from, max_line):
    """The REAL RuleManager on `settings_dir`; the two *_from_code files (≈10^4 rules each, 5 s to parse) are parsed
    once per process (`code_from`) and re-used, restricted to rules whose line can occur in the analysed files."""
    from lian.config import config
    from lian.taint.rule_manager import RuleManager
    empty = os.path.join(settings_dir, "_empty_code_rules.yaml")
    open(empty, "w").write("[]\n")
    old = (config.TAINT_SOURCE_FROM_CODE, config.TAINT_SINK_FROM_CODE)
    config.TAINT_SOURCE_FROM_CODE = config.TAINT_SINK_FROM_CODE = empty
    try:
        rm = RuleManager(settings_dir)
    finally:
        config.TAINT_SOURCE_FROM_CODE, config.TAINT_SINK_FROM_CODE = old
    rm.all_sources_from_code = [r for r in code_from.all_sources_from_code if isinstance(r.line_num, int) and r.line_num <= max_line]
    rm.all_sinks_from_code = [r for r in code_from.all_sinks_from_code if isinstance(r.line_num, int) and r.line_num <= max_line]
    return rm


REPORT_FLOW_RE = re.compile(r"^Found a flow to sink (.*) on line (\d+)$")
REPORT_COUNT_RE = re.compile(r"^Found (\d+) taint flows\.$")


def collect_report(l, TA, in_memory, stdout_text):
    """What the taint phase REPORTED (stdout + taint_data_flow.json) next to what find_flows returned, each flow as
    [source stmt id, sink stmt id, vuln_type, source file, source line, sink file, sink line] resp. as the triple
    [sink line, sink GIR text, source GIR text] the console shows."""
    from lian.config import config as CF
    ld = l.loader
    def line(sid):
        return int(ld.get_stmt_gir(sid).start_row) + 1
    def upath(sid):
        return ld.convert_unit_id_to_unit_path(ld.convert_stmt_id_to_unit_id(sid))
    memory, console_expected = [], []
    for f in in_memory:
        a, b = int(f.source_stmt_id), int(f.sink_stmt_id)
        memory.append([a, b, f.vuln_type, upath(a), line(a), upath(b), line(b)])
        console_expected.append([line(b), TA.get_gir_str(ld.get_stmt_gir(b)), TA.get_gir_str(ld.get_stmt_gir(a))])
    written = None
    path = os.path.join(l.options.workspace, CF.TAINT_OUTPUT_DIR, "taint_data_flow.json")
    if os.path.exists(path):
        try:
            written = [[e.get("source_stmt_id"), e.get("sink_stmt_id"), e.get("vuln_type"), e.get("source_file_path"),
                        e.get("source_line"), e.get("sink_file_path"), e.get("sink_line")] for e in json.load(open(path))]
        except Exception as e:
            written = "unreadable: " + repr(e)[:200]
    console, count = [], None
    lines = stdout_text.split("\n")
    for i, ln in enumerate(lines):
        m = REPORT_COUNT_RE.match(ln)
        if m:
            count = int(m.group(1))
        m = REPORT_FLOW_RE.match(ln)
        if m:
            srcl = lines[i + 1] if i + 1 < len(lines) else ""
            sg = None
            if srcl.startswith("\tSource : "):
                sg = srcl[len("\tSource : "):]
                sg = sg[:sg.rfind(" (in ")] if " (in " in sg else sg
            console.append([int(m.group(2)), m.group(1), sg])
    return {"memory": memory, "written": written, "console": console, "console_expected": console_expected,
            "console_count": count, "no_flows_line": "No taint flows found." in stdout_text}


def report_problems(rep):
    """-> [(side, problem)]: the written report must contain exactly the flows find_flows returned, each identified by
    its source STATEMENT and sink STATEMENT (C10: a flow missing from the report; C11: a reported flow nobody found)"""
    import collections
    out = []
    if not rep:
        return out
    mem = collections.Counter(json.dumps(x) for x in rep["memory"])
    def diff(kind, got_list, exp_counter, what):
        got = collections.Counter(json.dumps(x) for x in got_list)
        miss, extra = exp_counter - got, got - exp_counter
        if miss:
            out.append(("C10", {"what": f"a flow found by find_flows is missing from {what} (flows are identified by source and sink STATEMENT)",
                                "expect": "report", "channel": kind, "missing": [json.loads(k) for k in list(miss)[:4]],
                                "found": sum(exp_counter.values()), "reported": len(got_list)}))
        if extra:
            out.append(("C11", {"what": f"{what} contains a flow that find_flows did not return", "expect": "report", "channel": kind,
                                "extra": [json.loads(k) for k in list(extra)[:4]], "found": sum(exp_counter.values()), "reported": len(got_list)}))
    if not rep["memory"]:
        if rep["written"]:
            out.append(("C11", {"what": "taint_data_flow.json lists flows although find_flows returned none", "expect": "report",
                                "channel": "json", "extra": rep["written"][:4]}))
        if rep["console"]:
            out.append(("C11", {"what": "the console lists flows although find_flows returned none", "expect": "report",
                                "channel": "console", "extra": rep["console"][:4]}))
        return out
    if not isinstance(rep["written"], list):
        out.append(("C10", {"what": "find_flows returned flows but taint_data_flow.json is absent or unreadable", "expect": "report",
                            "channel": "json", "written": rep["written"], "found": len(rep["memory"])}))
    else:
        diff("json", rep["written"], mem, "taint_data_flow.json")
    diff("console", rep["console"], collections.Counter(json.dumps(x) for x in rep["console_expected"]), "the console report")
    if rep["console_count"] != len(rep["memory"]):
        out.append(("C10" if (rep["console_count"] or 0) < len(rep["memory"]) else "C11",
                    {"what": "the console announces another number of flows than find_flows returned", "expect": "report",
                     "channel": "console-count", "announced": rep["console_count"], "found": len(rep["memory"])}))
    return out


def packed_worker(job):
    """Runs in a child process: one in-process lian run (all phases) over the job's files, then the real taint functions
    on every entry point's SFG under every rule configuration of the job. Returns JSON-able results."""
    import builtins, io, contextlib
    t0 = time.time()
    out = {"job": job["name"], "cases": [], "error": None, "phase4": {}, "times": {}}
    try:
        common.use_repo()
        assert_lian_from_repo()
        src_dir = os.path.join(job["dir"], "src")
        os.makedirs(src_dir, exist_ok=True)
        for fn, text in job["files"].items():
            open(os.path.join(src_dir, fn), "w").write(text)
        ws = os.path.join(job["dir"], "ws")
        base_cfg = job["configs"][0]
        sys.argv = ["main.py", "run", "-l", job.get("langs") or "python", "-w", ws, "-f", "-q", "--default-settings", base_cfg["dir"], src_dir]
        from lian.main import Lian
        from lian.taint import taint_analysis as TA
        recorded = {}
        in_memory = []
        orig_find_flows = TA.TaintAnalysis.find_flows
        def rec_find_flows(self, sources, sinks):
            flows = orig_find_flows(self, sources, sinks)
            recorded[int(self.current_entry_point)] = [[int(f.source_stmt_id), int(f.sink_stmt_id), f.vuln_type] for f in flows]
            in_memory.extend(flows)
            return flows
        TA.TaintAnalysis.find_flows = rec_find_flows
        buf = io.StringIO()
        buf4 = io.StringIO()
        with contextlib.redirect_stdout(buf):
            l = Lian()
            l.parse_cmds().init_submodules()
            l.lang_analysis()
            l.semantic_analysis()
            out["times"]["analysis"] = round(time.time() - t0, 2)
            t1 = time.time()
            ta_real = TA.TaintAnalysis(l, l.options)
            # the taint phase runs as the command line runs it WITHOUT -q: it prints and writes its report
            was_quiet = l.options.quiet
            l.options.quiet = False
            try:
                with contextlib.redirect_stdout(buf4):
                    ta_real.run()
            finally:
                l.options.quiet = was_quiet
            out["times"]["phase4"] = round(time.time() - t1, 2)
        TA.TaintAnalysis.find_flows = orig_find_flows
        out["phase4"] = recorded
        out["report"] = collect_report(l, TA, in_memory, buf4.getvalue())
        t2 = time.time()
        max_line = max(t.count("\n") for t in job["files"].values()) + 2
        rms = {}
        out["loader"] = []
        for cfg in job["configs"]:
            rms[cfg["name"]] = fast_rule_manager(cfg["dir"], ta_real.rule_manager, max_line)
            out["loader"] += loader_differences(cfg["dir"], rms[cfg["name"]], cfg["name"])
        for mid in l.loader.get_all_method_ids():
            sfg = l.loader.get_global_sfg_by_entry_point(mid)
            if not sfg:
                continue
            nodes = list(sfg.nodes)
            uid = l.loader.convert_stmt_id_to_unit_id(nodes[0].def_stmt_id)
            path = l.loader.convert_module_id_to_module_info(uid).original_path
            try:
                gj, nodes = ser_graph(sfg, l.loader)
            except OutOfFragment as e:
                out["cases"].append({"entry": int(mid), "unit": path, "out_of_fragment": str(e)})
                continue
            # statement id -> (file name, line) for flow reporting; stmt_pos adds the column and the statement's
            # name (the callee of a call statement): the identity of a STATEMENT, several of which may share a line
            stmt_site = {}
            stmt_pos = {}
            for n, jn in zip(nodes, gj["nodes"]):
                if jn[0] == 1:
                    stmt_site[jn[1]] = [os.path.basename(gj["units"][jn[14]][0]), jn[6] + 1]
                    if jn[1] not in stmt_pos:
                        st = l.loader.get_stmt_gir(jn[1])
                        try:
                            col = int(st.start_col)
                        except Exception:
                            col = -1
                        stmt_pos[jn[1]] = [stmt_site[jn[1]][0], jn[6] + 1, col, _optstr(jn[11])]
            for cfg in job["configs"]:
                rm = rms[cfg["name"]]
                ta = make_ta(l.loader, rm)
                real = real_engine(ta, sfg, nodes, mid)
                out["cases"].append({"entry": int(mid), "unit": path, "config": cfg["name"], "graph": gj,
                                     "rules": ser_rules(rm, gj), "real": real, "stmt_site": stmt_site, "stmt_pos": stmt_pos})
        out["times"]["engine"] = round(time.time() - t2, 2)
    except Exception:
        out["error"] = traceback.format_exc()[-3000:]
    out["times"]["total"] = round(time.time() - t0, 2)
    return out


# --------------------------------------------------------------------------------------------------
# JSON -> real objects (corpus, replay, shrinking)
# --------------------------------------------------------------------------------------------------

def graph_from_json(gj):
    """Rebuild a networkx SFG made of REAL SFGNode / SFGEdge objects (+ stub loader) from its serialisation,
    reproducing node order and both adjacency orders."""
    import networkx as nx
    from lian.common_structs import SFGNode, SFGEdge
    g = nx.DiGraph()
    nodes = []
    stmt_unit, units = {}, {}
    for i, (path, lang) in enumerate(gj["units"]):
        units[i] = (path, lang)
    for jn in gj["nodes"]:
        nd = SFGNode(node_type=jn[0], def_stmt_id=jn[1], index=jn[2], node_id=jn[3], context=jn[4], name=jn[5],
                     access_path=[_Key(t if isstr else (int(t) if t.lstrip("-").isdigit() else t)) for isstr, t in jn[8]])
        nd.line_no = float(jn[6]) if jn[0] == 1 else jn[6]
        nd.operation = jn[7]
        if jn[0] == 1:
            nd.stmt = _Stmt(operation=jn[5], field=jn[9], receiver_object=jn[10], name=jn[11], key=jn[12], start_row=float(jn[13]))
        stmt_unit.setdefault(jn[1], jn[14])
        nodes.append(nd)
        g.add_node(nd)
    # an insertion order that reproduces every successor order and every predecessor order: repeatedly emit an edge
    # that is the next un-emitted one both in its source's out-list and in its target's in-list
    out_pos = [0] * len(nodes)
    in_pos = [0] * len(nodes)
    total = sum(len(r) for r in gj["out"])
    emitted = 0
    progress = True
    while emitted < total and progress:
        progress = False
        for u in range(len(nodes)):
            while out_pos[u] < len(gj["out"][u]):
                v, et, pos = gj["out"][u][out_pos[u]]
                nxt = gj["in"][v][in_pos[v]] if in_pos[v] < len(gj["in"][v]) else None
                if nxt is not None and nxt[0] == u:
                    g.add_edge(nodes[u], nodes[v], weight=SFGEdge(edge_type=et, stmt_id=int(nodes[u].def_stmt_id), pos=pos))
                    out_pos[u] += 1
                    in_pos[v] += 1
                    emitted += 1
                    progress = True
                else:
                    break
    if emitted < total:
        raise OutOfFragment("adjacency orders cannot be reproduced by any insertion order")
    return g, StubLoader(stmt_unit, units), nodes


def rules_from_json(rj):
    from lian.taint.rule_manager import Rule, SourceCodeRule
    def mk(kind, r):
        return Rule(kind=kind, lang=r[0], name=r[1], operation=r[2], target=r[3], attr=r[4], unit_path=r[5],
                    unit_name=r[6], line_num=r[7], key=r[8], vuln_type=r[9])
    def mkc(kind, r):
        return SourceCodeRule(kind=kind, unit_path=r[0], line_num=r[1], symbol_name=r[2], lang=r[3])
    return StubRules(sources=[mk("source", r) for r in rj["sources"]], sinks=[mk("sink", r) for r in rj["sinks"]],
                     src_code=[mkc("source", r) for r in rj["src_code"]], sink_code=[mkc("sink", r) for r in rj["sink_code"]])


def real_on_json(gj, rj):
    g, loader, nodes = graph_from_json(gj)
    ta = make_ta(loader, rules_from_json(rj))
    return real_engine(ta, g, nodes)


# --------------------------------------------------------------------------------------------------
# engine-level oracles (on the REAL output for a serialised graph)
# --------------------------------------------------------------------------------------------------

def rule_applies_at(rule, node, units, consts):
    """Documented restrictions of a rule (language group, file name, line): does it apply at this statement?"""
    path, lang = units[node[14]]
    if rule[0] not in ("", consts["ANY_LANG"], lang):
        return False
    if rule[6] and rule[6] != os.path.basename(path):
        return False
    if rule[7] and rule[7] != node[6] + 1:
        return False
    return True


def code_rule_applies_at(rule, node, units, consts):
    path, lang = units[node[14]]
    return rule[3] in ("", consts["ANY_LANG"], lang) and rule[0] in path and rule[1] == node[6] + 1


def engine_checks(real, gj, rj, params):
    """Returns (c10_problems, c11_problems, stats) for one real result."""
    c10, c11 = [], []
    st = {"typed": 0, "live_nodes": 0, "gap_locs": 0, "props": 0, "flows": 0}
    if real["exc"] == "nonterm" and Oracle(gj, params).typed():
        c10.append({"what": "the real worklist was still running after the number of iterations C10_worklist_terminates "
                            "proves sufficient on an edge-typed graph"})
    if real["exc"] or real["sources"] is None:
        return c10, c11, st
    o = Oracle(gj, params)
    N = gj["nodes"]
    consts = params["consts"]
    reach = {}
    typed = o.typed()
    for p in real["props"]:
        st["props"] += 1
        R = o.reach(p["src"])
        reach[p["src"]] = R
        locs = {("sym", k) for k in p["sym"]} | {("st", k) for k in p["st"]}
        if not locs <= R:
            c11.append({"what": "a location was tagged that is not reachable from the source in the SFG",
                        "src": p["src"], "unjustified": sorted(locs - R)})
        st["gap_locs"] += len(R - locs)
        if typed:
            st["typed"] += 1
            L, T = o.live_locs(p["src"])
            st["live_nodes"] += len(L)
            if not T <= locs:
                c10.append({"what": "a location that C10_propagation_complete guarantees to be tagged is not",
                            "src": p["src"], "missing": sorted(T - locs)})
            if not set(L) <= set(p["processed"]):
                c10.append({"what": "a node that must be dequeued carrying the tag was never processed",
                            "src": p["src"], "missing_nodes": sorted(set(L) - set(p["processed"]))})
    if bad_tag_values(real):
        c11.append({"what": "a stored tag is not the pair's single bit", "bad": bad_tag_values(real)[:5]})
    for iv in real.get("inv") or []:
        if iv["kind"] == "symbol-table-key":
            c11.append({"what": "after a propagation the SYMBOL tag table holds an id that belongs to no symbol of the graph (C11_symbol_table_holds_symbols)", "detail": iv})
        else:
            c11.append({"what": "get_sink_tag_by_rules looked a node that is not a symbol up in the SYMBOL tag table (C11_sink_consults_symbols_only)", "detail": iv})
    for (a, b, v) in (real["flows"] or []):
        st["flows"] += 1
        src_nodes = [i for i in (real["sources"] or []) if i is not None and N[i][1] == a]
        sink_nodes = [i for i in (real["sinks"] or []) if N[i][1] == b]
        prob = None
        if not src_nodes:
            prob = "flow from a statement that find_sources did not return"
        elif not sink_nodes:
            prob = "flow to a statement that find_sinks did not return"
        else:
            # (i) a source rule applies at the location of a statement defining the source symbol
            ok_src = False
            for s in src_nodes:
                for u in range(len(N)):
                    if N[u][0] == consts["K_STMT"] and any(v2 == s and et == consts["E_DEFINED"] for v2, et, _ in gj["out"][u]):
                        if any(rule_applies_at(r, N[u], gj["units"], consts) for r in rj["sources"]) or \
                           any(code_rule_applies_at(r, N[u], gj["units"], consts) for r in rj["src_code"]):
                            ok_src = True
            ok_sink = any(any(rule_applies_at(r, N[k], gj["units"], consts) for r in rj["sinks"]) or
                          any(code_rule_applies_at(r, N[k], gj["units"], consts) for r in rj["sink_code"]) for k in sink_nodes)
            ok_path = False
            for s in src_nodes:
                R = reach.get(s) or o.reach(s)
                for k in sink_nodes:
                    for ppred, et, pos in gj["in"][k]:
                        if o.sym_locs(ppred) & R:
                            ok_path = True
            if not ok_src:
                prob = "flow whose source statement lies outside the language / file / line restriction of every source rule"
            elif not ok_sink:
                prob = "flow whose sink statement lies outside the language / file / line restriction of every sink rule"
            elif not ok_path:
                prob = "flow without any SFG path from the source to a symbol used by the sink"
        if prob:
            c11.append({"what": prob, "flow": [a, b, v]})
    return c10, c11, st


def flow_pairs(real):
    return {(a, b) for a, b, v in (real["flows"] or [])}


# --------------------------------------------------------------------------------------------------
# the check
# --------------------------------------------------------------------------------------------------

SIZES = {
    "quick": {"synth": 4000, "mono": 1200, "via_loader": 400, "jobs": 4, "cases_per_job": 40, "matcher_cases": 600,
              "layout_jobs": 2, "layout_cases_per_job": 28},
    "thorough": {"synth": 60000, "mono": 15000, "via_loader": 4000, "jobs": 28, "cases_per_job": 60, "matcher_cases": 6000,
                 "layout_jobs": 12, "layout_cases_per_job": 50},
}


_SCRATCH_REGISTERED = set()


def scratch_dir():
    d = os.path.join(common.SCRATCH_ROOT, f"lv-{os.getpid()}")
    os.makedirs(d, exist_ok=True)
    if os.getpid() not in _SCRATCH_REGISTERED:
        # whatever path a run ends on, its scratch directory goes away with the process that created it
        import atexit
        _SCRATCH_REGISTERED.add(os.getpid())
        atexit.register(lambda d=d, pid=os.getpid(): os.getpid() == pid and shutil.rmtree(d, ignore_errors=True))
    return d


def model_eval(cases, params, variant="current"):
    """cases: list of {"graph","rules"} -> list of canonical model results (or {"drv_err": …})."""
    out = []
    reps = common.drv_batch(model_requests(cases, params, variant))
    for c, r in zip(cases, reps):
        if "ok" not in r:
            out.append({"drv_err": r.get("err", "?")})
        else:
            m = canon_model(r["ok"], c["graph"])
            m["_typed"] = r["ok"]["typed"]
            m["_edge_typed"] = r["ok"]["edge_typed"]
            m["_rules_wf"] = r["ok"]["rules_wf"]
            m["_reach"] = {p[0]: sorted(("sym" if a else "st", b) for a, b in p[5]) for p in r["ok"]["props"]}
            out.append(m)
    return out


def compare_case(real, model):
    """-> None when real and model agree, else a description of the first difference"""
    if "drv_err" in model:
        return {"driver": model["drv_err"]}
    rr = canon_real(real)
    mm = {k: v for k, v in model.items() if not k.startswith("_")}
    d = diff_keys(rr, mm)
    if not d:
        return None
    k = d[0]
    return {"first_difference": k, "real": rr.get(k) if "exc" not in rr else rr, "model": mm.get(k) if "exc" not in mm else mm}


class Problems:
    def __init__(self):
        self.corr = []      # correspondence differences (model vs real)
        self.c10 = []       # completeness violations on real output
        self.c11 = []       # justification violations on real output
        self.known = []     # (finding id, what)
        self.harness = []   # anything that makes the run unusable (reported as harness error)


def synth_phase(ctx, params, prob, tier):
    """ties (b) and (c): random graphs x random / targeted rule sets against the real functions with a stub loader,
    plus rule-set extension pairs for monotonicity."""
    sz = SIZES[tier]
    rng = random.Random(ctx.rng.getrandbits(64))
    consts = params["consts"]
    cases = []
    t0 = time.time()
    for i in range(sz["synth"]):
        g, loader = gen_synth_graph(rng, consts)
        rs = gen_ruleset(rng, consts, g, loader)
        gj, nodes = ser_graph(g, loader)
        via = i < sz.get("via_loader", 0) and yaml_safe_ruleset(rs)
        yaml_groups = None
        if via:
            # YAML files -> REAL RuleManager.init -> Rule objects: the loading path is part of what is compared
            yaml_groups = [groups_of(rs.all_sources, "source"), groups_of(rs.all_sinks, "sink")]
            rs_l, ld = load_via_rule_manager(yaml_groups[0], yaml_groups[1], rs)
            for dff in ld[:1]:
                prob.corr.append({"origin": f"synthetic #{i} RuleManager.init", "difference": dict(dff, what="the loaded rule list is not the list of rule entries of the YAML file")})
            rs_used = rs_l
        else:
            rs_used = rs
        rj = ser_rules(rs_used, gj)
        real = real_engine(make_ta(loader, rs_used), g, nodes)
        case = {"graph": gj, "rules": rj, "real": real, "origin": f"synthetic #{i}" + (" (rules loaded from YAML)" if via else ""), "yaml": yaml_groups}
        cases.append(case)
        if i < sz["mono"]:
            rs2 = extend_ruleset(rng, rs, consts, g, loader)
            yaml2 = None
            if via and yaml_safe_ruleset(rs2):
                yaml2 = [groups_of(rs2.all_sources, "source"), groups_of(rs2.all_sinks, "sink")]
                rs2_used, ld = load_via_rule_manager(yaml2[0], yaml2[1], rs2)
                for dff in ld[:1]:
                    prob.corr.append({"origin": f"synthetic #{i} (extended rules) RuleManager.init", "difference": dict(dff, what="the loaded rule list is not the list of rule entries of the YAML file")})
            elif via:
                continue
            else:
                rs2_used = rs2
            rj2 = ser_rules(rs2_used, gj)
            real2 = real_engine(make_ta(loader, rs2_used), g, nodes)
            cases.append({"graph": gj, "rules": rj2, "real": real2, "origin": f"synthetic #{i} (extended rules)", "extends": case, "yaml": yaml2})
    models = model_eval(cases, params)
    stats = {"graphs": sz["synth"], "rule_sets": len(cases), "with_sources": 0, "with_sinks": 0, "with_flows": 0,
             "flows": 0, "typed": 0, "untyped": 0, "nonterminating": 0, "none_source_crash": 0, "mono_pairs": 0,
             "mono_pairs_nontrivial": 0, "props": 0, "live_nodes": 0, "gap_locs": 0, "distinct": set(), "seconds": 0}
    for c, m in zip(cases, models):
        real = c["real"]
        d = compare_case(real, m)
        if d:
            prob.corr.append({"origin": c["origin"], "graph": c["graph"], "rules": c["rules"], "difference": d})
        if real["exc"] == "nonterm":
            stats["nonterminating"] += 1
        elif real["exc"]:
            prob.corr.append({"origin": c["origin"], "graph": c["graph"], "rules": c["rules"],
                              "difference": {"real_exception": real["exc"]}}) if not d else None
        if real["err"] == "none-source":
            stats["none_source_crash"] += 1
        if not real["exc"]:
            stats["with_sources"] += 1 if real["sources"] else 0
            stats["with_sinks"] += 1 if real["sinks"] else 0
            stats["with_flows"] += 1 if real["flows"] else 0
            stats["flows"] += len(real["flows"] or [])
            if real["flows"]:
                stats["distinct"].add(hashlib_key((c["graph"], c["rules"])))
        if "drv_err" not in m:
            stats["typed" if (m.get("_typed") and m.get("_edge_typed")) else "untyped"] += 1
            if m.get("_edge_typed") != Oracle(c["graph"], params).typed() and m.get("_typed"):
                prob.corr.append({"origin": c["origin"], "graph": c["graph"], "rules": c["rules"],
                                  "difference": {"spec": "Taint.edgeTyped differs from the Python restatement"}})
        p10, p11, st = engine_checks(real, c["graph"], c["rules"], params)
        for k in ("props", "live_nodes", "gap_locs"):
            stats[k] += st[k]
        for p in p10:
            prob.c10.append({"origin": c["origin"], "kind": "graph", "graph": c["graph"], "rules": c["rules"], "problem": p})
        for p in p11:
            prob.c11.append({"origin": c["origin"], "kind": "graph", "graph": c["graph"], "rules": c["rules"], "problem": p})
        # cross-check of the two statements of the closure (Python oracle vs Lean reachSat)
        if "drv_err" not in m and not real["exc"] and "exc" not in m:
            o = Oracle(c["graph"], params)
            for src, lean_reach in m["_reach"].items():
                if sorted(o.reach(src)) != lean_reach:
                    prob.corr.append({"origin": c["origin"], "graph": c["graph"], "rules": c["rules"],
                                      "difference": {"spec": "Spec.Reach.reachSat differs from the Python restatement", "src": src}})
        if "extends" in c:
            base = c["extends"]["real"]
            if not base["exc"] and not real["exc"] and not base["err"] and not real["err"]:
                stats["mono_pairs"] += 1
                pb, pe = flow_pairs(base), flow_pairs(real)
                if pb:
                    stats["mono_pairs_nontrivial"] += 1
                if not pb <= pe:
                    prob.c11.append({"origin": c["origin"], "kind": "mono", "graph": c["graph"],
                                     "rules": c["extends"]["rules"], "rules_ext": c["rules"],
                                     "yaml": c["extends"].get("yaml"), "yaml_ext": c.get("yaml"),
                                     "problem": {"what": "adding rules removed a reported (source, sink) pair",
                                                 "lost": sorted(pb - pe)}})
    stats["distinct_with_flows"] = len(stats.pop("distinct"))
    stats["seconds"] = round(time.time() - t0, 1)
    samples = [{"graph": c["graph"], "rules": c["rules"], "real_flows": c["real"]["flows"]} for c in cases if c["real"]["flows"]][:1]
    return stats, samples


def hashlib_key(obj):
    import hashlib
    return hashlib.sha256(json.dumps(obj, sort_keys=True, default=str).encode()).hexdigest()[:16]


# ---- rule configurations of a packed run ---------------------------------------------------------

def job_configs(d, n_src, n_sink, n_param, rng, case_names):
    """Writes the settings directories of one packed run. Returns [{name, dir, active}] where `active` tells the
    oracle which sites have an applicable rule: function (kind, name, file, line) -> bool."""
    src0, snk0 = base_rules(n_src, n_sink, n_param)
    dsrc_, dsnk_ = decoy_rules(n_src, n_sink, n_param)
    # the decoys are part of EVERY configuration (interleaved before and after the real rules)
    src = dsrc_[: len(dsrc_) // 2] + src0 + dsrc_[len(dsrc_) // 2:]
    snk = dsnk_[: len(dsnk_) // 2] + snk0 + dsnk_[len(dsnk_) // 2:]
    cfgs = []
    def add(name, sg, kg, active, subset_of=None, equals=None):
        cd = os.path.join(d, "cfg_" + name)
        write_settings(cd, sg, kg)
        cfgs.append({"name": name, "dir": cd, "active": active, "subset_of": subset_of, "equals": equals, "groups": [sg, kg]})
    add("base", [("python", src)], [("python", snk)], {"src": "all", "sink": "all"})
    # the real rules alone (no decoys): must report exactly what base reports
    add("plain", [("python", src0)], [("python", snk0)], {"src": "all", "sink": "all"}, equals="base")
    # same-name rules with another target / a location restriction that holds nowhere, appended as a second group ...
    dsrc, dsnk = dup_rules(src0, snk0)
    add("dup", [("python", src), ("python", dsrc)], [("python", snk), ("python", dsnk)], {"src": "all", "sink": "all"}, equals="base")
    # ... and placed BEFORE the real rules
    add("dup_rev", [("python", dsrc), ("python", src)], [("python", dsnk), ("python", snk)], {"src": "all", "sink": "all"}, equals="base")
    add("java", [("java", src)], [("java", snk)], {"src": "none", "sink": "none"}, "base")
    add("nosrc", [], [("python", snk)], {"src": "none", "sink": "all"}, "base")
    add("nosink", [("python", src)], [], {"src": "all", "sink": "none"}, "base")
    # half of the rules under the wrong language: only the python half may fire
    keep_s = [i for i in range(len(src)) if rng.random() < 0.5]
    keep_k = [i for i in range(len(snk)) if rng.random() < 0.5]
    add("mixed", [("python", [src[i] for i in keep_s]), ("java", [r for i, r in enumerate(src) if i not in keep_s])],
        [("java", [r for i, r in enumerate(snk) if i not in keep_k]), ("python", [snk[i] for i in keep_k])],
        {"src": {src[i].get("name") for i in keep_s}, "sink": {snk[i].get("name", "data") for i in keep_k}}, "base")
    # every sink rule restricted to some files (unit_name): sinks of the other files must disappear
    only = set(rng.sample(case_names, max(1, min(6, len(case_names) // 3))))
    snk_u = dsnk_ + [dict(r, unit_name=u) for u in sorted(only) for r in snk0]
    add("unit", [("python", src)], [("python", snk_u)], {"src": "all", "sink": "all", "sink_unit": only}, "base")
    # every source rule restricted to one line (line_num): sources on other lines must disappear
    lines = {r.get("name"): rng.randint(3, 14) for r in src}
    src_l = [dict(r, line_num=lines[r.get("name")]) for r in src]
    add("line", [("python", src_l)], [("python", snk)], {"src": "all", "sink": "all", "src_line": lines}, "base")
    # the any-language marker and a group without restriction behave like the base configuration
    add("anylang", [("'%'", src)], [("'%'", snk)], {"src": "all", "sink": "all"}, equals="base")
    return cfgs


def site_active(active, side, kind, name, fname, line=None):
    a = active[side]
    if a == "none":
        return False
    if side == "sink" and active.get("sink_unit") and fname not in active["sink_unit"]:
        return False
    if side == "src" and active.get("src_line") and active["src_line"].get(name) != line:
        return False
    if a == "all":
        return True
    return name in a


# ---- known-finding matchers (narrow; each names the specific shape / call site) -----------------------

def callee_without_state(gj, consts, fname, line, callee):
    """D2 signature in the SFG: the call statement `callee(...)` on `line` of `fname` uses the callee's symbol at
    position 0, that symbol node has no state successor, and another node of the same symbol id has one."""
    N = gj["nodes"]
    for u, n in enumerate(N):
        if n[0] != consts["K_STMT"] or n[5] != "call_stmt" or n[6] + 1 != line or n[11] != callee:
            continue
        if os.path.basename(gj["units"][n[14]][0]) != fname:
            continue
        for p, et, pos in gj["in"][u]:
            if et == consts["E_USED"] and pos == 0 and N[p][0] == consts["K_SYMBOL"]:
                has_state = any(N[v][0] == consts["K_STATE"] for v, _, _ in gj["out"][p])
                if has_state:
                    continue
                for q, m in enumerate(N):
                    if q != p and m[0] == consts["K_SYMBOL"] and m[3] == N[p][3] and \
                            any(N[v][0] == consts["K_STATE"] for v, _, _ in gj["out"][q]):
                        return True
    return False


def source_state_on_other_context(gj, consts, fname, line):
    """Signature in the SFG: a symbol node S defined by a statement on `line` of `fname` has NO SYMBOL_STATE edge,
    while another symbol node with the same (def_stmt_id, index, node_id) but a different context_id holds a state:
    the state edge of the definition was attached to the other context copy of the symbol, so the taint engine, which
    starts at the copy the statement defines, finds no state to tag."""
    N = gj["nodes"]
    K_STMT, K_SYM, K_ST = consts["K_STMT"], consts["K_SYMBOL"], consts["K_STATE"]
    for i, n in enumerate(N):
        if n[0] != K_SYM or os.path.basename(gj["units"][n[14]][0]) != fname:
            continue
        if not any(N[u][0] == K_STMT and et == consts["E_DEFINED"] and N[u][6] + 1 == line for u, et, _ in gj["in"][i]):
            continue
        if any(et == consts["E_SYMSTATE"] for _, et, _ in gj["out"][i]):
            continue
        for j, m in enumerate(N):
            if j != i and m[0] == K_SYM and (m[1], m[2], m[3]) == (n[1], n[2], n[3]) and m[4] != n[4] and \
                    any(et == consts["E_SYMSTATE"] and N[v][0] == K_ST for v, et, _ in gj["out"][j]):
                return True
    return False


def returned_state_duplicated(gj, consts, fname, line):
    """Signature in the SFG: a symbol S defined by a statement on `line` of `fname` is used by a return statement,
    and a symbol defined by a call statement holds a state T that was created by the SAME statement as S's states
    (equal def_stmt_id) but is none of them: the caller received a duplicate of the returned value's state that is not
    linked to the one the source symbol holds (so tagging S's state never reaches the caller)."""
    N = gj["nodes"]
    K_STMT, K_SYM, K_ST = consts["K_STMT"], consts["K_SYMBOL"], consts["K_STATE"]
    for i, n in enumerate(N):
        if n[0] != K_SYM or os.path.basename(gj["units"][n[14]][0]) != fname:
            continue
        if not any(N[u][0] == K_STMT and et == consts["E_DEFINED"] and N[u][6] + 1 == line for u, et, _ in gj["in"][i]):
            continue
        if not any(et == consts["E_USED"] and N[v][0] == K_STMT and N[v][5] == "return_stmt" for v, et, _ in gj["out"][i]):
            continue
        own = {N[v][3] for v, et, _ in gj["out"][i] if et == consts["E_SYMSTATE"] and N[v][0] == K_ST}
        own_stmts = {N[v][1] for v, et, _ in gj["out"][i] if et == consts["E_SYMSTATE"] and N[v][0] == K_ST}
        if not own:
            continue
        for t, m in enumerate(N):
            if m[0] != K_ST or m[1] not in own_stmts or m[3] in own:
                continue
            for h, et, _ in gj["in"][t]:
                if et == consts["E_SYMSTATE"] and N[h][0] == K_SYM and \
                        any(N[u][0] == K_STMT and et2 == consts["E_DEFINED"] and N[u][5] == "call_stmt" for u, et2, _ in gj["in"][h]):
                    return True
    return False


def def_use_edge_missing(gj, consts, x, def_file, def_line, use_file, use_line):
    """In the SFG: symbol nodes named x defined by a statement on def_line exist, and none of them has a
    SYMBOL_IS_USED edge to a statement on use_line."""
    N = gj["nodes"]
    K_STMT, K_SYM = consts["K_STMT"], consts["K_SYMBOL"]
    found = False
    for i, n in enumerate(N):
        if n[0] != K_SYM or n[5] != x or os.path.basename(gj["units"][n[14]][0]) != def_file:
            continue
        if not any(N[u][0] == K_STMT and et == consts["E_DEFINED"] and N[u][6] + 1 == def_line for u, et, _ in gj["in"][i]):
            continue
        found = True
        for v, et, _ in gj["out"][i]:
            if et == consts["E_USED"] and N[v][0] == K_STMT and N[v][6] + 1 == use_line and \
                    os.path.basename(gj["units"][N[v][14]][0]) == use_file:
                return False
    if not found:
        return False
    # the use statement must be in the graph at all (otherwise the enclosing method was simply not analysed)
    return any(n[0] == K_STMT and n[6] + 1 == use_line and os.path.basename(gj["units"][n[14]][0]) == use_file for n in N)


def reaching_def_lost(case, rend, gj, consts, s_site, k_site, names):
    """C06 signature with proof: the program (AST) has a definition D of a variable X and a use U of X such that D
    reaches U on every execution (taint_progs.must_reach_pairs), X lies on a dependence path of the missed flow
    (source ->* X ->* the sink's designated argument), and in the entry point's SFG no symbol node named X defined on
    D's line has a SYMBOL_IS_USED edge to a statement on U's line."""
    import taint_progs as tp
    md = tp.MayDep(case, rend.sites, call_propagates=True)
    src_nodes = [n for n, srcs in md.src_of.items() if s_site in srcs]
    sink_args = [arg for (site, arg, designated) in md.sink_args if site == k_site and designated and arg is not None]
    reach_src = set()
    for sn in src_nodes:
        reach_src |= md.reach_from(sn)
    for (scope, x, dp, up) in tp.must_reach_pairs(case):
        if dp not in rend.stmt_lines or up not in rend.stmt_lines:
            continue
        xn = md.var(scope, x)
        if not tp.on_flow_path(md, xn, reach_src, sink_args):
            continue
        (df, dl), (uf, ul) = rend.stmt_lines[dp], rend.stmt_lines[up]
        if def_use_edge_missing(gj, consts, x, names[df], dl, names[uf], ul):
            return True
    return False


def arg_value_not_passed(gj, consts, x, def_file, def_line, use_file, use_line):
    """In the SFG: a call statement C on use_line uses, at one argument position, the symbol node S named x that a
    statement on def_line defines AND another node S' of the same variable (another reaching definition); the call
    was expanded for S' (S' has a SYMBOL_FLOW edge to a parameter node P in the call-site context of C), but S has
    no SYMBOL_FLOW edge into that context and P holds none of S's states: the callee never saw the value of S."""
    N = gj["nodes"]
    K_STMT, K_SYM, K_ST = consts["K_STMT"], consts["K_SYMBOL"], consts["K_STATE"]
    flow = (consts["E_FLOW"], consts["E_IFLOW"])
    for cnode, n in enumerate(N):
        if n[0] != K_STMT or n[5] != "call_stmt" or n[6] + 1 != use_line or \
                os.path.basename(gj["units"][n[14]][0]) != use_file:
            continue
        used = [(p_, pos) for p_, et, pos in gj["in"][cnode] if et == consts["E_USED"] and N[p_][0] == K_SYM and pos >= 1]
        for s_, pos in used:
            m = N[s_]
            if m[5] != x or os.path.basename(gj["units"][m[14]][0]) != def_file:
                continue
            if not any(N[u][0] == K_STMT and et == consts["E_DEFINED"] and N[u][6] + 1 == def_line for u, et, _ in gj["in"][s_]):
                continue
            if any(et in flow and N[v][4] == n[1] for v, et, _ in gj["out"][s_]):
                continue                                     # the value of S was passed
            my_states = {N[v][3] for v, et, _ in gj["out"][s_] if et == consts["E_SYMSTATE"] and N[v][0] == K_ST}
            for s2, pos2 in used:
                if s2 == s_ or pos2 != pos or N[s2][3] != m[3]:
                    continue
                for pnode, et, _ in gj["out"][s2]:
                    if et in flow and N[pnode][0] == K_SYM and N[pnode][4] == n[1]:
                        held = {N[v][3] for v, et2, _ in gj["out"][pnode] if et2 == consts["E_SYMSTATE"]}
                        if my_states and not (my_states & held):
                            return True
    return False


def join_arg_state_lost(case, rend, gj, consts, s_site, k_site, names):
    """C08/join-revisit seen from C10: the program (AST) has a definition D of X that reaches the call U = f(.. X ..)
    on every execution passing D (taint_progs.must_reach_pairs), X lies on a dependence path of the missed flow, and
    the SFG shows that the call was expanded with the value of another reaching definition only
    (arg_value_not_passed)."""
    import taint_progs as tp
    md = tp.MayDep(case, rend.sites, call_propagates=True)
    src_nodes = [n for n, srcs in md.src_of.items() if s_site in srcs]
    sink_args = [arg for (site, arg, designated) in md.sink_args if site == k_site and designated and arg is not None]
    reach_src = set()
    for sn in src_nodes:
        reach_src |= md.reach_from(sn)
    for (scope, x, dp, up) in tp.must_reach_pairs(case):
        if dp not in rend.stmt_lines or up not in rend.stmt_lines:
            continue
        if not tp.on_flow_path(md, md.var(scope, x), reach_src, sink_args):
            continue
        (df, dl), (uf, ul) = rend.stmt_lines[dp], rend.stmt_lines[up]
        if arg_value_not_passed(gj, consts, x, names[df], dl, names[uf], ul):
            return True
    return False


def while_bodies(case, rend):
    """every while statement of the program: (file index, first body line, last body line, scope, variables assigned
    directly or in nested blocks of the body)"""
    import taint_progs as tp
    out = []
    def lines_vars(body, path):
        ls, vs = [], set()
        for i, st in enumerate(body):
            p = path + (i,)
            if p in rend.stmt_lines:
                ls.append(rend.stmt_lines[p])
            v = tp.assigned_var(st)
            if v:
                vs.add(v)
            if st[0] == "if":
                for br in (1, 2):
                    l2, v2 = lines_vars(st[br], p + (br,))
                    ls += l2; vs |= v2
            elif st[0] == "while":
                l2, v2 = lines_vars(st[1], p + (1,))
                ls += l2; vs |= v2
        return ls, vs
    def walk(body, path, scope):
        for i, st in enumerate(body):
            p = path + (i,)
            if st[0] == "while":
                ls, vs = lines_vars(st[1], p + (1,))
                if ls:
                    # the line of the last statement may be followed by lines of its own nested blocks; they are in ls
                    out.append((ls[0][0], min(l for _, l in ls), max(l for _, l in ls), scope, vs))
                walk(st[1], p + (1,), scope)
            elif st[0] == "if":
                walk(st[1], p + (1,), scope)
                walk(st[2], p + (2,), scope)
    walk(case.body, ("m",), "<m>")
    for fi, f in enumerate(case.funcs):
        walk(f.body, ("f", fi), f.name)
    return out


def read_after(case, rend, scope, x, fidx, after_line):
    """does a statement of `scope` on a line after `after_line` (same file) read variable x directly?"""
    import taint_progs as tp
    if scope == "<m>":
        body, path = case.body, ("m",)
        ret = None
    else:
        fi = [f.name for f in case.funcs].index(scope)
        body, path = case.funcs[fi].body, ("f", fi)
        f = case.funcs[fi]
        ret = ("ret", fi) if f.ret is not None and f.ret[0] == "var" and f.ret[1] == x else None
    def walk(b, p0):
        for i, st in enumerate(b):
            p = p0 + (i,)
            fl = rend.stmt_lines.get(p)
            if fl and fl[0] == fidx and fl[1] > after_line and x in tp.direct_uses(st):
                return True
            if st[0] == "if" and (walk(st[1], p + (1,)) or walk(st[2], p + (2,))):
                return True
            if st[0] == "while" and walk(st[1], p + (1,)):
                return True
        return False
    if walk(body, path):
        return True
    if ret is not None and ret in rend.stmt_lines:
        fl = rend.stmt_lines[ret]
        return fl[0] == fidx and fl[1] > after_line
    return False


def loop_def_lost(case, rend, gj, consts, s_site, k_site, names):
    """C06 signature for loops, with SFG evidence: a variable X is assigned inside a while body and read by a statement
    of the same scope after the loop (AST); some symbol node named X defined on a line of that body has NO
    SYMBOL_IS_USED edge to a statement outside the body (SFG); and X lies on a dependence path of the missed flow
    (source ->* X ->* the sink's designated argument in the directional closure)."""
    import taint_progs as tp
    md = tp.MayDep(case, rend.sites, call_propagates=True)
    N = gj["nodes"]
    K_STMT, K_SYM = consts["K_STMT"], consts["K_SYMBOL"]
    src_nodes = [n for n, srcs in md.src_of.items() if s_site in srcs]
    sink_args = [arg for (site, arg, designated) in md.sink_args if site == k_site and designated and arg is not None]
    for (fidx, l1, l2, scope, vs) in while_bodies(case, rend):
        fname = names[fidx]
        for x in vs:
            xn = md.var(scope, x)
            reach_src_ = set()
            for sn in src_nodes:
                reach_src_ |= md.reach_from(sn)
            if not tp.on_flow_path(md, xn, reach_src_, sink_args):
                continue
            if not read_after(case, rend, scope, x, fidx, l2):
                continue
            ids_lost = set()
            for i, n in enumerate(N):
                if n[0] != K_SYM or n[5] != x or os.path.basename(gj["units"][n[14]][0]) != fname:
                    continue
                def_lines = [N[u][6] + 1 for u, et, _ in gj["in"][i] if N[u][0] == K_STMT and et == consts["E_DEFINED"]]
                uses_out = [N[v][6] + 1 for v, et, _ in gj["out"][i] if et == consts["E_USED"] and N[v][0] == K_STMT]
                if any(l1 <= dl <= l2 for dl in def_lines) and not any(ul < l1 or ul > l2 for ul in uses_out):
                    ids_lost.add(n[3])
            if ids_lost:
                return True
    return False


def in_while(path, case):
    """is the statement at AST path `path` inside a while body? returns the path prefix of the innermost such while"""
    import taint_progs as tp
    body = case.body if path[0] == "m" else case.funcs[path[1]].body
    rest = path[1:] if path[0] == "m" else path[2:]
    prefix = path[:1] if path[0] == "m" else path[:2]
    loops = []
    i = 0
    while i < len(rest):
        s = body[rest[i]]
        prefix = prefix + (rest[i],)
        if i + 1 < len(rest):
            branch = rest[i + 1]
            if s[0] == "while":
                loops.append(prefix)
            body = s[branch]
            prefix = prefix + (branch,)
            i += 2
        else:
            i += 1
    return loops


def call_site_budget_exhausted(entry_case, params, fname, src_line):
    """Signature of C10/call-site-budget-per-entry in the SFG and the REAL tag map of the source on `src_line`: a
    symbol node A carries the tag and was dequeued, is used by a call statement, has NO SYMBOL_FLOW edge, while at
    least TWO other nodes of the same (def_stmt_id, node_id) — other passes over the helper — have a SYMBOL_FLOW edge into a
    symbol defined by a parameter_decl: the call site was expanded for two contexts (the whole budget:
    MAX_ANALYSIS_ROUND_FOR_CALL_SITE = 2, counter keyed without the calling context) and not for the one that
    carries the taint."""
    gj, real = entry_case["graph"], entry_case["real"]
    N = gj["nodes"]
    c = params["consts"]
    K_STMT, K_SYM = c["K_STMT"], c["K_SYMBOL"]
    line = {n[1]: n[6] + 1 for n in N if n[0] == K_STMT}
    def is_param(v):
        return N[v][0] == K_SYM and any(N[u][0] == K_STMT and et == c["E_DEFINED"] and N[u][5] == "parameter_decl" for u, et, _ in gj["in"][v])
    for p in real["props"]:
        sn = N[p["src"]]
        if line.get(sn[1]) != src_line or os.path.basename(gj["units"][sn[14]][0]) != fname:
            continue
        tagged = {int(k) for k in p["sym"]}
        processed = set(p["processed"])
        for a, n in enumerate(N):
            if n[0] != K_SYM or n[3] not in tagged or a not in processed:
                continue
            if any(et in (c["E_FLOW"], c["E_IFLOW"]) for _, et, _ in gj["out"][a]):
                continue
            if not any(et == c["E_USED"] and N[v][0] == K_STMT and N[v][5] == "call_stmt" for v, et, _ in gj["out"][a]):
                continue
            sib = [b for b, m in enumerate(N) if b != a and m[0] == K_SYM and (m[1], m[3]) == (n[1], n[3]) and
                   (m[2], m[4]) != (n[2], n[4]) and m[4] != -1]
            ctx_ok = {N[b][4] for b in sib if any(et in (c["E_FLOW"], c["E_IFLOW"]) and is_param(v) for v, et, _ in gj["out"][b])}
            # passes over the helper (nodes with their own index) in contexts in which the call site WAS expanded
            if len({(N[b][2], N[b][4]) for b in sib if N[b][4] in ctx_ok}) >= 2:
                return True
    return False


def call_site_budget_exhausted_ast(case, rend, entry_case, params, names, fname, src_line):
    """The same signature with the callee taken from the program: a symbol node A that carries the tag and was dequeued
    is used by a call statement of a function F of the program; a pass is EXPANDED when a parameter symbol of F (defined
    by a parameter_decl on F's def line) has a SYMBOL_FLOW in-edge from the argument node or from a node that also
    flows into the argument node.  Known iff A's pass is not expanded while at least TWO other nodes of the same
    (def_stmt_id, node_id) are."""
    gj, real = entry_case["graph"], entry_case["real"]
    N = gj["nodes"]
    c = params["consts"]
    K_STMT, K_SYM = c["K_STMT"], c["K_SYMBOL"]
    FL = (c["E_FLOW"], c["E_IFLOW"])
    line = {n[1]: n[6] + 1 for n in N if n[0] == K_STMT}
    def_line = {f.name: rend.stmt_lines.get(("def", fi)) for fi, f in enumerate(case.funcs)}
    def params_of(fn_name):
        fl = def_line.get(fn_name)
        if not fl:
            return set()
        out = set()
        for v, n in enumerate(N):
            if n[0] == K_SYM and os.path.basename(gj["units"][n[14]][0]) == names[fl[0]] and \
                    any(N[u][0] == K_STMT and et == c["E_DEFINED"] and N[u][5] == "parameter_decl" and N[u][6] + 1 == fl[1]
                        for u, et, _ in gj["in"][v]):
                out.add(v)
        return out
    def feeds(b, pf):
        if any(et in FL and v in pf for v, et, _ in gj["out"][b]):
            return True
        for x, et, _ in gj["in"][b]:
            if et in FL and any(et2 in FL and v in pf for v, et2, _ in gj["out"][x]):
                return True
        return False
    for p in real["props"]:
        sn = N[p["src"]]
        if line.get(sn[1]) != src_line or os.path.basename(gj["units"][sn[14]][0]) != fname:
            continue
        tagged = {int(k) for k in p["sym"]}
        processed = set(p["processed"])
        for a, n in enumerate(N):
            if n[0] != K_SYM or n[3] not in tagged or a not in processed:
                continue
            for cs, et, _ in gj["out"][a]:
                if et != c["E_USED"] or N[cs][0] != K_STMT or N[cs][5] != "call_stmt" or N[cs][11] not in def_line:
                    continue
                pf = params_of(N[cs][11])
                if not pf or feeds(a, pf):
                    continue
                sib = [b for b, m in enumerate(N) if b != a and m[0] == K_SYM and (m[1], m[3]) == (n[1], n[3]) and m[4] != -1]
                ctx_ok = {N[b][4] for b in sib if feeds(b, pf)}
                # passes over the helper (nodes with their own index) in contexts in which the call site WAS expanded:
                # two passes use up the budget (the counter is bumped twice per pass, `> 2` blocks the third)
                if len({(N[b][2], N[b][4]) for b in sib if N[b][4] in ctx_ok}) >= 2:
                    return True
    return False


def classify_missed(case, rend, gj, consts, s_site, k_site, names, entry_case=None, params=None):
    """-> known finding id for a missed ground-truth flow, or None. `names`: file index -> file name."""
    import taint_progs as tp
    src_info = {(f, l): (kind, nm) for f, l, kind, nm in rend.src_sites}
    sink_info = {(f, l): (kind, nm) for f, l, kind, nm in rend.sink_sites}
    skind, sname = src_info[s_site]
    kkind, kname = sink_info[k_site]
    if kkind == "recordwrite":
        return "C10/record-write-sink"
    if gj is not None:
        if skind == "call" and callee_without_state(gj, consts, names[s_site[0]], s_site[1], sname):
            return "C10/repeated-external-callee"
        if kkind == "call" and callee_without_state(gj, consts, names[k_site[0]], k_site[1], kname):
            return "C10/repeated-external-callee"
    cut = tp.MayDep(case, rend.sites, cut_global_ret=True).flows()
    if (s_site, k_site) not in cut:
        return "C10/global-read-returned"
    if gj is not None and source_state_on_other_context(gj, consts, names[s_site[0]], s_site[1]):
        return "C10/source-state-on-other-context"
    if gj is not None and returned_state_duplicated(gj, consts, names[s_site[0]], s_site[1]):
        return "C10/returned-state-duplicated"
    if gj is not None and loop_def_lost(case, rend, gj, consts, s_site, k_site, names):
        return "C10/loop-def-lost"
    if gj is not None and reaching_def_lost(case, rend, gj, consts, s_site, k_site, names):
        return "C10/reaching-def-lost"
    if gj is not None and join_arg_state_lost(case, rend, gj, consts, s_site, k_site, names):
        return "C10/join-arg-state-lost"
    if entry_case is not None and params is not None and \
            (call_site_budget_exhausted(entry_case, params, names[s_site[0]], s_site[1]) or
             call_site_budget_exhausted_ast(case, rend, entry_case, params, names, names[s_site[0]], s_site[1])):
        return "C10/call-site-budget-per-entry"
    return None


def tagged_at_sink(entry_case, params, src_stmt, sink_stmt):
    """In the REAL tag map of the source symbol defined by statement `src_stmt`, does a symbol used by the sink
    statement `sink_stmt` watch a tagged location?  (i.e. the reported flow is the product of tag propagation over
    the SFG, not of a wrong decision afterwards)"""
    gj, real = entry_case["graph"], entry_case["real"]
    N = gj["nodes"]
    c = params["consts"]
    o = Oracle(gj, params)
    for p in real["props"]:
        if N[p["src"]][1] != src_stmt:
            continue
        locs = {("sym", int(k)) for k in p["sym"]} | {("st", int(k)) for k in p["st"]}
        for k, n in enumerate(N):
            if n[0] == c["K_STMT"] and n[1] == sink_stmt:
                for ppred, et, pos in gj["in"][k]:
                    if et == c["E_USED"] and o.sym_locs(ppred) & locs:
                        return True
    return False


def classify_spurious(case, rend, entry_case, params, s_site, k_site, names, act_pair):
    """-> known finding id for a reported flow outside the (coarse) directional upper bound, or None"""
    import taint_progs as tp
    if not act_pair(s_site, k_site):
        return None
    md = tp.MayDep(case, rend.sites, call_propagates=True)
    if (s_site, k_site) not in tp.co_descendant_pairs(md) and (s_site, k_site) not in tp.other_value_pairs(case, rend.sites):
        return None
    inv = {}
    for sid, (fn, ln) in entry_case["stmt_site"].items():
        inv.setdefault((fn, ln), []).append(int(sid))
    for a in inv.get((names[s_site[0]], s_site[1]), []):
        for b in inv.get((names[k_site[0]], k_site[1]), []):
            if tagged_at_sink(entry_case, params, a, b):
                return "C11/tainted-variable-taints-its-other-values"
    return None


def reported_pairs(entry_case):
    """real flows of one (entry, config) as ((file, line), (file, line)) pairs"""
    real = entry_case["real"]
    site = entry_case["stmt_site"]
    out = set()
    for a, b, v in (real["flows"] or []):
        sa, sb = site.get(a) or site.get(str(a)), site.get(b) or site.get(str(b))
        out.add(((sa[0], sa[1]), (sb[0], sb[1])))
    return out


def build_jobs(ctx, tier, root):
    import taint_progs as tp
    sz = SIZES[tier]
    rng = random.Random(ctx.rng.getrandbits(64))
    jobs = []
    for j in range(sz["jobs"]):
        cases, files = [], {}
        for i in range(sz["cases_per_job"]):
            case, rend, fs = tp.make_case(rng, i)
            cases.append((case, rend))
            files.update(fs)
        d = os.path.join(root, f"job{j}")
        os.makedirs(d, exist_ok=True)
        ns = max([len(c.src_names) for c, _ in cases] + [1])
        nk = max([len(c.sink_names) for c, _ in cases] + [1])
        npar = max([len(c.param_names) for c, _ in cases] + [1])
        cfgs = job_configs(d, ns, nk, npar, rng, [f"case{c.idx:04d}.py" for c, _ in cases])
        jobs.append({"name": f"job{j}", "dir": d, "files": files, "configs": [{"name": c["name"], "dir": c["dir"]} for c in cfgs],
                     "_cases": cases, "_cfgs": cfgs, "_rules": base_rules(ns, nk, npar)})
    jobs += build_layout_jobs(random.Random(rng.getrandbits(64)), tier, root)
    jobs += build_lang_jobs(random.Random(rng.getrandbits(64)), tier, root)
    return jobs


# ---- tie (f): programs in other languages under rule groups of every language ------------------------------------
# a rule group applies to a unit iff its language IS the unit's language (or the any-language marker): in particular
# not when the unit's language name is merely a substring of the group's (java / javascript, c / csharp, abc,
# typescript, javascript)
XLANG_RULE_LANGS = ["java", "c", "javascript", "csharp", "typescript", "abc", "python", "'%'"]


def gen_xlang_program(rng, lang, idx, n_src, n_sink):
    """straight-line main(): `T v = srcK();`, `T v = w;`, `sinkK(v);`, `sinkK(<literal>);`, every variable assigned once.
    -> (file name, text, expected {(source name, sink name)})"""
    T = "String" if lang == "java" else "int"
    lit = (lambda: '"k%d"' % rng.randint(0, 9)) if lang == "java" else (lambda: str(rng.randint(0, 99)))
    taint, lines, exp = {}, [], set()
    vs = []
    used_src, used_sink = [0], [0]
    def next_sink():
        used_sink[0] += 1
        return used_sink[0] - 1
    for i in range(rng.randint(4, 9)):
        r = rng.random()
        if used_sink[0] >= n_sink:
            break
        if (r < 0.35 or not vs) and used_src[0] < n_src:
            v = f"v{len(vs)}"
            k = used_src[0]            # every callee name once per program (C10/repeated-external-callee)
            used_src[0] += 1
            lines.append(f"{T} {v} = src{k}();")
            taint[v] = {f"src{k}"}
            vs.append(v)
        elif r < 0.55 and vs:
            v, w = f"v{len(vs)}", rng.choice(vs)
            lines.append(f"{T} {v} = {w};")
            taint[v] = set(taint[w])
            vs.append(v)
        elif not vs:
            continue
        elif r < 0.9:
            k, w = next_sink(), rng.choice(vs)
            lines.append(f"sink{k}({w});")
            exp |= {(s_, f"sink{k}") for s_ in taint[w]}
        else:
            lines.append(f"sink{next_sink()}({lit()});")
    if lang == "java":
        name = f"X{idx}"
        text = f"public class {name} {{\n    public static void main(String[] args) {{\n" + "".join("        " + l + "\n" for l in lines) + "    }\n}\n"
        return name + ".java", text, exp
    text = "int main() {\n" + "".join("    " + l + "\n" for l in lines) + "    return 0;\n}\n"
    return f"x{idx}.c", text, exp


def build_lang_jobs(rng, tier, root):
    n_src, n_sink = 6, 8
    files, progs = {}, {}
    for i in range(6 if tier == "quick" else 24):
        lang = "java" if i % 2 == 0 else "c"
        fn, text, exp = gen_xlang_program(rng, lang, i, n_src, n_sink)
        files[fn] = text
        progs[fn] = {"lang": lang, "expected": sorted(exp)}
    d = os.path.join(root, "xlang0")
    os.makedirs(d, exist_ok=True)
    src = [{"operation": "call_stmt", "name": f"src{i}"} for i in range(n_src)]
    snk = [{"operation": "call_stmt", "name": f"sink{i}", "target": ["\\%arg0"], "vuln_type": "v"} for i in range(n_sink)]
    cfgs = []
    for L in XLANG_RULE_LANGS:
        nm = "lang_" + (L.strip("'").replace("%", "any"))
        cd = os.path.join(d, "cfg_" + nm)
        write_settings(cd, [(L, src)], [(L, snk)], entry_methods=["main"])
        cfgs.append({"name": nm, "dir": cd, "groups": [[(L, src)], [(L, snk)]], "rule_lang": L.strip("'")})
    return [{"name": "xlang0", "dir": d, "files": files, "langs": "java,c", "configs": [{"name": c["name"], "dir": c["dir"]} for c in cfgs],
             "_cases": [], "_cfgs": cfgs, "_xlang": progs}]


def xlang_eval(job, res, params, prob, stats):
    xs = stats.setdefault("other_languages", {"programs": len(job["_xlang"]), "entry_config_pairs": 0, "must_be_silent": 0,
                                               "applicable": 0, "expected_flows": 0, "reported_flows": 0, "unit_langs": {}, "rule_langs": [c["rule_lang"] for c in job["_cfgs"]]})
    cfg_by = {c["name"]: c for c in job["_cfgs"]}
    for c in res["cases"]:
        if "out_of_fragment" in c:
            continue
        fn = os.path.basename(c["unit"])
        pg = job["_xlang"].get(fn)
        if pg is None:
            continue
        cfg = cfg_by[c["config"]]
        L = cfg["rule_lang"]
        ulangs = {u[1] for u in c["graph"]["units"]}
        xs["entry_config_pairs"] += 1
        for u in ulangs:
            xs["unit_langs"][u] = xs["unit_langs"].get(u, 0) + 1
        if ulangs != {pg["lang"]}:
            prob.harness.append({"what": "unit language differs from the generated program's language", "file": fn, "langs": sorted(ulangs)})
            continue
        real = c["real"]
        payload = {"kind": "program", "files": {fn: job["files"][fn]}, "src_groups": cfg["groups"][0], "sink_groups": cfg["groups"][1],
                   "config": c["config"], "langs": job["langs"], "entry_methods": ["main"], "origin": f"{job['name']} {fn} config={c['config']}"}
        pos = c["stmt_pos"]
        rep = set()
        for a, b, v in (real["flows"] or []):
            pa, pb = pos.get(a) or pos.get(str(a)), pos.get(b) or pos.get(str(b))
            rep.add((pa[3], pb[3]))
        if L not in (pg["lang"], "%"):
            xs["must_be_silent"] += 1
            if real["sources"] or real["sinks"] or real["flows"]:
                prob.c11.append(dict(payload, problem={
                    "what": f"rules listed only under `lang: {L}` were applied to a unit written in {pg['lang']} (a rule group applies to the units of ITS language, not to languages whose name it contains)",
                    "expect": "silent", "rule_lang": L, "unit_lang": pg["lang"], "sources": len(real["sources"] or []), "sinks": len(real["sinks"] or []),
                    "flows": sorted(rep)[:5]}))
            continue
        if real["sources"] is None:
            continue
        is_main = any(n[0] == params["consts"]["K_STMT"] and n[5] == "call_stmt" for n in c["graph"]["nodes"])
        if not is_main:
            continue
        xs["applicable"] += 1
        xs["expected_flows"] += len(pg["expected"])
        xs["reported_flows"] += len(rep)
        for (a, b) in pg["expected"]:
            if (a, b) not in rep:
                prob.c10.append(dict(payload, problem={"what": f"a flow of a straight-line {pg['lang']} program (every variable assigned once) is not reported under rules of its language",
                                                      "names": [a, b], "expect": "xlang-missed", "rule_lang": L, "unit_lang": pg["lang"]}))
        for (a, b) in sorted(rep):
            if (a, b) not in set(map(tuple, pg["expected"])):
                prob.c11.append(dict(payload, problem={"what": f"a flow reported for a straight-line {pg['lang']} program (every variable assigned once) does not exist",
                                                      "names": [a, b], "expect": "xlang-spurious", "rule_lang": L, "unit_lang": pg["lang"]}))


def layout_groups(n_src, n_sink, n_tink=0):
    src = [{"operation": "call_stmt", "name": f"src{i}"} for i in range(n_src)]
    snk = [{"operation": "call_stmt", "name": f"sink{i}", "target": ["\\%arg0"], "vuln_type": "v"} for i in range(n_sink)]
    snk += [{"operation": "call_stmt", "name": f"tink{i}", "target": ["\\%arg1"], "vuln_type": "w"} for i in range(n_tink)]
    return [("python", src)], [("python", snk)]


def build_layout_jobs(rng, tier, root):
    """tie (e): layout programs (taint_layouts.py) — statement-level identity, several statements per line, helpers
    with several returns, class hierarchies over several files.  Ground truth = the same text under CPython."""
    import taint_layouts as tl
    sz = SIZES[tier]
    jobs = []
    work = os.path.join(root, "layout_exec")
    os.makedirs(work, exist_ok=True)
    for j in range(sz["layout_jobs"]):
        cases, files = [], {}
        for i in range(sz["layout_cases_per_job"]):
            # the first program of every job is the literal-operand stress program
            case = tl.make_layout_case(rng, j * 1000 + i, literals=(i == 0))
            gt, err = tl.execute(case.files, case.main, work)
            cases.append((case, gt, err))
            files.update(case.files)
        d = os.path.join(root, f"layout{j}")
        os.makedirs(d, exist_ok=True)
        ns = max([c.n_src for c, _, _ in cases] + [1])
        nk = max([c.n_sink for c, _, _ in cases] + [1])
        sg, kg = layout_groups(ns, nk, max([c.n_tink for c, _, _ in cases] + [0]))
        cd = os.path.join(d, "cfg_base")
        write_settings(cd, sg, kg)
        jobs.append({"name": f"layout{j}", "dir": d, "files": files, "configs": [{"name": "base", "dir": cd}],
                     "_cases": [], "_cfgs": [{"name": "base", "dir": cd, "groups": [sg, kg]}], "_layout": cases, "_groups": [sg, kg]})
    return jobs


def reported_stmt_pairs(entry_case):
    """real flows of one (entry, config) as ((file, line, col), (file, line, col)) pairs + the statements' names"""
    real, pos = entry_case["real"], entry_case["stmt_pos"]
    out = {}
    for a, b, v in (real["flows"] or []):
        pa, pb = pos.get(a) or pos.get(str(a)), pos.get(b) or pos.get(str(b))
        out[((pa[0], pa[1], pa[2]), (pb[0], pb[1], pb[2]))] = (pa[3], pb[3])
    return out


def layout_eval(job, res, params, prob, stats):
    import taint_layouts as tl
    """every (source statement, sink statement) pair CPython observed must be reported, whatever the number of
    functions, classes and files the value crosses; every reported flow must start and end at a site statement"""
    consts = params["consts"]
    ls = stats.setdefault("layout", {"programs": 0, "files": 0, "expected_flows": 0, "reported_flows": 0, "missed": 0, "missed_known": {},
                                     "programs_with_expected_flows": 0, "multi_file_programs": 0, "features": {}, "same_line_site_pairs": 0})
    by_unit = {}
    for c in res["cases"]:
        if "out_of_fragment" in c:
            continue
        by_unit.setdefault(os.path.basename(c["unit"]), []).append(c)
    sg, kg = job["_groups"]
    for case, gt, err in job["_layout"]:
        if err:
            prob.harness.append({"what": "generated layout program does not run under CPython", "error": err, "files": case.files})
            continue
        ls["programs"] += 1
        ls["files"] += len(case.files)
        ls["multi_file_programs"] += len(case.files) > 1
        for f in case.features:
            ls["features"][f] = ls["features"].get(f, 0) + 1
        lines = {}
        for nm, (fn, ln, col) in case.sites.items():
            lines.setdefault((nm[:3] == "src", fn, ln), []).append(nm)
        ls["same_line_site_pairs"] += sum(len(v) - 1 for v in lines.values())
        rep = {}
        entries = []
        for fn in case.files:
            for c in by_unit.get(fn, []):
                rep.update(reported_stmt_pairs(c))
                entries.append(c)
        site_at = {pos: nm for nm, pos in case.sites.items()}
        payload = {"kind": "program", "files": case.files, "src_groups": sg, "sink_groups": kg, "config": "base",
                   "layout_main": case.main, "origin": f"{job['name']} {case.main}", "context_files": job["files"]}
        ls["expected_flows"] += len(gt)
        ls["programs_with_expected_flows"] += bool(gt)
        ls["reported_flows"] += len(rep)
        lit_sinks = tl.literal_designated(case)
        ls["literal_designated_sinks"] = ls.get("literal_designated_sinks", 0) + len(lit_sinks)
        for (pa, pb), (na, nb) in sorted(rep.items()):
            sa, sb = site_at.get(pa), site_at.get(pb)
            if sb in lit_sinks:
                prob.c11.append(dict(payload, problem={"what": "a flow is reported into a sink statement whose rule-designated argument is a literal",
                                                      "stmt_pair": [list(pa), list(pb)], "names": [na, nb], "expect": "spurious"}))
                continue
            if sa is None or sb is None or not sa.startswith("src") or sb.startswith("src") or sa != na or sb != nb:
                prob.c11.append(dict(payload, problem={"what": "a reported flow starts or ends at a statement that is no source / sink statement of the program (position or callee name differs)",
                                                      "stmt_pair": [list(pa), list(pb)], "names": [na, nb], "expect": "spurious"}))
        for (s_, k_) in sorted(gt):
            key = (case.sites[s_], case.sites[k_])
            if key in rep:
                continue
            fid = classify_layout_missed(case, entries, consts, params, s_, k_)
            if fid:
                ls["missed_known"][fid] = ls["missed_known"].get(fid, 0) + 1
                prob.known.append((fid, f"flow {s_}@{key[0]} -> {k_}@{key[1]} not reported ({payload['origin']})"))
                continue
            ls["missed"] += 1
            prob.c10.append(dict(payload, problem={
                "what": "a flow observed in CPython (the same text executed with marker objects: source statement -> first argument of the sink statement) is not reported",
                "names": [s_, k_], "stmt_pair": [list(key[0]), list(key[1])], "pair": [list(key[0][:2]), list(key[1][:2])], "expect": "missed",
                "features": sorted(case.features)}))


def same_symbol_two_positions(case, entries, consts, k_name):
    """C10/same-symbol-at-two-positions: the sink call passes ONE variable at its designated position and at another
    position (AST), and in the SFG that variable's symbol has a single SYMBOL_IS_USED edge to the call statement whose
    position is not the designated one (the graph keeps one edge per (symbol, statement) pair)."""
    import ast
    import taint_layouts as tl
    kfile, kline, kcol = case.sites[k_name]
    di = tl.designated_index(k_name)
    var = None
    for node in ast.walk(ast.parse(case.files[kfile])):
        if isinstance(node, ast.Call) and isinstance(node.func, ast.Name) and node.func.id == k_name:
            if di < len(node.args) and isinstance(node.args[di], ast.Name):
                v = node.args[di].id
                if any(i != di and isinstance(a, ast.Name) and a.id == v for i, a in enumerate(node.args)):
                    var = v
    if var is None:
        return False
    for c in entries:
        gj = c["graph"]
        N = gj["nodes"]
        for u, n in enumerate(N):
            if n[0] != consts["K_STMT"] or n[5] != "call_stmt" or n[11] != k_name or n[6] + 1 != kline:
                continue
            poss = [pos for p_, et, pos in gj["in"][u] if et == consts["E_USED"] and N[p_][0] == consts["K_SYMBOL"] and N[p_][5] == var]
            if poss and all(pos != di + 1 for pos in poss):
                return True
    return False


def classify_layout_missed(case, entries, consts, params, s_name, k_name):
    """known open findings that apply to layout programs, each by its signature in the entry points' SFGs"""
    sfile, sline, _ = case.sites[s_name]
    if same_symbol_two_positions(case, entries, consts, k_name):
        return "C10/same-symbol-at-two-positions"
    for c in entries:
        gj = c["graph"]
        if callee_without_state(gj, consts, sfile, sline, s_name):
            return "C10/repeated-external-callee"
        if source_state_on_other_context(gj, consts, sfile, sline):
            return "C10/source-state-on-other-context"
        if returned_state_duplicated(gj, consts, sfile, sline):
            return "C10/returned-state-duplicated"
        if call_site_budget_exhausted(c, params, sfile, sline):
            return "C10/call-site-budget-per-entry"
    return None


def run_jobs(jobs):
    import multiprocessing as mp
    payload = [{k: v for k, v in j.items() if not k.startswith("_")} for j in jobs]
    ctxm = mp.get_context("fork")
    cap = int(os.environ.get("LV_WORKERS", "0")) or max(1, (os.cpu_count() or 4) - 2)
    with ctxm.Pool(processes=max(1, min(len(jobs), cap)), maxtasksperchild=1) as pool:
        return pool.map(packed_worker, payload, chunksize=1)


def packed_phase(ctx, params, prob, tier, side, extra_jobs=()):
    """ties (a) and (d): packed lian runs over generated programs; engine correspondence on the real SFGs under
    several rule configurations; CPython ground truth (lower bound) and may-dependence closure (upper bound)."""
    import taint_progs as tp
    consts = params["consts"]
    root = os.path.join(scratch_dir(), "packed")
    shutil.rmtree(root, ignore_errors=True)
    os.makedirs(root)
    t0 = time.time()
    jobs = build_jobs(ctx, tier, root)
    all_results = run_jobs(list(jobs) + list(extra_jobs))
    results, extra_results = all_results[:len(jobs)], all_results[len(jobs):]
    stats = {"programs": 0, "programs_with_expected_flows": 0, "expected_flows": 0, "reported_flows_base": 0,
             "missed": 0, "missed_known": {}, "spurious": 0, "spurious_known": {}, "imprecise_accepted": 0, "alias_source_accepted": 0, "graphs": 0, "graph_config_pairs": 0,
             "real_graph_nodes": 0, "untyped_real_graphs": 0, "out_of_fragment": 0, "features": {}, "src_kinds": {}, "sink_kinds": {},
             "kind_pairs_reported": {}, "config_checks": {}, "lian_seconds": [], "gap_locs": 0, "live_nodes": 0, "props": 0,
             "phase4_compared": 0, "distinct_programs_nontrivial": 0}
    samples = []
    all_cases = []
    for job, res in zip(jobs, results):
        if res["error"]:
            prob.harness.append({"job": job["name"], "error": res["error"]})
            continue
        stats["lian_seconds"].append(res["times"]["total"])
        by = {}
        for c in res["cases"]:
            if "out_of_fragment" in c:
                stats["out_of_fragment"] += 1
                prob.corr.append({"origin": f"{job['name']} {c['unit']}", "difference": {"out_of_fragment": c["out_of_fragment"]}})
                continue
            by.setdefault(os.path.basename(c["unit"]), {})[c["config"]] = c
            c["origin"] = f"{job['name']} {os.path.basename(c['unit'])} config={c['config']}"
            all_cases.append((job, c))
        job["_by"] = by
        job["_phase4"] = res["phase4"]
        # what the taint phase printed and wrote must be what find_flows returned (statement-level identity)
        stats["report_flows_compared"] = stats.get("report_flows_compared", 0) + len((res.get("report") or {}).get("memory") or [])
        for side_, pr in report_problems(res.get("report")):
            # narrow the input to the program the first differing flow belongs to (files of one program share a prefix)
            files_ = job["files"]
            first = (pr.get("missing") or pr.get("extra") or [None])[0]
            if pr.get("channel") == "json" and first and isinstance(first[3], str):
                pre = os.path.basename(first[3]).split(".")[0].split("_")[0]
                narrowed = {k: v for k, v in files_.items() if k.split(".")[0].split("_")[0] == pre}
                files_ = narrowed or files_
            item = {"kind": "program", "files": files_, "src_groups": job["_cfgs"][0]["groups"][0], "sink_groups": job["_cfgs"][0]["groups"][1],
                    "config": job["_cfgs"][0]["name"], "origin": f"{job['name']} (report of the whole run)", "problem": pr}
            (prob.c10 if side_ == "C10" else prob.c11).append(item)
        if "_layout" in job:
            layout_eval(job, res, params, prob, stats)
        if "_xlang" in job:
            xlang_eval(job, res, params, prob, stats)
        for dff in res.get("loader", [])[:2]:
            prob.corr.append({"origin": f"{job['name']} RuleManager.init on configuration {dff['config']!r} ({dff['file']})",
                              "difference": dict(dff, what="the loaded rule list is not the list of rule entries of the YAML file (one Rule per entry, in order)")})
    models = model_eval([c for _, c in all_cases], params) if all_cases else []
    seen_graph = set()
    for (job, c), m in zip(all_cases, models):
        real = c["real"]
        stats["graph_config_pairs"] += 1
        if c["config"] == "base":
            stats["graphs"] += 1
            stats["real_graph_nodes"] += len(c["graph"]["nodes"])
            if "drv_err" not in m and not (m.get("_typed") and m.get("_edge_typed")):
                stats["untyped_real_graphs"] += 1
        d = compare_case(real, m)
        if d:
            prob.corr.append({"origin": c["origin"], "graph": c["graph"], "rules": c["rules"], "difference": d})
        elif real["exc"]:
            prob.corr.append({"origin": c["origin"], "graph": c["graph"], "rules": c["rules"],
                              "difference": {"real_exception_on_a_real_graph": real["exc"]}})
        p10, p11, st = engine_checks(real, c["graph"], c["rules"], params)
        for k in ("props", "live_nodes", "gap_locs"):
            stats[k] += st[k]
        for p in p10:
            prob.c10.append({"origin": c["origin"], "kind": "graph", "graph": c["graph"], "rules": c["rules"], "problem": p})
        for p in p11:
            prob.c11.append({"origin": c["origin"], "kind": "graph", "graph": c["graph"], "rules": c["rules"], "problem": p})
        if c["config"] == "base":
            p4 = job["_phase4"].get(c["entry"], job["_phase4"].get(str(c["entry"])))
            if p4 is not None:
                stats["phase4_compared"] += 1
                if sorted(map(json.dumps, p4)) != sorted(map(json.dumps, real["flows"] or [])):
                    prob.corr.append({"origin": c["origin"], "difference": {
                        "what": "TaintAnalysis.run (full rule lists) reports other flows than the re-evaluation on the same SFG",
                        "run": p4, "re_evaluated": real["flows"]}})
    # program level
    for job in jobs:
        if "_by" not in job:
            continue
        cfg_by_name = {c["name"]: c for c in job["_cfgs"]}
        for case, rend in job["_cases"]:
            fname = f"case{case.idx:04d}.py"
            names = {0: fname, 1: f"case{case.idx:04d}_h.py"}
            stats["programs"] += 1
            for f in case.features:
                stats["features"][f] = stats["features"].get(f, 0) + 1
            gt, gst = tp.ground_truth(case, rend.sites)
            ub = tp.MayDep(case, rend.sites).flows()
            ubc = tp.MayDep(case, rend.sites, call_propagates=True).flows()
            if not gt <= ub:
                prob.harness.append({"what": "ground truth not inside the may-dependence closure (oracle bug)", "case": job["files"][fname]})
                continue
            src_info = {(f, l): (kind, nm) for f, l, kind, nm in rend.src_sites}
            sink_info = {(f, l): (kind, nm) for f, l, kind, nm in rend.sink_sites}
            for v in src_info.values():
                stats["src_kinds"][v[0]] = stats["src_kinds"].get(v[0], 0) + 1
            for v in sink_info.values():
                stats["sink_kinds"][v[0]] = stats["sink_kinds"].get(v[0], 0) + 1
            if gt:
                stats["programs_with_expected_flows"] += 1
                stats["expected_flows"] += len(gt)
            def named(pairs):
                return {((names[s[0]], s[1]), (names[k[0]], k[1])) for s, k in pairs}
            entry = job["_by"].get(fname, {})
            rep_base = reported_pairs(entry["base"]) if "base" in entry else set()
            stats["reported_flows_base"] += len(rep_base)
            if gt and rep_base:
                stats["distinct_programs_nontrivial"] += 1
            if len(samples) < 2 and gt and rep_base:
                samples.append({"program": {k: v for k, v in job["files"].items() if k.startswith(fname[:8])},
                                "expected_pairs": sorted(named(gt)), "reported_pairs": sorted(rep_base)})
            for cname, cfg in cfg_by_name.items():
                act = cfg["active"]
                rep = reported_pairs(entry[cname]) if cname in entry else set()
                if cname in entry and (entry[cname]["real"]["exc"] or entry[cname]["real"]["err"]):
                    continue       # already reported as correspondence / crash
                def act_pair(s, k):
                    return site_active(act, "src", src_info[s][0], src_info[s][1], names[s[0]], s[1]) and \
                        site_active(act, "sink", sink_info[k][0], sink_info[k][1], names[k[0]], k[1])
                gt_v = {(s, k) for s, k in gt if act_pair(s, k)}
                ubc_v = {(s, k) for s, k in ubc if act_pair(s, k)}
                ub_v = {(s, k) for s, k in ub if act_pair(s, k)}
                cc = stats["config_checks"].setdefault(cname, {"programs": 0, "expected": 0, "reported": 0})
                cc["programs"] += 1
                cc["expected"] += len(gt_v)
                cc["reported"] += len(rep)
                gj = entry[cname]["graph"] if cname in entry else None
                payload = {"kind": "program", "files": {k: v for k, v in job["files"].items() if k.startswith(fname[:8])},
                           "src_groups": cfg["groups"][0], "sink_groups": cfg["groups"][1], "config": cname,
                           "base_groups": cfg_by_name["base"]["groups"], "origin": f"{job['name']} {fname} config={cname}",
                           "context_files": job["files"]}
                for (s, k) in sorted(gt_v):
                    ns_, nk_ = (names[s[0]], s[1]), (names[k[0]], k[1])
                    if (ns_, nk_) in rep:
                        kp = src_info[s][0] + "->" + sink_info[k][0]
                        stats["kind_pairs_reported"][kp] = stats["kind_pairs_reported"].get(kp, 0) + 1
                        continue
                    stats["missed"] += 1
                    fid = classify_missed(case, rend, gj, consts, s, k, names, entry.get(cname), params)
                    if fid:
                        stats["missed_known"][fid] = stats["missed_known"].get(fid, 0) + 1
                        prob.known.append((fid, f"flow {ns_} -> {nk_} not reported ({payload['origin']})"))
                    else:
                        prob.c10.append(dict(payload, problem={"what": "a flow observed in CPython (identity-tracked source object reaches the sink's designated argument) is not reported",
                                                              "pair": [list(ns_), list(nk_)], "expect": "missed",
                                                              "source_kind": src_info[s][0], "sink_kind": sink_info[k][0]}))
                for (ns_, nk_) in sorted(rep):
                    inv = {v: k2 for k2, v in names.items()}
                    if ns_[0] not in inv or nk_[0] not in inv:
                        prob.c11.append(dict(payload, problem={"what": "flow reported between statements outside the program", "pair": [list(ns_), list(nk_)], "expect": "spurious"}))
                        continue
                    s, k = (inv[ns_[0]], ns_[1]), (inv[nk_[0]], nk_[1])
                    if (s, k) in ub_v:
                        continue
                    if s not in src_info and k in sink_info and site_active(act, "src", "fieldread", "cfg.secret", names[s[0]], None) \
                            and not act.get("src_line") and site_active(act, "sink", sink_info[k][0], sink_info[k][1], names[k[0]], k[1]):
                        if (s, k) in tp.alias_source_flows(case, rend, tp.MayDep(case, rend.sites, call_propagates=True)):
                            stats["alias_source_accepted"] += 1
                            continue
                    if (s, k) in ubc_v:
                        stats["imprecise_accepted"] += 1
                        continue
                    if s in src_info and k in sink_info and cname in entry:
                        fid = classify_spurious(case, rend, entry[cname], params, s, k, names, act_pair)
                        if fid:
                            stats["spurious_known"][fid] = stats["spurious_known"].get(fid, 0) + 1
                            prob.known.append((fid, f"flow {ns_} -> {nk_} reported ({payload['origin']})"))
                            continue
                    stats["spurious"] += 1
                    why = "a reported flow is not justified by any flow-insensitive, context-insensitive dependence of the sink's designated argument on the source"
                    if s not in src_info or k not in sink_info:
                        why = "a reported flow starts or ends at a statement that is no source / sink site of the program"
                    elif not act_pair(s, k):
                        why = f"a reported flow uses a rule that does not apply under configuration {cname!r} (language / file restriction)"
                    prob.c11.append(dict(payload, problem={"what": why, "pair": [list(ns_), list(nk_)], "expect": "spurious"}))
                # rule-set monotonicity / equality between configurations of the same SFG
                if cfg.get("subset_of") and cfg["subset_of"] in entry and cname in entry:
                    if not rep <= rep_base:
                        prob.c11.append(dict(payload, problem={"what": f"configuration {cname!r} (a restriction of 'base') reports pairs that 'base' does not",
                                                              "pair": [list(x) for x in sorted(rep - rep_base)[0]], "expect": "spurious", "compare": "base"}))
                if cfg.get("equals") and cfg["equals"] in entry and cname in entry and rep != rep_base:
                    why = {"anylang": "rules under the any-language marker report other pairs than the same rules under 'python'",
                           "plain": "rules whose names are only prefixes / suffixes / extensions of the names in the program change the report",
                           "dup": "appending same-name rules with another target and a location restriction that holds nowhere changes the report",
                           "dup_rev": "same-name rules with another target and a location restriction that holds nowhere, placed before the real rules, change the report"}[cname]
                    if rep_base - rep:
                        # (for 'plain' the roles are swapped: base = plain + decoys)
                        side_list = prob.c11
                        lost = sorted(rep_base - rep)[0]
                        side_list.append(dict(payload, problem={"what": why + " (pairs lost)", "pair": [list(lost[0]), list(lost[1])],
                                                                "expect": "missed", "compare": "base", "only_base": sorted(rep_base - rep)[:5]}))
                    if rep - rep_base:
                        extra = sorted(rep - rep_base)[0]
                        prob.c11.append(dict(payload, problem={"what": why + " (pairs added)", "pair": [list(extra[0]), list(extra[1])],
                                                              "expect": "spurious", "compare": "base", "only_" + cname: sorted(rep - rep_base)[:5]}))
    stats["seconds"] = round(time.time() - t0, 1)
    return stats, samples, extra_results


# ---- the witnesses of the Lean negative theorems, replayed on the real code ----------------------------

WITNESS_SIDE = {"call-source-pos": "C10", "alias-node-not-enqueued": "C10"}


def witness_phase(params, prob):
    rep = common.drv_ok(common.drv_batch([{"m": "taintrules", "op": "witnesses", "params": params}]))[0]
    if rep["prm0"] != params["prop_ops"]:
        prob.corr.append({"origin": "Spec/TaintWitness.lean prm0", "difference": {
            "what": "the literal list of propagating operations in apply_propagation_rules is no longer the one the witness theorems were evaluated with",
            "live": params["prop_ops"], "prm0": rep["prm0"]}})
    cases = []
    for c in rep["cases"]:
        real = real_on_json(c["graph"], c["rules"])
        cases.append({"graph": c["graph"], "rules": c["rules"], "real": real, "origin": "witness " + c["name"], "_c": c})
    for c, m in zip(cases, model_eval(cases, params)):
        w = c["_c"]
        d = compare_case(c["real"], m)
        if d:
            prob.corr.append({"origin": c["origin"], "graph": c["graph"], "rules": c["rules"], "difference": d})
        got = c["real"]["err"] or c["real"]["exc"] or c["real"]["flows"]
        side = prob.c10 if WITNESS_SIDE.get(w["name"], "C11") == "C10" else prob.c11
        if got != w["current"]:
            side.append({"origin": c["origin"], "kind": "graph", "graph": c["graph"], "rules": c["rules"],
                         "problem": {"what": f"witness {w['name']!r} of a repaired defect: the real code no longer answers what the repaired model answers",
                                     "expected": w["current"], "real": got, "pinned_model": w["frozen"]}})
        if w["name"] != "alias-node-not-enqueued" and w["frozen"] == w["current"]:
            prob.corr.append({"origin": c["origin"], "difference": {"what": "frozen and current model agree on the witness: it no longer documents the defect"}})
    return len(cases)


# ---- corpus ----------------------------------------------------------------------------------------

def load_corpus(side):
    out = []
    for pid in ("C10", "C11"):
        d = os.path.join(common.VERIF, "corpus", pid)
        if os.path.isdir(d):
            for f in sorted(os.listdir(d)):
                if f.endswith(".json"):
                    e = json.load(open(os.path.join(d, f)))
                    e["_file"] = f"corpus/{pid}/{f}"
                    out.append(e)
    return out


def corpus_graph_phase(corpus, params, prob):
    n = 0
    cases = []
    for e in corpus:
        if e.get("kind") != "graph":
            continue
        n += 1
        real = real_on_json(e["graph"], e["rules"])
        cases.append({"graph": e["graph"], "rules": e["rules"], "real": real, "origin": e["_file"], "_e": e})
    if not cases:
        return 0
    cur = model_eval(cases, params, "current")
    pin = model_eval(cases, params, "pinned")
    for c, m, mp in zip(cases, cur, pin):
        e = c["_e"]
        d = compare_case(c["real"], m)
        if d:
            prob.corr.append({"origin": c["origin"], "graph": c["graph"], "rules": c["rules"], "difference": d})
        exp = e.get("expect", {})
        side_list = prob.c10 if e.get("property", "C10") == "C10" else prob.c11
        if "current_flows" in exp and (c["real"]["flows"] if not c["real"]["err"] else c["real"]["err"]) != exp["current_flows"]:
            side_list.append({"origin": c["origin"], "kind": "graph", "graph": c["graph"], "rules": c["rules"],
                              "problem": {"what": "corpus witness: the real code no longer produces the recorded (repaired) result: " + e.get("note", ""),
                                          "expected": exp["current_flows"], "real": c["real"]["flows"], "err": c["real"]["err"]}})
        if "pinned_flows" in exp and "exc" not in mp and "drv_err" not in mp:
            got = mp["flows"] if not mp["err"] else mp["err"]
            if got != exp["pinned_flows"]:
                prob.corr.append({"origin": c["origin"], "difference": {"what": "frozen model no longer reproduces the pinned behaviour of the witness",
                                                                       "expected": exp["pinned_flows"], "model_pinned": got}})
        p10, p11, st = engine_checks(c["real"], c["graph"], c["rules"], params)
        for p in p10:
            if not e.get("allow_engine_c10"):
                prob.c10.append({"origin": c["origin"], "kind": "graph", "graph": c["graph"], "rules": c["rules"], "problem": p})
        for p in p11:
            prob.c11.append({"origin": c["origin"], "kind": "graph", "graph": c["graph"], "rules": c["rules"], "problem": p})
    return n


def corpus_program_jobs(corpus, root):
    jobs = []
    for i, e in enumerate(x for x in corpus if x.get("kind") == "program"):
        d = os.path.join(root, f"corpus{i}")
        os.makedirs(d, exist_ok=True)
        cd = os.path.join(d, "cfg_base")
        write_settings(cd, e["src_groups"], e["sink_groups"], entry_methods=e.get("entry_methods"))
        jobs.append({"name": f"corpus{i}", "dir": d, "files": e["files"], "configs": [{"name": "base", "dir": cd}], "_e": e,
                     "langs": e.get("langs")})
    return jobs


def corpus_program_eval(jobs, results, params, prob):
    n = 0
    consts = params["consts"]
    all_cases = []
    for job, res in zip(jobs, results):
        e = job["_e"]
        if res["error"]:
            prob.harness.append({"job": e["_file"], "error": res["error"]})
            continue
        n += 1
        rep = set()
        graphs = []
        for c in res["cases"]:
            if "out_of_fragment" in c:
                continue
            c["origin"] = e["_file"]
            all_cases.append(c)
            rep |= reported_pairs(c)
            graphs.append(c["graph"])
            if c["real"]["exc"] or c["real"]["err"]:
                (prob.c10 if e.get("property") == "C10" else prob.c11).append(
                    {"origin": e["_file"], "kind": "program", "files": e["files"], "src_groups": e["src_groups"], "sink_groups": e["sink_groups"],
                     "problem": {"what": "corpus program: the taint phase raised", "exc": c["real"]["exc"], "err": c["real"]["err"], "expect": "crash"}})
        payload = {"kind": "program", "files": e["files"], "src_groups": e["src_groups"], "sink_groups": e["sink_groups"],
                   "config": "base", "origin": e["_file"], "langs": e.get("langs"), "entry_methods": e.get("entry_methods")}
        if e.get("must_be_silent"):
            # rules that do not apply to the program's language: no source, no sink, no flow
            if not any("out_of_fragment" not in c for c in res["cases"]):
                prob.harness.append({"what": "corpus program produced no entry point", "file": e["_file"]})
            for c in res["cases"]:
                if "out_of_fragment" in c:
                    continue
                r_ = c["real"]
                if r_["sources"] or r_["sinks"] or r_["flows"]:
                    prob.c11.append(dict(payload, problem={"what": "corpus witness: rules that do not apply to the unit's language were applied: " + e.get("note", ""),
                                                          "expect": "silent", "sources": len(r_["sources"] or []), "sinks": len(r_["sinks"] or [])}))
                    break
        for side_, pr in report_problems(res.get("report")):
            (prob.c10 if side_ == "C10" else prob.c11).append(dict(payload, problem=pr))
        rep_stmt = {}
        for c in res["cases"]:
            if "out_of_fragment" not in c:
                rep_stmt.update(reported_stmt_pairs(c))
        for pr in e.get("must_report_stmt", []):
            # statement-level witness: [[file, line, col], [file, line, col]]
            if (tuple(pr[0]), tuple(pr[1])) not in rep_stmt:
                prob.c10.append(dict(payload, problem={"what": "corpus witness (statement-level) is missed: " + e.get("note", ""),
                                                      "stmt_pair": pr, "pair": [pr[0][:2], pr[1][:2]], "expect": "missed"}))
        for pr in e.get("must_report", []):
            key = ((pr[0][0], pr[0][1]), (pr[1][0], pr[1][1]))
            if key not in rep:
                prob.c10.append(dict(payload, problem={"what": "corpus witness (repaired defect) is missed again: " + e.get("note", ""),
                                                      "pair": pr, "expect": "missed"}))
        for pr in e.get("must_not_report", []):
            key = ((pr[0][0], pr[0][1]), (pr[1][0], pr[1][1]))
            if key in rep:
                prob.c11.append(dict(payload, problem={"what": "corpus witness (repaired defect) is reported again: " + e.get("note", ""),
                                                      "pair": pr, "expect": "spurious"}))
        for kr in e.get("known_reported", []):
            pr = kr["pair"]
            key = ((pr[0][0], pr[0][1]), (pr[1][0], pr[1][1]))
            if key in rep:
                ok = False
                for c in res["cases"]:
                    if "out_of_fragment" in c:
                        continue
                    inv = {}
                    for sid, (fn, ln) in c["stmt_site"].items():
                        inv.setdefault((fn, ln), []).append(int(sid))
                    ok = ok or any(tagged_at_sink(c, params, a, b) for a in inv.get(key[0], []) for b in inv.get(key[1], []))
                if ok:
                    prob.known.append((kr["finding"], f"flow {pr[0]} -> {pr[1]} reported ({e['_file']})"))
                else:
                    prob.c11.append(dict(payload, problem={"what": "corpus witness of an open finding is reported, but not as the product of tag propagation",
                                                          "pair": pr, "expect": "spurious"}))
        for km in e.get("known_missed", []):
            pr = km["pair"]
            key = ((pr[0][0], pr[0][1]), (pr[1][0], pr[1][1]))
            if key not in rep:
                ok = True
                if km["finding"] == "C10/repeated-external-callee":
                    ok = any(callee_without_state(g, consts, km["site"][0], km["site"][1], km["site"][2]) for g in graphs)
                if km["finding"] == "C10/call-site-budget-per-entry":
                    ok = any(call_site_budget_exhausted(c, params, km["site"][0], km["site"][1]) for c in res["cases"] if "out_of_fragment" not in c)
                if km["finding"] == "C10/reaching-def-lost":
                    du = km["def_use"]
                    ok = any(def_use_edge_missing(g, consts, du["var"], du["file"], du["def_line"], du["file"], du["use_line"]) for g in graphs)
                if km["finding"] == "C10/same-symbol-at-two-positions":
                    st_ = km["stmt"]      # [file, line, callee, variable, designated edge position]
                    ok = any(n[0] == consts["K_STMT"] and n[11] == st_[2] and n[6] + 1 == st_[1] and
                             [pos for p_, et, pos in g["in"][u] if et == consts["E_USED"] and g["nodes"][p_][5] == st_[3]] not in ([], [st_[4]]) and
                             all(pos != st_[4] for p_, et, pos in g["in"][u] if et == consts["E_USED"] and g["nodes"][p_][5] == st_[3])
                             for g in graphs for u, n in enumerate(g["nodes"]))
                if km["finding"] == "C10/join-arg-state-lost":
                    du = km["def_use"]
                    ok = any(arg_value_not_passed(g, consts, du["var"], du["file"], du["def_line"], du["file"], du["use_line"]) for g in graphs)
                if km["finding"] == "C10/source-state-on-other-context":
                    ok = any(source_state_on_other_context(g, consts, km["site"][0], km["site"][1]) for g in graphs)
                if km["finding"] == "C10/returned-state-duplicated":
                    ok = any(returned_state_duplicated(g, consts, km["site"][0], km["site"][1]) for g in graphs)
                if ok:
                    prob.known.append((km["finding"], f"flow {pr[0]} -> {pr[1]} not reported ({e['_file']})"))
                else:
                    prob.c10.append(dict(payload, problem={"what": "corpus witness of an open finding is missed, but not with the finding's signature",
                                                          "pair": pr, "expect": "missed"}))
    if all_cases:
        for c, m in zip(all_cases, model_eval(all_cases, params)):
            d = compare_case(c["real"], m)
            if d:
                prob.corr.append({"origin": c["origin"], "graph": c["graph"], "rules": c["rules"], "difference": d})
    return n


# ---- shrinking --------------------------------------------------------------------------------------

def graph_problem_persists(gj, rj, params, side, what):
    try:
        real = real_on_json(gj, rj)
    except Exception:
        return False
    p10, p11, _ = engine_checks(real, gj, rj, params)
    return any(p["what"] == what for p in (p10 if side == "C10" else p11))


def shrink_graph_problem(item, params, side):
    """drop rules, then edges, while the same oracle problem persists on the real code"""
    gj, rj = item["graph"], item["rules"]
    what = item["problem"]["what"]
    for key in ("sources", "sinks", "src_code", "sink_code"):
        i = 0
        while i < len(rj[key]):
            cand = dict(rj, **{key: rj[key][:i] + rj[key][i + 1:]})
            if graph_problem_persists(gj, cand, params, side, what):
                rj = cand
            else:
                i += 1
    edges = [(u, tuple(e)) for u, row in enumerate(gj["out"]) for e in row]
    budget = 200
    for (u, e) in edges:
        if budget <= 0:
            break
        budget -= 1
        v = e[0]
        cand = dict(gj, out=[[x for x in row if not (uu == u and tuple(x) == e)] for uu, row in enumerate(gj["out"])],
                    **{"in": [[x for x in row if not (vv == v and x[0] == u and x[1] == e[1] and x[2] == e[2])] for vv, row in enumerate(gj["in"])]})
        if graph_problem_persists(cand, rj, params, side, what):
            gj = cand
    out = dict(item, graph=gj, rules=rj)
    try:
        real = real_on_json(gj, rj)
        p10, p11, _ = engine_checks(real, gj, rj, params)
        out["problem"] = [p for p in (p10 if side == "C10" else p11) if p["what"] == what][0]
        out["real"] = canon_real(real)
    except Exception:
        pass
    return out


def run_program_payload(payload, root):
    """one lian run over the payload's files under its configuration; -> (reported pairs, worker result)"""
    d = os.path.join(root, "replay_%d" % int(time.time() * 1000 % 1e9))
    os.makedirs(d, exist_ok=True)
    cd = os.path.join(d, "cfg_base")
    write_settings(cd, payload["src_groups"], payload["sink_groups"], entry_methods=payload.get("entry_methods"))
    job = {"name": "replay", "dir": d, "files": payload.get("run_files") or payload["files"], "configs": [{"name": "base", "dir": cd}],
           "langs": payload.get("langs")}
    res = run_jobs([job])[0]
    rep = set()
    if res["error"]:
        return None, res
    own = set(payload["files"])
    res["cases"] = [c for c in res["cases"] if os.path.basename(c["unit"]) in own]     # only the program's entry points
    for c in res["cases"]:
        if "out_of_fragment" not in c:
            rep |= reported_pairs(c)
    return rep, res


def program_problem_persists(payload, root):
    """Does the recorded verdict reproduce?  First on the program alone; statement and state ids (and with them every
    iteration order over sets of ids inside lian) depend on what else is in the workspace, so when the program alone
    does not reproduce the verdict and the replay carries the files of the packed run it came from, the program is
    run again in exactly that context."""
    if _program_problem_persists_in(payload, root):
        return True
    ctxf = payload.get("context_files")
    if ctxf and set(ctxf) != set(payload["files"]):
        return _program_problem_persists_in(dict(payload, run_files=ctxf), root)
    return False


def _program_problem_persists_in(payload, root):
    pr = payload["problem"]
    rep, res = run_program_payload(payload, root)
    if rep is None:
        return False
    if pr.get("expect") == "crash":
        return any(c.get("real", {}).get("exc") or c.get("real", {}).get("err") for c in res["cases"])
    if pr.get("expect") == "report":
        return any(p.get("channel") == pr.get("channel") for _, p in report_problems(res.get("report")))
    if pr.get("expect") in ("silent", "xlang-missed", "xlang-spurious"):
        names = set()
        active = False
        for c in res["cases"]:
            if "out_of_fragment" in c:
                continue
            real = c["real"]
            active = active or bool(real["sources"] or real["sinks"] or real["flows"])
            for a, b, v in (real["flows"] or []):
                pa, pb = c["stmt_pos"].get(a) or c["stmt_pos"].get(str(a)), c["stmt_pos"].get(b) or c["stmt_pos"].get(str(b))
                names.add((pa[3], pb[3]))
        if pr["expect"] == "silent":
            return active
        return (tuple(pr["names"]) not in names) if pr["expect"] == "xlang-missed" else (tuple(pr["names"]) in names)
    if "stmt_pair" in pr:
        rep_s = {}
        for c in res["cases"]:
            if "out_of_fragment" not in c:
                rep_s.update(reported_stmt_pairs(c))
        key_s = (tuple(pr["stmt_pair"][0]), tuple(pr["stmt_pair"][1]))
        if pr["expect"] == "spurious":
            return key_s in rep_s
        if payload.get("layout_main"):
            # the expectation is recomputed: the same files executed by CPython
            import taint_layouts as tl
            work = os.path.join(root, "exec")
            os.makedirs(work, exist_ok=True)
            gt, err = tl.execute(payload["files"], payload["layout_main"], work)
            if err or tuple(pr["names"]) not in gt:
                return False
        return key_s not in rep_s
    if "pair" not in pr:
        return True
    key = ((pr["pair"][0][0], pr["pair"][0][1]), (pr["pair"][1][0], pr["pair"][1][1]))
    if pr.get("compare") == "base" and payload.get("base_groups"):
        # the verdict is a DIFFERENCE between two configurations of the same program: the pair is reported under
        # exactly one of them
        rep_b, _ = run_program_payload(dict(payload, src_groups=payload["base_groups"][0], sink_groups=payload["base_groups"][1]), root)
        if rep_b is None:
            return False
        return (key in rep) != (key in rep_b)
    if pr["expect"] == "missed":
        return key not in rep
    if pr["expect"] == "spurious":
        return key in rep
    return True


def shrink_program_problem(item, root, max_runs=10):
    """delete whole lines after the sink / unrelated top-level lines while the verdict persists (line numbers of the
    pair must stay valid, so only lines AFTER both sites of the main file are candidates)"""
    pr = item["problem"]
    if "pair" not in pr or pr.get("expect") != "spurious" or "stmt_pair" in pr:
        # a MISSED flow is only a violation while the program still produces it at run time; the ground truth cannot
        # be recomputed from truncated text, so such programs are reported as generated
        return item
    main = sorted(item["files"])[0]
    lines = item["files"][main].split("\n")
    last = max(pr["pair"][0][1] if pr["pair"][0][0] == main else 0, pr["pair"][1][1] if pr["pair"][1][0] == main else 0)
    runs = 0
    cur = dict(item)
    if last and last < len(lines) - 1 and runs < max_runs:
        cand = dict(cur, files=dict(cur["files"], **{main: "\n".join(lines[:last]) + "\n"}))
        runs += 1
        try:
            compile(cand["files"][main], main, "exec")
            if _program_problem_persists_in(cand, root):
                cur = cand
        except SyntaxError:
            pass
    return cur


# ---- entry points ------------------------------------------------------------------------------------

def run_check(ctx, side):
    common.use_repo()
    assert_lian_from_repo()
    proofs_ok = ctx.proofs()
    tier = ctx.tier
    prob = Problems()
    try:
        params = extract_params()
    except ParamError as e:
        ctx.violation({"what": "parameter extraction from the live code failed: " + str(e),
                       "correspondence": "LianVerif.TaintRules.propagates / constants"}, no_input=True)
        return
    ctx.cov["fingerprints"] = fingerprints()
    ctx.cov["params"] = {"prop_ops": params["prop_ops"]}
    corpus = load_corpus(side)
    n_witness = witness_phase(params, prob)
    n_corpus_graph = corpus_graph_phase(corpus, params, prob) + n_witness
    synth_stats, synth_samples = synth_phase(ctx, params, prob, tier)
    root = os.path.join(scratch_dir(), "corpus")
    shutil.rmtree(root, ignore_errors=True)
    os.makedirs(root)
    cjobs = corpus_program_jobs(corpus, root)
    t_packed = time.time()
    packed_stats, packed_samples, cres = packed_phase(ctx, params, prob, tier, side, extra_jobs=cjobs)
    n_corpus_prog = corpus_program_eval(cjobs, cres, params, prob) if cjobs else 0
    ctx.cov["timing_s"] = {"synthetic": synth_stats["seconds"], "packed_and_corpus": round(time.time() - t_packed, 1)}

    ctx.cov["evaluations"] = synth_stats["rule_sets"] + packed_stats["graph_config_pairs"] + packed_stats["programs"] + n_corpus_graph + n_corpus_prog
    ctx.cov["distinct_nontrivial"] = synth_stats["distinct_with_flows"] + packed_stats["distinct_programs_nontrivial"]
    ctx.cov["rule"] = (
        f"the {n_witness} witness graphs of the Lean negative theorems and the corpus ({n_corpus_graph - n_witness} graph + {n_corpus_prog} program witnesses) first; "
        f"(b,c) {synth_stats['graphs']} random SFGs (program-like skeleton + noise edges, few ids so that nodes share symbol/state ids) x random/targeted rule sets "
        f"(all rule kinds, lang/unit/line restrictions, all target forms) incl. {synth_stats['mono_pairs']} extension pairs, run through the REAL "
        "find_sources/find_sinks/propagate_taint/get_sink_tag_by_rules/find_flows with a stub loader and through the Lean model; "
        f"(a,d) {packed_stats['programs']} generated Python programs (assignments, operators, calls/returns, fields, lists, dicts, closures, module variables, "
        "if/while, 1-2 files; call / method-call / parameter / field-read sources; call / method-call / field-write / record-write sinks) analysed by lian in "
        f"packed in-process runs, every entry point's in-memory SFG re-evaluated under 11 rule configurations written as YAML and loaded by the REAL RuleManager (base incl. prefix/suffix decoy rules, plain, same-name duplicates appended / prepended, all-java, no source, no sink, half java, unit_name-restricted sinks, line_num-restricted sources, any-language marker) ({packed_stats['graph_config_pairs']} graph x configuration pairs) "
        "by the real functions and the model; ground truth = CPython identity tracking over all decision vectors (loops at most once), upper bound = flow- and "
        "context-insensitive dependence closure of the generator's AST; "
        f"(e) {packed_stats.get('layout', {}).get('programs', 0)} layout programs ({packed_stats.get('layout', {}).get('files', 0)} files: several source / sink statements on one line, helpers with 2-3 "
        "returns in every tainted/clean combination, class hierarchies of depth 1-3 over 1-3 files in both file-name orders with inherited constructors and "
        "methods, aliased imports) whose flows are identified by source and sink STATEMENT (file, line, column, callee) against a ground truth obtained by executing "
        f"the same text under CPython; and in every packed run and corpus program the WRITTEN report (console + taint_data_flow.json, {packed_stats.get('report_flows_compared', 0)} flows) "
        "is compared with what find_flows returned; "
        f"(f) {packed_stats.get('other_languages', {}).get('programs', 0)} generated Java / C programs under rule groups of java, c, javascript, csharp, typescript, abc, python and the "
        f"any-language marker ({packed_stats.get('other_languages', {}).get('must_be_silent', 0)} (entry, configuration) pairs in which the group's language merely CONTAINS the unit's and nothing may be found); "
        "literal operands (STATE_IS_USED predecessors whose ids collide with symbol ids) on synthetic graphs and in literal-stress programs, "
        "with the invariants of the SYMBOL tag table checked on the real tables after every propagation and at every sink-tag lookup. distinct_nontrivial = distinct synthetic (graph, rules) with >=1 real flow + programs with "
        ">=1 expected and >=1 reported flow")
    ctx.cov["exhaustive"] = False
    ctx.cov["samples"] = synth_samples + packed_samples
    ctx.cov["synthetic"] = synth_stats
    ctx.cov["end_to_end"] = packed_stats
    ctx.cov["correspondence"] = {"compared": synth_stats["rule_sets"] + packed_stats["graph_config_pairs"] + n_corpus_graph,
                                 "differences": len(prob.corr)}
    ctx.cov["fragment"] = {"typed_synthetic": synth_stats["typed"], "untyped_synthetic": synth_stats["untyped"],
                           "untyped_real_graphs": packed_stats["untyped_real_graphs"]}
    ctx.assumptions += [
        "the SFG handed to the taint phase is taken as given: 'a value flows at run time => a path exists in the SFG' (soundness of lian's P1-P3 analyses) is NOT proved, only searched for counter-examples by the end-to-end tier",
        "tags are modelled as Booleans: every (source, sink) pair runs in a fresh TaintEnv holding one bit (checked on every real tag map)",
        "the *_from_code rule lists are restricted to lines that occur in the analysed files (line equality is required by every use)",
    ]
    if prob.harness:
        raise RuntimeError("harness problem: " + json.dumps(prob.harness[0], default=str)[:1500])

    own = prob.c10 if side == "C10" else prob.c11
    open_ids = set(ctx.finding_ids("open"))
    for fid, what in prob.known:
        if not fid.startswith(side + "/"):
            continue
        if fid in open_ids:
            ctx.known(fid, what)
        else:
            own.append({"kind": "text", "problem": {"what": f"matcher {fid} fired but known_findings.json has no open entry of that id: {what}"}})
    ctx.cov["problems"] = {"c10": len(prob.c10), "c11": len(prob.c11), "correspondence": len(prob.corr), "known_hits": len(prob.known)}
    if own:
        seen = set()
        for item in own:
            key = item["problem"]["what"]
            if key in seen or len(seen) >= 3:
                continue
            seen.add(key)
            if item.get("kind") == "graph":
                item = shrink_graph_problem(item, params, side)
            elif item.get("kind") == "program":
                item = shrink_program_problem(item, os.path.join(scratch_dir(), "shrink"))
            rp = {k: v for k, v in item.items() if not k.startswith("_")}
            rp["side"] = side
            rp["what"] = item["problem"]["what"]
            rp["failing_inputs_in_run"] = len(own)
            ctx.violation(rp)
    elif prob.corr or not proofs_ok:
        first = prob.corr[0] if prob.corr else None
        ctx.violation({"what": "proof obligation or correspondence broken; the oracles (CPython ground truth, dependence upper bound, SFG reachability bounds) "
                               "found no input violating the property in this run",
                       "side": side, "broken_theorems": ctx.audit["failures"] if ctx.audit else None,
                       "correspondence": None if first is None else {"model": "LianVerif.Taint.analyze / findSources / findSinks / propagate / sinkTag (variant current)",
                                                                     "origin": first.get("origin"), "difference": first.get("difference"),
                                                                     "graph": first.get("graph"), "rules": first.get("rules")},
                       "correspondence_differences": len(prob.corr)}, no_input=True)


def replay_check(rp, side):
    common.use_repo()
    assert_lian_from_repo()
    params = extract_params()
    kind = rp.get("kind")
    if rp.get("no_failing_input_found"):
        c = rp.get("correspondence")
        if not c or not c.get("graph"):
            print(json.dumps({"note": "nothing to replay on the real code (proof obligation)"}))
            return 0
        real = real_on_json(c["graph"], c["rules"])
        m = model_eval([{"graph": c["graph"], "rules": c["rules"]}], params)[0]
        d = compare_case(real, m)
        print(json.dumps({"real": canon_real(real), "difference": d}, default=str)[:3000])
        return 1 if d else 0
    if kind == "graph":
        real = real_on_json(rp["graph"], rp["rules"])
        p10, p11, _ = engine_checks(real, rp["graph"], rp["rules"], params)
        probs = p10 if side == "C10" else p11
        exp = rp.get("problem", {})
        if "expected" in exp:
            still = (real["flows"] if not real["err"] else real["err"]) != exp["expected"]
            print(json.dumps({"real_flows": real["flows"], "err": real["err"], "expected": exp["expected"], "violates": still}))
            return 1 if still else 0
        print(json.dumps({"real": canon_real(real), "problems": probs}, default=str)[:4000])
        return 1 if probs else 0
    if kind == "mono":
        if rp.get("yaml") and rp.get("yaml_ext"):
            # the rule sets went through YAML files and the REAL RuleManager: reload them the same way
            g, loader, nodes = graph_from_json(rp["graph"])
            res = []
            for y, rj in ((rp["yaml"], rp["rules"]), (rp["yaml_ext"], rp["rules_ext"])):
                rm, _ = load_via_rule_manager(y[0], y[1], rules_from_json(rj))
                res.append(real_engine(make_ta(loader, rm), g, nodes))
            a, b = res
            shutil.rmtree(scratch_dir(), ignore_errors=True)
        else:
            a = real_on_json(rp["graph"], rp["rules"])
            b = real_on_json(rp["graph"], rp["rules_ext"])
        lost = sorted(flow_pairs(a) - flow_pairs(b))
        print(json.dumps({"pairs": sorted(flow_pairs(a)), "pairs_ext": sorted(flow_pairs(b)), "lost": lost}))
        return 1 if lost else 0
    if kind == "program":
        root = os.path.join(scratch_dir(), "replay")
        try:
            still = program_problem_persists(rp, root)
            rep, _ = run_program_payload(rp, root)
        finally:
            shutil.rmtree(scratch_dir(), ignore_errors=True)
        print(json.dumps({"reported": sorted(rep or []), "problem": rp.get("problem"), "violates": still}, default=str)[:3000])
        return 1 if still else 0
    print(json.dumps({"note": "replay kind not executable", "kind": kind}))
    return 0
